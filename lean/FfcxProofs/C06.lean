/-
C06 — form descriptor dispatch.  Property theorems about `common.integral_data`,
the `form_integral*` tables of `C/form.py` and the sub-domain part of `_compute_form_ir`
(model: FfcxModel/IR/Layout.lean; helper lemmas: FfcxProofs/Lemmas/Layout.lean).

  enum_order                 python tuple order = ufcx_integral_type enum order (Generated, decide)
  ids_sorted                 ids (and form_integral_ids) non-decreasing inside every type group          [full]
  triples_preserved          per type, the (id,name,domains) triples are only permuted                  [full]
  offsets_delimit            offsets delimit the groups — integrals with ANY number of domains           [full]
  kernels_of_type            slice [offsets[t],offsets[t+1]) of the emitted table = type t's rows        [full]
  expand_ids / listed_iff    kernels under (type,id) = integrals whose id tuple contains id              [full]
  formIR_accepts / formIR_rejects / formIR_rejects_large
                             accepted ⇒ known type and every user id in [0, 2³¹−1]; any id < 0 or > 2³¹−1 is rejected [full]
  formIR_ids_in_range        every stored id (and every entry of form_integral_ids) lies in [−1, 2³¹−1]   [full]
  otherwise_not_folded       rows under an explicit id come only from integrals declaring that id        [full]
  minus_one_only_otherwise   a row with id −1 comes from an integral whose tuple contains 'otherwise'    [full]
  dispatch                   end-to-end: (id, name, tag) rows visited for type t ~ expected rows (Perm)  [full]
  prism_offsets              the former F6 witness (prism ds(1)+ds(2)+dP) now gets [0,0,4,4,5,5]

History: before the fix commits "form_integral_offsets must count one kernel per (integral, domain)
pair" and "reject negative user subdomain ids, including -1" this file held `offsets_delimit_partial`
+ `offsets_delimit_counterexample` and `minus_one_only_otherwise_partial/_counterexample`.

Core Lean only.
-/
import FfcxModel.IR.Layout
import FfcxModel.Generated.IntegralTypes
import FfcxProofs.Lemmas.Layout

namespace Ffcx.C06
open Ffcx.Layout Ffcx.Generated

/-! ### enum_order (facts regenerated from /repo on every run) -/

/-- The order in which `integral_data` concatenates the integral types, the key order of the
FormIR dictionaries and the numeric values of `enum ufcx_integral_type` agree: type number `t` of
ufcx.h is position `t` of both Python tuples (values are `0,1,2,…` without gaps), and the set of
types equals `supported_integral_types`. -/
theorem enum_order :
    integralDataTypes = ufcxIntegralTypeEnum.map (·.1)
    ∧ ufcxIntegralTypeEnum.map (·.2) = List.range ufcxIntegralTypeEnum.length
    ∧ formIrTypes = integralDataTypes
    ∧ supportedIntegralTypes.isPerm integralDataTypes = true
    ∧ integralDataTypes.Nodup := by decide

/-- and `width = 2` exactly for the interior-facet entry of that list -/
theorem width_on_types :
    integralDataTypes.map widthOf = integralDataTypes.map (fun t => if t = "interior_facet" then 2 else 1) := by
  decide

/-! ### sorting -/

/-- hypothesis shared by the sorting theorems: one argsort result per type -/
def ArgsortAll (πs : List (List Nat)) (groups : List Group) : Prop :=
  πs.length = groups.length ∧ ∀ p ∈ πs.zip groups, IsArgsort (p.2.map (·.id)) p.1

instance (πs : List (List Nat)) (groups : List Group) : Decidable (ArgsortAll πs groups) := by
  unfold ArgsortAll; exact inferInstance

theorem argsortAll_stable (groups : List Group) :
    ArgsortAll (groups.map (fun g => argsortStable (g.map (·.id)))) groups := by
  refine ⟨by simp, ?_⟩
  intro p hp
  rw [List.zip_map_left] at hp
  obtain ⟨q, hq, rfl⟩ := List.mem_map.mp hp
  have : q.1 = q.2 := by
    have := List.of_mem_zip hq
    clear hp
    induction groups with
    | nil => simp at hq
    | cons g gs ih =>
      simp only [List.zip_cons_cons, List.mem_cons] at hq
      rcases hq with rfl | hq
      · rfl
      · exact ih hq (List.of_mem_zip hq)
  simp only [Prod.map_fst, Prod.map_snd, id_eq]
  rw [this]
  exact argsortStable_isArgsort _

theorem sorted_forall (πs : List (List Nat)) (groups : List Group) (h : ArgsortAll πs groups) :
    (List.zipWith sortGroup πs groups).length = groups.length
    ∧ ∀ t, t < groups.length →
        ((List.zipWith sortGroup πs groups).getD t []).Perm (groups.getD t [])
        ∧ (((List.zipWith sortGroup πs groups).getD t []).map (·.id)).Pairwise (· ≤ ·) := by
  obtain ⟨hl, hs⟩ := h
  induction πs generalizing groups with
  | nil =>
    cases groups with
    | nil => simp
    | cons g gs => simp at hl
  | cons π πs ih =>
    cases groups with
    | nil => simp at hl
    | cons g gs =>
      have hπ := hs (π, g) (by simp)
      have hrec := ih gs (by simpa using hl) (fun p hp => hs p (by simp [hp]))
      refine ⟨by simpa using hrec.1, ?_⟩
      intro t ht
      cases t with
      | zero =>
        simp only [List.zipWith_cons_cons, List.getD_cons_zero]
        refine ⟨applyPerm_perm π g (by simpa using hπ.1), ?_⟩
        simp only [sortGroup]
        rw [applyPerm_map]
        exact hπ.2
      | succ t =>
        simpa using hrec.2 t (by simpa using ht)

/-- **`ids_sorted`** (full).  For every argsort result the relation allows, `integral_data(ir).ids` is
the concatenation over the integral types of the sorted id lists; inside every type group the ids —
and the `form_integral_ids` C array emitted for it (one copy per domain) — are non-decreasing. -/
theorem ids_sorted (πs : List (List Nat)) (groups : List Group) (h : ArgsortAll πs groups) :
    let sorted := List.zipWith sortGroup πs groups
    (intData πs groups).ids = (sorted.map (·.map (·.id))).flatten
    ∧ sorted.length = groups.length
    ∧ ∀ t, t < groups.length →
        ((sorted.getD t []).map (·.id)).Pairwise (· ≤ ·)
        ∧ (emitIds (sorted.getD t [])).Pairwise (· ≤ ·) := by
  intro sorted
  have hs := sorted_forall πs groups h
  refine ⟨by simp [intData, sorted, List.map_flatten], hs.1, ?_⟩
  intro t ht
  have hp := (hs.2 t ht).2
  refine ⟨hp, ?_⟩
  simp only [emitIds]
  rw [List.pairwise_flatMap]
  constructor
  · intro a _
    exact pairwise_const _ _ (Int.le_refl _) _
  · rw [List.pairwise_map] at hp
    refine hp.imp ?_
    intro a b hab x hx y hy
    simp only [List.mem_map] at hx hy
    obtain ⟨_, _, rfl⟩ := hx
    obtain ⟨_, _, rfl⟩ := hy
    exact hab

/-- **`triples_preserved`** (full).  `names`, `ids`, `domains` of `integral_data` are the three
projections of ONE list of triples, which is the concatenation over the types of a permutation of
the type's FormIR triples: no kernel is lost, duplicated, moved to another type, or paired with
another id/domain set. -/
theorem triples_preserved (πs : List (List Nat)) (groups : List Group) (h : ArgsortAll πs groups) :
    let sorted := List.zipWith sortGroup πs groups
    (intData πs groups).names = sorted.flatten.map (·.name)
    ∧ (intData πs groups).ids = sorted.flatten.map (·.id)
    ∧ (intData πs groups).domains = sorted.flatten.map (·.domains)
    ∧ sorted.length = groups.length
    ∧ ∀ t, t < groups.length → (sorted.getD t []).Perm (groups.getD t []) := by
  intro sorted
  have hs := sorted_forall πs groups h
  exact ⟨rfl, rfl, rfl, hs.1, fun t ht => (hs.2 t ht).1⟩

/-! ### offsets -/

theorem kernelCount_perm {g g' : Group} (h : g.Perm g') : kernelCount g = kernelCount g' := by
  simp only [kernelCount]
  exact (h.map _).sum_nat

theorem sorted_counts (πs : List (List Nat)) (groups : List Group) (h : ArgsortAll πs groups) :
    (List.zipWith sortGroup πs groups).map kernelCount = groups.map kernelCount := by
  have hs := sorted_forall πs groups h
  apply List.ext_getElem (by simp only [List.length_map]; exact hs.1)
  intro t h1 h2
  have ht' : t < groups.length := by simpa using h2
  have hp := (hs.2 t ht').1
  have ht : t < (List.zipWith sortGroup πs groups).length := by simpa using h1
  simp only [List.getElem_map]
  have e1 : (List.zipWith sortGroup πs groups).getD t [] = (List.zipWith sortGroup πs groups)[t] :=
    getD_eq_getElem' _ _ _ ht
  have e2 : groups.getD t [] = groups[t] := getD_eq_getElem' _ _ _ ht'
  rw [← e1, ← e2]
  exact kernelCount_perm hp

/-- **`offsets_delimit`** (full).  For every FormIR — integrals with ANY number of domain cell types —
and every admissible argsort result, `form_integral_offsets` delimits the type groups of the kernel
table: `Delimits` gives `offsets[0]=0`, `offsets[t+1]−offsets[t] = Σ|domains|` of type `t` = number
of kernel pointers emitted for `t` (`Delimits.diff`), last = total number of kernels (`Delimits.last`). -/
theorem offsets_delimit (πs : List (List Nat)) (groups : List Group) (h : ArgsortAll πs groups) :
    Delimits (intData πs groups).offsets (groups.map kernelCount) := by
  simp only [intData, offsets]
  rw [offsLoop_eq, sorted_counts πs groups h]
  exact delimits_cumul _

/-- The prism witness of DESIGN §7 F6, `u*v*ds(1) + 2*u*v*ds(2) + u*v*dP` on a prism mesh
(domain tags: basix CellType triangle = 2, quadrilateral = 4, point = 0). -/
def prismWitness : List Group :=
  [[], [⟨1, "ds1", [2, 4]⟩, ⟨2, "ds2", [2, 4]⟩], [], [⟨-1, "dP", [0]⟩], []]

/-- the (unique) argsort results on the witness -/
def prismPerms : List (List Nat) := [[], [0, 1], [], [0], []]

/-- **`prism_offsets`** (non-vacuity of `offsets_delimit` on a multi-domain form): the former F6 witness
now gets `[0,0,4,4,5,5]` for its 5 kernels (it was `[0,0,4,4,4,4]`). -/
theorem prism_offsets :
    ArgsortAll prismPerms prismWitness
    ∧ (intData prismPerms prismWitness).offsets = [0, 0, 4, 4, 5, 5]
    ∧ (emit (List.zipWith sortGroup prismPerms prismWitness).flatten).length = 5 := by
  refine ⟨by decide, by decide, by decide⟩

/-- **`kernels_of_type`** (full).  The rows `offsets[t] ≤ k < offsets[t+1]` of the emitted
`(form_integral_ids, form_integrals)` table are exactly the rows of type `t` — for integrals with any
number of domains. -/
theorem kernels_of_type (πs : List (List Nat)) (groups : List Group) (h : ArgsortAll πs groups)
    (t : Nat) (ht : t < groups.length) :
    let sorted := List.zipWith sortGroup πs groups
    slice (intData πs groups).offsets t (emit sorted.flatten) = emit (sorted.getD t []) := by
  intro sorted
  have hs := sorted_forall πs groups h
  have hd := offsets_delimit πs groups h
  have hcounts : groups.map kernelCount = (sorted.map emit).map List.length := by
    rw [← sorted_counts πs groups h]
    simp [sorted, emit_length]
  rw [hcounts] at hd
  have ht' : t < sorted.length := by rw [hs.1]; exact ht
  rw [emit_flatten, slice_flatten _ _ hd t (by simpa using ht')]
  simp [List.getD_eq_getElem?_getD, ht']

/-! ### `_compute_form_ir`: id tuples, 'otherwise', rejection -/

/-- **`expand_ids`** (full).  If `_compute_form_ir` accepts the integrals, then for every integral type `t` the
FormIR lists exactly: each integral of type `t`, once for EVERY id of its sub-domain tuple
('otherwise' ↦ −1), in declaration order — nothing else, nothing under another type. -/
theorem expand_ids (n : Nat) (itgs : List ItgData) (gs : List Group) (h : formIR n itgs = .ok gs) :
    gs.length = n ∧ ∀ t, t < n → gs.getD t [] = expectedGroup itgs t := by
  have := formIRLoop_ok (List.replicate n []) itgs gs h
  simp only [List.length_replicate] at this
  refine ⟨this.1, ?_⟩
  intro t ht
  rw [this.2.1 t ht]
  simp [List.getD_eq_getElem?_getD, ht]

/-- membership form: a triple is listed under `(t, i)` iff it comes from an integral of type `t`
whose tuple contains `i` -/
theorem listed_iff (n : Nat) (itgs : List ItgData) (gs : List Group) (h : formIR n itgs = .ok gs)
    (t : Nat) (ht : t < n) (e : Entry) :
    e ∈ gs.getD t [] ↔
      ∃ d ∈ itgs, d.itype = t ∧ ∃ s ∈ d.subIds, e = ⟨s.toInt, d.name, d.domains⟩ := by
  rw [(expand_ids n itgs gs h).2 t ht]
  simp only [expectedGroup, List.mem_flatMap, List.mem_filter, ItgData.entries, List.mem_map,
    beq_iff_eq]
  constructor
  · rintro ⟨d, ⟨hd, hty⟩, s, hs, rfl⟩
    exact ⟨d, hd, hty, s, hs, rfl⟩
  · rintro ⟨d, hd, hty, s, hs, rfl⟩
    exact ⟨d, ⟨hd, hty⟩, s, hs, rfl⟩

/-- **`formIR_accepts`** (full).  What is accepted: every integral has a known type and every user id
(everything except 'otherwise') is non-negative — as the error message says — and at most 2³¹−1
(the second guard, commit 9a772cd). -/
theorem formIR_accepts (n : Nat) (itgs : List ItgData) (gs : List Group) (h : formIR n itgs = .ok gs) :
    ∀ d ∈ itgs, d.itype < n ∧ ∀ i, SubId.num i ∈ d.subIds → 0 ≤ i ∧ i ≤ 2147483647 := by
  have := (formIRLoop_ok (List.replicate n []) itgs gs h).2.2
  simpa using this

/-- **`formIR_rejects`** (full).  ANY negative user id anywhere (−1 included) makes `_compute_form_ir` fail. -/
theorem formIR_rejects (n : Nat) (pre : List ItgData) (d : ItgData) (post : List ItgData)
    (i : Int) (hs : SubId.num i ∈ d.subIds) (hneg : i < 0) :
    ∀ gs, formIR n (pre ++ d :: post) ≠ .ok gs := by
  intro gs h
  have := ((formIR_accepts n _ gs h d (by simp)).2 i hs).1
  omega

/-- … and the rejection is the ValueError with the documented message when it is the first problem -/
theorem formIR_rejects_message (n : Nat) (d : ItgData) (post : List ItgData)
    (i : Int) (hs : SubId.num i ∈ d.subIds) (hneg : i < 0) :
    formIR n (d :: post) = .error "Integral subdomain IDs must be non-negative." := by
  simp [formIR, formIRLoop, formIRStep_neg _ d i hs hneg]

/-- **`formIR_rejects_large`** (full).  ANY user id above 2³¹−1 anywhere makes `_compute_form_ir` fail
(it would not fit the C `int` array `form_integral_ids`). -/
theorem formIR_rejects_large (n : Nat) (pre : List ItgData) (d : ItgData) (post : List ItgData)
    (i : Int) (hs : SubId.num i ∈ d.subIds) (hbig : 2147483647 < i) :
    ∀ gs, formIR n (pre ++ d :: post) ≠ .ok gs := by
  intro gs h
  have := ((formIR_accepts n _ gs h d (by simp)).2 i hs).2
  omega

/-- … with the second message when it is the first problem (no negative id in the same tuple: the
negative test comes first) -/
theorem formIR_rejects_large_message (n : Nat) (d : ItgData) (post : List ItgData)
    (i : Int) (hs : SubId.num i ∈ d.subIds) (hbig : 2147483647 < i)
    (hnn : ∀ j, SubId.num j ∈ d.subIds → 0 ≤ j) :
    formIR n (d :: post) = .error "Integral subdomain IDs must fit a 32-bit signed integer." := by
  simp [formIR, formIRLoop, formIRStep_large _ d i hs hbig hnn]

/-- **`formIR_ids_in_range`** (full).  Every id `_compute_form_ir` stores in `FormIR.subdomain_ids` — hence
every entry of the C array `int form_integral_ids[]` emitted from it (`emitIds`) — lies in
`[−1, 2³¹−1]`: it is representable in a 32-bit signed `int`, and −1 is the only negative value. -/
theorem formIR_ids_in_range (n : Nat) (itgs : List ItgData) (gs : List Group)
    (h : formIR n itgs = .ok gs) (t : Nat) (ht : t < n) :
    (∀ e ∈ gs.getD t [], -1 ≤ e.id ∧ e.id ≤ 2147483647)
    ∧ (∀ i ∈ emitIds (gs.getD t []), -1 ≤ i ∧ i ≤ 2147483647) := by
  have hent : ∀ e ∈ gs.getD t [], -1 ≤ e.id ∧ e.id ≤ 2147483647 := by
    intro e he
    obtain ⟨d, hd, _, s, hs, rfl⟩ := (listed_iff n itgs gs h t ht e).mp he
    cases s with
    | otherwise => simp [SubId.toInt]
    | num i =>
      have := (formIR_accepts n itgs gs h d hd).2 i hs
      simp only [SubId.toInt]
      omega
  refine ⟨hent, ?_⟩
  intro i hi
  simp only [emitIds, List.mem_flatMap, List.mem_map] at hi
  obtain ⟨e, he, _, _, rfl⟩ := hi
  exact hent e he

/-- **`minus_one_only_otherwise`** (full).  A row listed under id −1 (the slot UFCx consumers integrate over
the whole mesh) always comes from an integral whose sub-domain tuple contains 'otherwise'. -/
theorem minus_one_only_otherwise (n : Nat) (itgs : List ItgData) (gs : List Group)
    (h : formIR n itgs = .ok gs)
    (t : Nat) (ht : t < n) (e : Entry) (he : e ∈ gs.getD t []) (hid : e.id = -1) :
    ∃ d ∈ itgs, d.itype = t ∧ SubId.otherwise ∈ d.subIds ∧ e.name = d.name ∧ e.domains = d.domains := by
  obtain ⟨d, hd, hty, s, hs, rfl⟩ := (listed_iff n itgs gs h t ht e).mp he
  refine ⟨d, hd, hty, ?_, rfl, rfl⟩
  cases s with
  | otherwise => exact hs
  | num i =>
    have := ((formIR_accepts n itgs gs h d hd).2 i hs).1
    simp only [SubId.toInt] at hid
    omega

/-- rows an integral contributes under the explicit id `i`: one per occurrence of the NUMBER `i` in its
tuple ('otherwise' never counts) -/
def explicitRows (i : Int) (d : ItgData) : List Entry :=
  (d.subIds.filter (· = SubId.num i)).map (fun _ => ⟨i, d.name, d.domains⟩)

theorem flatMap_congr' {α β} (l : List α) (f g : α → List β) (h : ∀ a ∈ l, f a = g a) :
    l.flatMap f = l.flatMap g := by
  induction l with
  | nil => rfl
  | cons a l ih =>
    simp only [List.flatMap_cons]
    rw [h a (by simp), ih (fun b hb => h b (by simp [hb]))]

theorem entries_filter_id (i : Int) (hi : 0 ≤ i) (d : ItgData)
    (hd : ∀ j, SubId.num j ∈ d.subIds → 0 ≤ j) :
    d.entries.filter (fun e => decide (e.id = i)) = explicitRows i d := by
  simp only [ItgData.entries, explicitRows]
  generalize hl : d.subIds = l at hd
  clear hl
  induction l with
  | nil => rfl
  | cons s l ih =>
    have ih' := ih (fun j hj => hd j (List.mem_cons_of_mem _ hj))
    cases s with
    | otherwise =>
      have h1 : SubId.otherwise.toInt = -1 := rfl
      have h2 : ¬ ((-1 : Int) = i) := by omega
      have h3 : ¬ (SubId.otherwise = SubId.num i) := by simp
      simp only [List.map_cons, List.filter_cons, h1, h2, h3, decide_false]
      exact ih'
    | num j =>
      have h1 : (SubId.num j).toInt = j := rfl
      by_cases hji : j = i
      · subst hji
        simp only [List.map_cons, List.filter_cons, h1, decide_true, if_true]
        rw [ih']
      · have h3 : ¬ (SubId.num j = SubId.num i) := by simpa using hji
        simp only [List.map_cons, List.filter_cons, h1, hji, h3, decide_false]
        exact ih'

/-- **`otherwise_not_folded`** (full; the `do_append_everywhere_integrals=False` direction).  In an accepted
form, the rows listed under an EXPLICIT id `i ≥ 0` of type `t` are exactly: every integral of type `t`,
once per occurrence of the number `i` in its tuple, in declaration order.  An 'otherwise' (everywhere)
integral is therefore NOT folded into the explicit ids: an integral whose tuple consists of 'otherwise'
only contributes no row under any explicit id, and every row under an explicit id names an integral
that declares that id. -/
theorem otherwise_not_folded (n : Nat) (itgs : List ItgData) (gs : List Group)
    (h : formIR n itgs = .ok gs) (t : Nat) (ht : t < n) (i : Int) (hi : 0 ≤ i) :
    (gs.getD t []).filter (fun e => decide (e.id = i))
        = (itgs.filter (·.itype == t)).flatMap (explicitRows i)
    ∧ (∀ d ∈ itgs, (∀ s ∈ d.subIds, s = SubId.otherwise) → explicitRows i d = [])
    ∧ (∀ e ∈ gs.getD t [], e.id = i →
        ∃ d ∈ itgs, d.itype = t ∧ SubId.num i ∈ d.subIds ∧ e.name = d.name ∧ e.domains = d.domains) := by
  have hacc := formIR_accepts n itgs gs h
  refine ⟨?_, ?_, ?_⟩
  · rw [(expand_ids n itgs gs h).2 t ht]
    simp only [expectedGroup, List.filter_flatMap]
    apply flatMap_congr'
    intro d hd
    have hd' : d ∈ itgs := (List.mem_filter.mp hd).1
    exact entries_filter_id i hi d (fun j hj => ((hacc d hd').2 j hj).1)
  · intro d _ hall
    simp only [explicitRows, List.map_eq_nil_iff, List.filter_eq_nil_iff]
    intro s hs
    rw [hall s hs]
    simp
  · intro e he hid
    obtain ⟨d, hd, hty, s, hs, rfl⟩ := (listed_iff n itgs gs h t ht e).mp he
    refine ⟨d, hd, hty, ?_, rfl, rfl⟩
    cases s with
    | otherwise => simp only [SubId.toInt] at hid; omega
    | num j =>
      simp only [SubId.toInt] at hid
      subst hid
      exact hs

/-- the former witness `u*v*dx(-1)` is now rejected -/
theorem explicit_minus_one_rejected :
    formIR 5 [⟨0, [.num (-1)], "k", [3]⟩] = .error "Integral subdomain IDs must be non-negative." :=
  formIR_rejects_message 5 _ [] (-1) (by simp) (by decide)

/-- the boundary of the second guard: `dx(2³¹−1)` is accepted, `dx(2³¹)` is rejected; a tuple with a
negative AND a too large id gets the first message -/
theorem large_id_boundary :
    formIR 5 [⟨0, [.num 2147483647], "k", [3]⟩] = .ok [[⟨2147483647, "k", [3]⟩], [], [], [], []]
    ∧ formIR 5 [⟨0, [.num 2147483648], "k", [3]⟩]
        = .error "Integral subdomain IDs must fit a 32-bit signed integer."
    ∧ formIR 5 [⟨0, [.num 2147483648, .num (-3)], "k", [3]⟩]
        = .error "Integral subdomain IDs must be non-negative." := by
  refine ⟨rfl, rfl, rfl⟩

/-! ### end to end -/

/-- **`dispatch`** (full).  From UFL's integral data to the C tables: if `_compute_form_ir` accepts the
integrals, then for every integral type `t` and every admissible argsort result the rows
`(id, kernel name, domain tag)` a UFCx consumer visits between `form_integral_offsets[t]` and `[t+1]`
are a permutation (`List.Perm`) of: every integral of type `t`, once per id of its tuple and per
domain cell type.  This is a statement about the (id, name, tag) TRIPLES of the table only — which
kernels are listed under which (type, id), with multiplicities.  It says nothing about what the listed
kernels compute: that applying them one after another ADDS the declared integrands is not a theorem
here; it is property C07 (each kernel accumulates into `A`) plus the summation search of
`harness/props/c06.py` (differential against separately compiled single-integrand forms). -/
theorem dispatch (itgs : List ItgData) (gs : List Group) (πs : List (List Nat))
    (n : Nat) (h : formIR n itgs = .ok gs) (hπ : ArgsortAll πs gs) (t : Nat) (ht : t < n) :
    (slice (intData πs gs).offsets t (emit (List.zipWith sortGroup πs gs).flatten)).Perm
      (emit (expectedGroup itgs t)) := by
  obtain ⟨hl, hg⟩ := expand_ids n itgs gs h
  rw [kernels_of_type πs gs hπ t (by omega)]
  have hp := ((sorted_forall πs gs hπ).2 t (by omega)).1
  rw [hg t ht] at hp
  exact hp.flatMap_right _

/-! ### non-vacuity -/

/-- a non-trivial instance of all hypotheses: repeated ids, a tuple, 'otherwise', three types -/
def demoItgs : List ItgData :=
  [⟨0, [.num 3, .num 1], "a", [3]⟩, ⟨1, [.otherwise], "b", [1]⟩, ⟨0, [.num 1], "c", [3]⟩,
   ⟨0, [.otherwise, .num 7], "d", [3]⟩, ⟨3, [.num 2], "e", [0]⟩]

/-- one admissible argsort result per type for `demoItgs` (type 0 has ids `[3,1,1,-1,7]`) -/
def demoPerms : List (List Nat) := [[3, 1, 2, 0, 4], [0], [], [0], []]

example : ∃ gs, formIR 5 demoItgs = .ok gs ∧ ArgsortAll demoPerms gs
    ∧ (intData demoPerms gs).ids = [-1, 1, 1, 3, 7, -1, 2]
    ∧ (intData demoPerms gs).names = ["d", "a", "c", "a", "d", "b", "e"]
    ∧ (intData demoPerms gs).offsets = [0, 5, 6, 6, 7, 7] :=
  ⟨_, rfl, by decide, by decide, by decide, by decide⟩

/-- `otherwise_not_folded` on `demoItgs`: under the explicit id 1 of type 0 only "a" and "c" are listed — not "d",
whose tuple holds 'otherwise' and 7; the pure 'otherwise' integral "b" contributes no explicit row -/
example : ∃ gs, formIR 5 demoItgs = .ok gs
    ∧ (gs.getD 0 []).filter (fun e => decide (e.id = 1)) = [⟨1, "a", [3]⟩, ⟨1, "c", [3]⟩]
    ∧ explicitRows 1 ⟨1, [.otherwise], "b", [1]⟩ = [] := ⟨_, rfl, by decide, by decide⟩

example : IsArgsort [3, 1, 1, -1] [3, 2, 1, 0] := by
  refine ⟨by decide, by decide⟩

end Ffcx.C06
