/-
C13 — JIT signatures are stable and separating; object names are distinct valid identifiers.

Model: FfcxModel/Jit/Naming.lean (`encode` = the exact string handed to SHA-1, tied to
ffcx/naming.py and ffcx/codegeneration/jit.py by the correspondence run of harness/props/c13.py).
SHA-1 is an uninterpreted function `sha1`; where a theorem needs it, injectivity on the strings
at hand is an explicit hypothesis (trusted base: "SHA-1 taken as injective on the inputs explored").

The evaluation points of an expression enter the string as dtype.str ++ str(shape) ++ the hex SHA-1 of
their bytes (`pointsKey digest`); that inner digest is an uninterpreted parameter too, with the
hypotheses "40 hex characters" and "injective on the explored byte strings `D`" explicit.

Status of the theorems
  join_inj, concat_fixed_inj, tag_inj, reprFlt_inj, options_sorted_inj, options_order_indep,
  encode_objs_tag_inj, encode_inj (non-win32 branch), encode_inj_win32, encode_congr, ident_valid, alias_valid,
  names_distinct_of_keys, key_ne_of_pos_ne, names_distinct, module_positions_distinct,
  formPre_inj, integralPre_inj, expressionPre_inj, expression_names_distinct      full (all inputs of the model)
  names_distinct_counterexample        the premise "positions distinct" of `names_distinct` fails for two
      integration domains with equal (type, subdomain id) — DESIGN §7 F12, a known finding.
  Stability half (the renumbering of naming.py:41-67): FfcxProofs/C13Renumber.lean —
  renumbering_invariant, set_order_irrelevant, signature_stable_across_processes (full),
  geo_set_order_regression (the fixed finding), renumbering_order_counterexample (intended limit).

What `encode_inj` is and is not: it SEPARATES requests up to the pre-hash string (the outer SHA-1 and the
UFL signatures are opaque). `encode_congr` is only the converse congruence (equal ingredients ⇒ equal
string); that counters / creation order / hash seed do not enter the ingredients is the subject of
C13Renumber.lean (expressions; for forms UFL's own `Form.signature()` renumbering is trusted).
-/
import FfcxProofs.Lemmas.Names
import FfcxProofs.C13Renumber

namespace Ffcx.Naming
variable {P : Type}

/-! ## The `;`-join and fixed-width concatenation -/

/-- The `;`-join is injective when the non-final fields contain no `;`. -/
theorem join_inj {xs ys : List Str} {a b : Str} (hl : xs.length = ys.length)
    (hx : ∀ x ∈ xs, ';' ∉ x) (hy : ∀ y ∈ ys, ';' ∉ y)
    (h : joinWith [';'] (xs ++ [a]) = joinWith [';'] (ys ++ [b])) : xs = ys ∧ a = b :=
  joinWith_inj hl hx hy h

example : joinWith [';'] ([cs! "ab", cs! "1.0"] ++ [cs! "x;y"]) = cs! "ab;1.0;x;y" := by decide

/-- A UFL signature: 128 hex characters. -/
def IsSig (s : Str) : Prop := s.length = 128 ∧ ∀ c ∈ s, isHexChar c = true

/-- Concatenation of fixed-length (128-hex) signatures is injective. -/
theorem concat_fixed_inj {xs ys : List Str} (hx : ∀ x ∈ xs, IsSig x) (hy : ∀ y ∈ ys, IsSig y)
    (h : xs.flatten = ys.flatten) : xs = ys :=
  flatten_fixed_inj (n := 128) (by decide) (fun x m => (hx x m).1) (fun y m => (hy y m).1) h

example : IsSig (List.replicate 128 'a') := ⟨by simp, by
  intro c hc; rw [(List.mem_replicate.mp hc).2]; decide⟩

/-! ## Tags -/

/-- Integral / form / expression tag strings are injective in their tuple. -/
theorem tag_inj :
    (∀ p q i j, formTag p i = formTag q j → p = q ∧ i = j) ∧
    (∀ p q t u i j (a b : List Scalar), (∀ v ∈ a, v.Simple) → (∀ v ∈ b, v.Simple) →
      integralTag p t i a = integralTag q u j b → p = q ∧ t = u ∧ i = j ∧ a = b) ∧
    (∀ p q i j, expressionTag p (some i) = expressionTag q (some j) → p = q ∧ i = j) ∧
    (∀ p q, expressionTag p none = expressionTag q none → p = q) := by
  refine ⟨?_, ?_, ?_, fun _ _ h => h⟩
  · intro p q i j h
    have := formTag_prefix p q i j [] [] (by simpa using h)
    exact ⟨this.1, this.2.1⟩
  · intro p q t u i j a b ha hb h
    have := integralTag_prefix p q t u i j a b [] [] ha hb (by simpa using h)
    exact ⟨this.1, this.2.1, this.2.2.1, this.2.2.2.1⟩
  · intro p q i j h
    have h' : formTag p i = formTag q j := h
    have := formTag_prefix p q i j [] [] (by simpa using h')
    exact ⟨this.1, this.2.1⟩

example : expressionTag (cs! "libffcx_expressions_ab") (some 1) = cs! "('libffcx_expressions_ab', 1)" := by decide
example : integralTag (cs! "m") (cs! "cell") 0 [.str (cs! "otherwise")] =
    cs! "('m', 'cell', 0, ('otherwise',))" := by decide
example : integralTag (cs! "m") (cs! "exterior_facet") 1 [.int 1, .int 2] =
    cs! "('m', 'exterior_facet', 1, (1, 2))" := by decide
example : formTag (cs! "it's") (-3) = cs! "(\"it's\", -3)" := by decide

/-! ## Option signature -/

/-- Scalars the theorems speak about: str / int / bool / None, and floats given by their shortest
round-trip digits in normal form (no opaque objects). -/
abbrev Scalar.WF : Scalar → Prop := Scalar.OK Flt.Norm

/-- `str(sorted(options.items()))` determines the option dict: equal signatures ⇒ the same items
(python repr model for str / int / bool / None / float values). -/
theorem options_sorted_inj {o₁ o₂ : Options}
    (h₁ : ∀ kv ∈ o₁, kv.2.WF) (h₂ : ∀ kv ∈ o₂, kv.2.WF)
    (h : optionSignature o₁ = optionSignature o₂) : o₁.Perm o₂ := by
  have := (optionSignature_prefix reprFlt_inj o₁ o₂ [] [] h₁ h₂ (by simpa using h)).1
  exact (sortItems_perm o₁).symm.trans (this ▸ sortItems_perm o₂)

/-- …and conversely the signature does not depend on the order in which the dict was filled. -/
theorem options_order_indep {o₁ o₂ : Options} (hp : o₁.Perm o₂) (hn : (o₁.map (·.1)).Nodup) :
    optionSignature o₁ = optionSignature o₂ := by
  unfold optionSignature
  rw [sortItems_of_perm hp hn]

/-- The default option dict of this tree as the model sees it (values as in FFCX_DEFAULT_OPTIONS). -/
def sampleOptions : Options :=
  [(cs! "language", .str (cs! "C")), (cs! "epsilon", .float (.fin false [1] (-13))),
   (cs! "scalar_type", .str (cs! "float64")), (cs! "sum_factorization", .bool false),
   (cs! "table_rtol", .float (.fin false [1] (-5))), (cs! "verbosity", .int 30)]

example : optionSignature sampleOptions =
    cs! "[('epsilon', 1e-14), ('language', 'C'), ('scalar_type', 'float64'), ('sum_factorization', False), ('table_rtol', 1e-06), ('verbosity', 30)]" := by
  decide

example : ∀ kv ∈ sampleOptions, kv.2.WF := by
  intro kv h
  simp only [sampleOptions, List.mem_cons, List.not_mem_nil, or_false] at h
  rcases h with rfl | rfl | rfl | rfl | rfl | rfl <;> simp [Scalar.OK, Flt.Norm]

/-- `1e-14` and `1e-06` are printed from the normal forms 0.1·10⁻¹³ and 0.1·10⁻⁵. -/
example : reprFlt (.fin false [1] (-13)) = cs! "1e-14" ∧ reprFlt (.fin false [1] (-5)) = cs! "1e-06" ∧
    reprFlt (.fin true [1, 2, 5] 2) = cs! "-12.5" ∧ reprFlt (.fin false [1] 17) = cs! "1e+16" ∧
    reprFlt (.fin false [1] 16) = cs! "1000000000000000.0" := by decide

/-! ## The pre-hash string -/

/-- Signatures are 128 hex characters; the points of expressions satisfy `S`. -/
def Objs.WF (S : P → Prop) : Objs P → Prop
  | .forms sigs => ∀ s ∈ sigs, IsSig s
  | .exprs es => ∀ e ∈ es, IsSig e.1 ∧ S e.2

def Env.WF (env : Env) : Prop := ';' ∉ env.version ∧ ';' ∉ env.ufcxHash

theorem not_semi_of_hex {c : Char} (h : isHexChar c = true) : c ≠ ';' := by
  rintro rfl; revert h; decide

theorem objectSignature_no_semi {S : P → Prop} {reprP : P → Str} (hsemi : ∀ p, S p → ';' ∉ reprP p)
    {o : Objs P} (h : o.WF S) : ';' ∉ objectSignature reprP o := by
  intro hm
  cases o with
  | forms sigs =>
    simp only [objectSignature, List.mem_flatten] at hm
    obtain ⟨s, hs, hc⟩ := hm
    exact not_semi_of_hex ((h s hs).2 _ hc) rfl
  | exprs es =>
    simp only [objectSignature, List.mem_flatten, List.mem_map] at hm
    obtain ⟨_, ⟨e, he, rfl⟩, hc⟩ := hm
    rcases List.mem_append.mp hc with hc | hc
    · exact not_semi_of_hex ((h e he).1.2 _ hc) rfl
    · exact hsemi _ (h e he).2 hc

/-- `compute_signature` separates object lists and tags, provided the text standing for the points
can be read back (`PrefixCodeOn S`) and has no `;`. -/
theorem encode_objs_tag_inj {S : P → Prop} {reprP : P → Str} (hP : PrefixCodeOn S reprP)
    (hsemi : ∀ p, S p → ';' ∉ reprP p)
    {env : Env} (henv : env.WF) {o₁ o₂ : Objs P} (h₁ : o₁.WF S) (h₂ : o₂.WF S) {t₁ t₂ s : Str}
    (e₁ : encode reprP env o₁ t₁ = some s) (e₂ : encode reprP env o₂ t₂ = some s) :
    o₁ = o₂ ∧ t₁ = t₂ := by
  unfold encode at e₁ e₂
  cases hk₁ : kindOf o₁ with
  | none => simp [hk₁] at e₁
  | some k₁ =>
  cases hk₂ : kindOf o₂ with
  | none => simp [hk₂] at e₂
  | some k₂ =>
  simp only [hk₁, hk₂, Option.map_some, Option.some.injEq] at e₁ e₂
  have e := e₁.trans e₂.symm
  have nk : ∀ {o : Objs P} {k}, kindOf o = some k → ';' ∉ k := by
    intro o k hk
    cases o with
    | forms l => cases l <;> simp [kindOf] at hk; subst hk; decide
    | exprs l => cases l <;> simp [kindOf] at hk; subst hk; decide
  have hj := join_inj (xs := [objectSignature reprP o₁, env.version, env.ufcxHash, k₁])
    (ys := [objectSignature reprP o₂, env.version, env.ufcxHash, k₂]) (a := t₁) (b := t₂) rfl
    (by
      intro x hx
      simp only [List.mem_cons, List.not_mem_nil, or_false] at hx
      rcases hx with rfl | rfl | rfl | rfl
      · exact objectSignature_no_semi hsemi h₁
      · exact henv.1
      · exact henv.2
      · exact nk hk₁)
    (by
      intro x hx
      simp only [List.mem_cons, List.not_mem_nil, or_false] at hx
      rcases hx with rfl | rfl | rfl | rfl
      · exact objectSignature_no_semi hsemi h₂
      · exact henv.1
      · exact henv.2
      · exact nk hk₂)
    (by simpa using e)
  obtain ⟨hl, ht⟩ := hj
  simp only [List.cons.injEq, and_true, true_and] at hl
  obtain ⟨hos, hkk⟩ := hl
  refine ⟨?_, ht⟩
  cases o₁ with
  | forms l₁ =>
    cases o₂ with
    | forms l₂ =>
      simp only [objectSignature] at hos
      rw [concat_fixed_inj h₁ h₂ hos]
    | exprs l₂ =>
      exfalso
      cases l₁ <;> cases l₂ <;> simp [kindOf] at hk₁ hk₂
      subst hk₁ hk₂
      revert hkk; decide
  | exprs l₁ =>
    cases o₂ with
    | forms l₂ =>
      exfalso
      cases l₁ <;> cases l₂ <;> simp [kindOf] at hk₁ hk₂
      subst hk₁ hk₂
      revert hkk; decide
    | exprs l₂ =>
      simp only [objectSignature] at hos
      rw [flatten_sig_payload_inj hP (n := 128) (by decide) (fun e m => (h₁ e m).1.1)
        (fun e m => (h₂ e m).1.1) (fun e m => (h₁ e m).2) (fun e m => (h₂ e m).2) hos]

section EncodeInj
variable {B : Type} (digest : B → Str) {D : B → Prop}

/-- FULL for the model, with two limits that are part of the statement:
(1) it is about the NON-win32 branch of `_compilation_signature` (`encode_inj_win32` is the other branch);
(2) it stops at the PRE-HASH STRING: the conclusion is about the string handed to the outer SHA-1, and the UFL
signatures inside it are opaque 128-hex inputs — "never share a module name" follows only as far as SHA-1
separates the explored strings and UFL signatures separate the integrands.
Equal pre-hash strings of two JIT requests ⇒ equal signatures, equal evaluation points
(dtype, shape and bytes), equal options, equal extra compile arguments, equal debug flag, equal
CFLAGS+SOABI text.
Explicit hypotheses about the inner digest of the point bytes (SHA-1 in the code): it yields 40 hex
characters and is injective on the explored byte strings `D`. -/
theorem encode_inj (hlen : ∀ b, (digest b).length = 40)
    (hhex : ∀ b, ∀ c ∈ digest b, isHexChar c = true)
    (hinj : ∀ a b, D a → D b → digest a = digest b → a = b)
    {env : Env} (henv : env.WF) {r₁ r₂ : Request (Pts B)}
    (h₁ : r₁.objs.WF (Pts.OK D)) (h₂ : r₂.objs.WF (Pts.OK D))
    (ho₁ : ∀ kv ∈ r₁.options, kv.2.WF) (ho₂ : ∀ kv ∈ r₂.options, kv.2.WF)
    {b₁ b₂ : Bool} (hd₁ : r₁.compile.debug = .bool b₁) (hd₂ : r₂.compile.debug = .bool b₂)
    {s : Str} (e₁ : encodeRequest (pointsKey digest) env r₁ = some s)
    (e₂ : encodeRequest (pointsKey digest) env r₂ = some s) :
    r₁.objs = r₂.objs ∧ r₁.options.Perm r₂.options ∧
    r₁.compile.extraArgs = r₂.compile.extraArgs ∧ r₁.compile.debug = r₂.compile.debug ∧
    strScalar r₁.compile.cflags ++ strScalar r₁.compile.soabi =
      strScalar r₂.compile.cflags ++ strScalar r₂.compile.soabi := by
  obtain ⟨ho, ht⟩ := encode_objs_tag_inj (pointsKey_prefix digest hlen hinj)
    (fun p hp => pointsKey_no_semi digest hhex p hp) henv h₁ h₂ e₁ e₂
  unfold moduleTag at ht
  obtain ⟨hs, hc⟩ := optionSignature_prefix reprFlt_inj _ _ _ _ ho₁ ho₂ ht
  unfold compilationSignature at hc
  simp only [List.append_assoc] at hc
  obtain ⟨ha, hr⟩ := argsRepr_prefix _ _ _ _ hc
  rw [hd₁, hd₂] at hr
  obtain ⟨hb, hr'⟩ := strBool_prefix _ _ _ _ hr
  refine ⟨ho, ?_, ha, by rw [hd₁, hd₂, hb], hr'⟩
  exact (sortItems_perm _).symm.trans (hs ▸ sortItems_perm _)

/-- The win32 branch is the other branch read through `CompileArgs.win32`. -/
theorem compilationSignature_win32 (a : List Str) (d e : Scalar) :
    compilationSignature (CompileArgs.win32 a d e) = compilationSignatureWin32 a d e := by
  simp [compilationSignature, compilationSignatureWin32, CompileArgs.win32, strScalar]

/-- `encode_inj` for the win32 branch of `_compilation_signature` (EXT_SUFFIX instead of CFLAGS + SOABI):
same hypotheses, same limits; the last conjunct is about the `str(EXT_SUFFIX)` text. -/
theorem encode_inj_win32 (hlen : ∀ b, (digest b).length = 40)
    (hhex : ∀ b, ∀ c ∈ digest b, isHexChar c = true)
    (hinj : ∀ a b, D a → D b → digest a = digest b → a = b)
    {env : Env} (henv : env.WF) {o₁ o₂ : Objs (Pts B)} {p₁ p₂ : Options} {a₁ a₂ : List Str}
    {b₁ b₂ : Bool} {x₁ x₂ : Scalar}
    (h₁ : o₁.WF (Pts.OK D)) (h₂ : o₂.WF (Pts.OK D))
    (ho₁ : ∀ kv ∈ p₁, kv.2.WF) (ho₂ : ∀ kv ∈ p₂, kv.2.WF) {s : Str}
    (e₁ : encode (pointsKey digest) env o₁
      (optionSignature p₁ ++ compilationSignatureWin32 a₁ (.bool b₁) x₁) = some s)
    (e₂ : encode (pointsKey digest) env o₂
      (optionSignature p₂ ++ compilationSignatureWin32 a₂ (.bool b₂) x₂) = some s) :
    o₁ = o₂ ∧ p₁.Perm p₂ ∧ a₁ = a₂ ∧ b₁ = b₂ ∧ strScalar x₁ = strScalar x₂ := by
  rw [← compilationSignature_win32] at e₁ e₂
  have := encode_inj digest hlen hhex hinj henv
    (r₁ := ⟨o₁, p₁, CompileArgs.win32 a₁ (.bool b₁) x₁⟩) (r₂ := ⟨o₂, p₂, CompileArgs.win32 a₂ (.bool b₂) x₂⟩)
    h₁ h₂ ho₁ ho₂ rfl rfl e₁ e₂
  obtain ⟨g1, g2, g3, g4, g5⟩ := this
  refine ⟨g1, g2, g3, ?_, ?_⟩
  · simpa [CompileArgs.win32] using g4
  · simpa [CompileArgs.win32, strScalar] using g5

end EncodeInj

/-- CONGRUENCE only (formerly `encode_stable`): the pre-hash string is a function of the signatures, the
point values, the option *set* and the compile arguments — equal ingredients give the equal string, and the
order in which the option dict was filled does not matter. This says nothing about whether counters,
creation order or the hash seed enter the ingredients (the signatures): that is
`signature_stable_across_processes` in C13Renumber.lean. -/
theorem encode_congr {reprP : P → Str} {env : Env} {r₁ r₂ : Request P} (ho : r₁.objs = r₂.objs)
    (hp : r₁.options.Perm r₂.options) (hn : (r₁.options.map (·.1)).Nodup)
    (hc : r₁.compile = r₂.compile) : encodeRequest reprP env r₁ = encodeRequest reprP env r₂ := by
  unfold encodeRequest moduleTag
  rw [ho, hc, options_order_indep hp hn]

/-! ### Non-vacuity of `encode_inj` -/

/-- A toy digest with the required shape (40 hex characters), injective on `D = {[1], [2]}`. -/
def toyDigest (b : List Nat) : Str :=
  List.replicate 39 'a' ++ [if b = [1] then 'b' else 'c']

example : (∀ b, (toyDigest b).length = 40) ∧ (∀ b, ∀ c ∈ toyDigest b, isHexChar c = true) ∧
    (∀ a b, (a = [1] ∨ a = [2]) → (b = [1] ∨ b = [2]) → toyDigest a = toyDigest b → a = b) ∧
    Env.WF ⟨cs! "0.11.0.dev0", cs! "79f1a657d2b8defd18bec429a24080d2534220eb"⟩ ∧
    Objs.WF (Pts.OK (fun a => a = [1] ∨ a = [2]))
      (Objs.exprs [(List.replicate 128 'a', (⟨cs! "<f8", [2, 2], [1]⟩ : Pts (List Nat)))]) ∧
    (∀ kv ∈ sampleOptions, kv.2.WF) := by
  refine ⟨fun b => by simp [toyDigest], ?_, ?_, ⟨by decide, by decide⟩, ?_, ?_⟩
  · intro b c hc
    simp only [toyDigest, List.mem_append, List.mem_cons, List.not_mem_nil, or_false] at hc
    rcases hc with hc | hc
    · rw [(List.mem_replicate.mp hc).2]; decide
    · subst hc; split <;> decide
  · rintro a b (rfl | rfl) (rfl | rfl) h <;> first | rfl | (revert h; decide)
  · intro e he
    simp only [List.mem_cons, List.not_mem_nil, or_false] at he
    subst he
    exact ⟨⟨by simp, fun c hc => by rw [(List.mem_replicate.mp hc).2]; decide⟩, by decide, by decide, Or.inl rfl⟩
  · intro kv h
    simp only [sampleOptions, List.mem_cons, List.not_mem_nil, or_false] at h
    rcases h with rfl | rfl | rfl | rfl | rfl | rfl <;> simp [Scalar.OK, Flt.Norm]

example : pointsKey toyDigest ⟨cs! "<f8", [501, 2], [1]⟩ =
    cs! "<f8(501, 2)" ++ List.replicate 39 'a' ++ ['b'] := by decide
example : shapeRepr [3] = cs! "(3,)" ∧ shapeRepr [] = cs! "()" := by decide

example : compilationSignatureWin32 [cs! "-O2"] (.bool false) (.str (cs! ".cp312-win_amd64.pyd")) =
    cs! "['-O2']False.cp312-win_amd64.pyd" := by decide

example : encodeRequest (pointsKey toyDigest) ⟨cs! "0.1", cs! "ab"⟩
    ⟨.exprs [(cs! "f00d", ⟨cs! "<f8", [1, 2], [2]⟩)], [(cs! "k", .int 1)],
      ⟨[cs! "-O2"], .bool false, .str (cs! "-g"), .none⟩⟩ =
    some (cs! "f00d<f8(1, 2)" ++ List.replicate 39 'a' ++ cs! "c;0.1;ab;expression;[('k', 1)]['-O2']False-gNone") := by
  decide

/-! ## Identifiers -/

section Ident
variable (sha1 : Str → Str) (reprP : P → Str) (env : Env)

/-- Every generated name matches `[A-Za-z_][A-Za-z0-9_]*` (SHA-1 hex digests are hex; cell names
are basix `CellType` names, i.e. identifier characters). -/
theorem ident_valid (hsha : ∀ s, (sha1 s).all isHexChar = true) (sig pre itype : Str) (i : Int)
    (sub : List Scalar) (cell : Str) (p : P) (r : Request P) (hcell : cell.all isIdentChar = true) :
    validIdent (formName sha1 env sig pre i) = true ∧
    validIdent (integralFactoryName sha1 env sig pre itype i sub cell) = true ∧
    (∀ id, validIdent (expressionName sha1 reprP env sig p pre id) = true) ∧
    (∀ m, moduleName sha1 reprP env r = some m → validIdent m = true) := by
  have hid : ∀ s, (sha1 s).all isIdentChar = true := by
    intro s
    have := hsha s
    simp only [List.all_eq_true] at this ⊢
    exact fun c hc => isIdent_of_hex (this c hc)
  refine ⟨validIdent_append (by decide) (hid _), ?_, fun _ => validIdent_append (by decide) (hid _), ?_⟩
  · unfold integralFactoryName integralName
    rw [List.append_assoc]
    refine validIdent_append (by decide) (all_ident_append (hid _) ?_)
    simp only [List.all_cons, Bool.and_eq_true]
    exact ⟨by decide, hcell⟩
  · intro m hm
    unfold moduleName at hm
    cases he : encodeRequest reprP env r with
    | none => simp [he] at hm
    | some pre' =>
      simp only [he, Option.map_some, Option.some.injEq] at hm
      subst hm
      split
      · exact validIdent_append (by decide) (hid _)
      · exact validIdent_append (by decide) (hid _)

/-- `form_{prefix}_{name}` is a valid identifier when prefix and name consist of identifier
characters (the CLI sanitises the prefix: C20 `sanitise_ident`; names are Python identifiers or the
decimal index). -/
theorem alias_valid (kind pre name : Str) (hk : validIdent kind = true)
    (hp : pre.all isIdentChar = true) (hn : name.all isIdentChar = true) :
    validIdent (aliasName kind pre name) = true := by
  unfold aliasName
  refine validIdent_append hk ?_
  simp only [List.all_cons, List.all_append, Bool.and_eq_true]
  exact ⟨by decide, hp, by decide, hn⟩

example : aliasName (cs! "form") (cs! "poisson") (cs! "a") = cs! "form_poisson_a" := by decide
example : validIdent (cs! "form_poisson_a") = true := by decide
example : validIdent (cs! "9lives") = false := by decide

/-! ## Distinct names inside one module -/

/-- The objects a module defines (JIT: `pre` = the module name). -/
inductive GenObj (P : Type) where
  | form (sig : Str) (formId : Int)
  | integral (sig : Str) (formId : Int) (d : IntegralData) (cell : Str)
  | expression (sig : Str) (p : P) (id : Int)

variable (pre : Str)

/-- The string whose SHA-1 names the object. -/
def GenObj.prehash : GenObj P → Str
  | .form sig i => formPre env sig pre i
  | .integral sig i d _ => integralPre env sig pre d.itype i d.sub
  | .expression sig p id => expressionPre reprP env sig p pre (some id)

def GenObj.name : GenObj P → Str
  | .form sig i => formName sha1 env sig pre i
  | .integral sig i d cell => integralFactoryName sha1 env sig pre d.itype i d.sub cell
  | .expression sig p id => expressionName sha1 reprP env sig p pre (some id)

/-- What must differ between two objects: the kind, the hashed string, or the cell suffix. -/
def GenObj.key : GenObj P → Nat × Str × Str
  | o@(.form ..) => (0, o.prehash reprP env pre, [])
  | o@(.integral _ _ _ cell) => (1, o.prehash reprP env pre, cell)
  | o@(.expression ..) => (2, o.prehash reprP env pre, [])

/-- Where the code puts an object in its module (kind, index, integral type, subdomain ids, cell) — no
signature in it. -/
def GenObj.pos : GenObj P → Nat × Int × Str × List Scalar × Str
  | .form _ i => (0, i, [], [], [])
  | .integral _ i d cell => (1, i, d.itype, d.sub, cell)
  | .expression _ _ id => (2, id, [], [], [])

/-- Side conditions under which the hashed strings can be read back: no `;` in the signature text (hex
digests), subdomain ids are ints / "otherwise". -/
def GenObj.OK : GenObj P → Prop
  | .form sig _ => ';' ∉ sig
  | .integral sig _ d _ => ';' ∉ sig ∧ ∀ v ∈ d.sub, v.Simple
  | .expression sig p _ => ';' ∉ sig ++ reprP p

/-- The step from keys to names (formerly called `names_distinct`; its premise `hkeys` is close to the
conclusion — `names_distinct` below derives it from the POSITIONS the code assigns): within one module all
object names are distinct, provided SHA-1 is injective on the hashed strings of the module and the keys
(kind, hashed string, cell) are distinct. -/
theorem names_distinct_of_keys (hlen : ∀ s, (sha1 s).length = 40) (objs : List (GenObj P))
    (hinj : ∀ a ∈ objs, ∀ b ∈ objs, sha1 (a.prehash reprP env pre) = sha1 (b.prehash reprP env pre) →
      a.prehash reprP env pre = b.prehash reprP env pre)
    (hkeys : objs.Pairwise (fun a b => a.key reprP env pre ≠ b.key reprP env pre)) :
    (objs.map (GenObj.name sha1 reprP env pre)).Nodup := by
  unfold List.Nodup
  rw [List.pairwise_map]
  refine List.Pairwise.imp_of_mem ?_ hkeys
  intro a b ha hb hk hn
  apply hk
  have hab := hinj a ha b hb
  cases a with
  | form s i =>
    cases b with
    | form s' i' =>
      simp only [GenObj.name, formName, List.cons_append, List.nil_append, List.cons.injEq,
        true_and] at hn
      simp only [GenObj.key, Prod.mk.injEq, and_true, true_and]
      exact hab hn
    | integral s' i' d' c' => simp [GenObj.name, formName, integralFactoryName, integralName] at hn
    | expression s' p' k' => simp [GenObj.name, formName, expressionName] at hn
  | integral s i d c =>
    cases b with
    | form s' i' => simp [GenObj.name, formName, integralFactoryName, integralName] at hn
    | integral s' i' d' c' =>
      simp only [GenObj.name, integralFactoryName, integralName, List.cons_append, List.nil_append,
        List.cons.injEq, true_and] at hn
      obtain ⟨h1, h2⟩ := List.append_inj hn (by rw [hlen, hlen])
      simp only [List.cons.injEq, true_and] at h2
      simp only [GenObj.key, Prod.mk.injEq, true_and]
      exact ⟨hab h1, h2⟩
    | expression s' p' k' =>
      simp [GenObj.name, expressionName, integralFactoryName, integralName] at hn
  | expression s p k =>
    cases b with
    | form s' i' => simp [GenObj.name, formName, expressionName] at hn
    | integral s' i' d' c' =>
      simp [GenObj.name, expressionName, integralFactoryName, integralName] at hn
    | expression s' p' k' =>
      simp only [GenObj.name, expressionName, List.cons_append, List.nil_append, List.cons.injEq,
        true_and] at hn
      simp only [GenObj.key, Prod.mk.injEq, and_true, true_and]
      exact hab hn

/-- Non-vacuity of `names_distinct_of_keys`: a toy "hash" (the last 40 characters) that is injective on
the three hashed strings of a module with two forms and one integral. -/
example :
    let sha : Str → Str := fun s => (s.reverse.take 40).reverse.map (fun c => if isHexChar c then c else 'a')
    let e : Env := ⟨cs! "0.1", cs! "ab"⟩
    let objs : List (GenObj Unit) :=
      [.form (cs! "aa") 0, .form (cs! "bb") 1, .integral (cs! "aa") 0 ⟨cs! "cell", [.int 1], 0⟩ (cs! "triangle")]
    (∀ a ∈ objs, ∀ b ∈ objs, sha (a.prehash (fun _ => []) e (cs! "m")) = sha (b.prehash (fun _ => []) e (cs! "m")) →
      a.prehash (fun _ => []) e (cs! "m") = b.prehash (fun _ => []) e (cs! "m")) ∧
    objs.Pairwise (fun a b => a.key (fun _ => []) e (cs! "m") ≠ b.key (fun _ => []) e (cs! "m")) ∧
    (objs.map (GenObj.name sha (fun _ => []) e (cs! "m"))).Nodup := by
  decide +kernel

end Ident

/-- The hashed strings of two integrals are equal only if signature and the whole tag tuple are:
the key premise of `names_distinct` reduces to "one tag per generated object". -/
theorem integralPre_inj_of_no_semi {env : Env} (henv : env.WF) {s₁ s₂ p₁ p₂ t₁ t₂ : Str} {i₁ i₂ : Int}
    {a₁ a₂ : List Scalar} (hs₁ : ';' ∉ s₁) (hs₂ : ';' ∉ s₂) (ha₁ : ∀ v ∈ a₁, v.Simple)
    (ha₂ : ∀ v ∈ a₂, v.Simple)
    (h : integralPre env s₁ p₁ t₁ i₁ a₁ = integralPre env s₂ p₂ t₂ i₂ a₂) :
    s₁ = s₂ ∧ p₁ = p₂ ∧ t₁ = t₂ ∧ i₁ = i₂ ∧ a₁ = a₂ := by
  unfold integralPre at h
  have ns : ∀ {s : Str}, ';' ∉ s → ';' ∉ s := fun hs => hs
  obtain ⟨hl, ht⟩ := join_inj (xs := [s₁, env.version, env.ufcxHash, cs! "form"])
    (ys := [s₂, env.version, env.ufcxHash, cs! "form"]) rfl
    (by
      intro x hx
      simp only [List.mem_cons, List.not_mem_nil, or_false] at hx
      rcases hx with rfl | rfl | rfl | rfl
      · exact ns hs₁
      · exact henv.1
      · exact henv.2
      · decide)
    (by
      intro x hx
      simp only [List.mem_cons, List.not_mem_nil, or_false] at hx
      rcases hx with rfl | rfl | rfl | rfl
      · exact ns hs₂
      · exact henv.1
      · exact henv.2
      · decide)
    (by simpa using h)
  simp only [List.cons.injEq, and_true] at hl
  obtain ⟨h1, h2, h3, h4⟩ := tag_inj.2.1 _ _ _ _ _ _ _ _ ha₁ ha₂ ht
  exact ⟨hl, h1, h2, h3, h4⟩

theorem integralPre_inj {env : Env} (henv : env.WF) {s₁ s₂ p₁ p₂ t₁ t₂ : Str} {i₁ i₂ : Int}
    {a₁ a₂ : List Scalar} (hs₁ : IsSig s₁) (hs₂ : IsSig s₂) (ha₁ : ∀ v ∈ a₁, v.Simple)
    (ha₂ : ∀ v ∈ a₂, v.Simple)
    (h : integralPre env s₁ p₁ t₁ i₁ a₁ = integralPre env s₂ p₂ t₂ i₂ a₂) :
    s₁ = s₂ ∧ p₁ = p₂ ∧ t₁ = t₂ ∧ i₁ = i₂ ∧ a₁ = a₂ :=
  integralPre_inj_of_no_semi henv (fun hm => not_semi_of_hex (hs₁.2 _ hm) rfl)
    (fun hm => not_semi_of_hex (hs₂.2 _ hm) rfl) ha₁ ha₂ h

/-- The hashed strings of two forms of a module are equal only if signature, prefix and position are. -/
theorem formPre_inj {env : Env} (henv : env.WF) {s₁ s₂ p₁ p₂ : Str} {i₁ i₂ : Int}
    (hs₁ : ';' ∉ s₁) (hs₂ : ';' ∉ s₂) (h : formPre env s₁ p₁ i₁ = formPre env s₂ p₂ i₂) :
    s₁ = s₂ ∧ p₁ = p₂ ∧ i₁ = i₂ := by
  unfold formPre at h
  obtain ⟨hl, ht⟩ := join_inj (xs := [s₁, env.version, env.ufcxHash, cs! "form"])
    (ys := [s₂, env.version, env.ufcxHash, cs! "form"]) rfl
    (by
      intro x hx
      simp only [List.mem_cons, List.not_mem_nil, or_false] at hx
      rcases hx with rfl | rfl | rfl | rfl
      · exact hs₁
      · exact henv.1
      · exact henv.2
      · decide)
    (by
      intro x hx
      simp only [List.mem_cons, List.not_mem_nil, or_false] at hx
      rcases hx with rfl | rfl | rfl | rfl
      · exact hs₂
      · exact henv.1
      · exact henv.2
      · decide)
    (by simpa using h)
  simp only [List.cons.injEq, and_true] at hl
  obtain ⟨h1, h2⟩ := tag_inj.1 _ _ _ _ ht
  exact ⟨hl, h1, h2⟩

/-- F12: `compute_ir` names an integral from (form, type, form id, subdomain ids) only. Two integral
data of one form that differ only in their integration domain get the same tag, hence the same
name whatever SHA-1 does: the list of names is not duplicate free. -/
theorem names_distinct_counterexample (sha1 : Str → Str) (env : Env) (sig pre : Str) :
    let d₁ : IntegralData := ⟨cs! "cell", [.str (cs! "otherwise")], 0⟩
    let d₂ : IntegralData := ⟨cs! "cell", [.str (cs! "otherwise")], 1⟩
    d₁ ≠ d₂ ∧
    (GenObj.integral (P := Unit) sig 0 d₁ (cs! "triangle")).pos =
      (GenObj.integral (P := Unit) sig 0 d₂ (cs! "triangle")).pos ∧
    ¬ ([GenObj.integral (P := Unit) sig 0 d₁ (cs! "triangle"),
        GenObj.integral sig 0 d₂ (cs! "triangle")].map
          (GenObj.name sha1 (fun _ => []) env pre)).Nodup := by
  refine ⟨by decide, rfl, ?_⟩
  simp [GenObj.name]

/-- The hashed strings of two expressions of a module are equal only if signature+points text,
prefix and position are. -/
theorem expressionPre_inj {reprP : P → Str} {env : Env} (henv : env.WF) {s₁ s₂ pre₁ pre₂ : Str}
    {p₁ p₂ : P} {i j : Int} (n₁ : ';' ∉ s₁ ++ reprP p₁) (n₂ : ';' ∉ s₂ ++ reprP p₂)
    (h : expressionPre reprP env s₁ p₁ pre₁ (some i) = expressionPre reprP env s₂ p₂ pre₂ (some j)) :
    s₁ ++ reprP p₁ = s₂ ++ reprP p₂ ∧ pre₁ = pre₂ ∧ i = j := by
  unfold expressionPre at h
  obtain ⟨hl, ht⟩ := join_inj (xs := [s₁ ++ reprP p₁, env.version, env.ufcxHash, cs! "expression"])
    (ys := [s₂ ++ reprP p₂, env.version, env.ufcxHash, cs! "expression"]) rfl
    (by
      intro x hx
      simp only [List.mem_cons, List.not_mem_nil, or_false] at hx
      rcases hx with rfl | rfl | rfl | rfl
      · exact n₁
      · exact henv.1
      · exact henv.2
      · decide)
    (by
      intro x hx
      simp only [List.mem_cons, List.not_mem_nil, or_false] at hx
      rcases hx with rfl | rfl | rfl | rfl
      · exact n₂
      · exact henv.1
      · exact henv.2
      · decide)
    (by simpa using h)
  simp only [List.cons.injEq, and_true] at hl
  obtain ⟨h1, h2⟩ := tag_inj.2.2.1 _ _ _ _ ht
  exact ⟨hl, h1, h2⟩

/-- FULL (replaces the former counterexample): expressions at different positions of one module
have different keys — even the same (expression, points) listed twice — so `names_distinct`
applies to every expression module. -/
theorem expression_names_distinct {reprP : P → Str} {env : Env} (henv : env.WF) (pre : Str)
    {s₁ s₂ : Str} {p₁ p₂ : P} {i j : Int} (n₁ : ';' ∉ s₁ ++ reprP p₁) (n₂ : ';' ∉ s₂ ++ reprP p₂)
    (hij : i ≠ j) :
    (GenObj.expression s₁ p₁ i).key reprP env pre ≠ (GenObj.expression s₂ p₂ j).key reprP env pre := by
  intro h
  simp only [GenObj.key, GenObj.prehash, Prod.mk.injEq, and_true, true_and] at h
  exact hij (expressionPre_inj henv n₁ n₂ h).2.2

/-! ## From positions to names

What the code establishes about the objects of one module is WHERE they sit, not what their signatures are:
`jit.compile_forms` / `compile_expressions` / `compute_ir` tag the i-th form with `(prefix, i)`, the i-th
expression with `(prefix, i)`, and an integral with `(prefix, type, form id, subdomain ids)` + the cell suffix.
`names_distinct` derives distinct names from distinct positions, whatever the signatures (equal forms listed
twice included); that the integrals of one form have distinct `(type, subdomain ids, cell)` is UFL's
`build_integral_data` grouping — true for one integration domain, false for two (F12, counterexample above). -/

/-- Objects at different positions of a module have different keys (kind, hashed string, cell). -/
theorem key_ne_of_pos_ne {reprP : P → Str} {env : Env} (henv : env.WF) (pre : Str) {a b : GenObj P}
    (ha : a.OK reprP) (hb : b.OK reprP) (hp : a.pos ≠ b.pos) :
    a.key reprP env pre ≠ b.key reprP env pre := by
  intro h
  apply hp
  cases a with
  | form s i =>
    cases b with
    | form s' i' =>
      simp only [GenObj.key, GenObj.prehash, Prod.mk.injEq, and_true, true_and] at h
      simp only [GenObj.pos, (formPre_inj henv ha hb h).2.2]
    | integral s' i' d' c' => simp [GenObj.key] at h
    | expression s' p' k' => simp [GenObj.key] at h
  | integral s i d c =>
    cases b with
    | form s' i' => simp [GenObj.key] at h
    | integral s' i' d' c' =>
      simp only [GenObj.key, GenObj.prehash, Prod.mk.injEq, true_and] at h
      obtain ⟨_, _, h3, h4, h5⟩ := integralPre_inj_of_no_semi henv ha.1 hb.1 ha.2 hb.2 h.1
      simp only [GenObj.pos, h3, h4, h5, h.2]
    | expression s' p' k' => simp [GenObj.key] at h
  | expression s p k =>
    cases b with
    | form s' i' => simp [GenObj.key] at h
    | integral s' i' d' c' => simp [GenObj.key] at h
    | expression s' p' k' =>
      simp only [GenObj.key, GenObj.prehash, Prod.mk.injEq, and_true, true_and] at h
      simp only [GenObj.pos, (expressionPre_inj henv ha hb h).2.2]

/-- Within one module all object names are distinct, provided SHA-1 is injective on the hashed strings of
the module and the objects sit at pairwise different POSITIONS (kind, index, integral type, subdomain ids,
cell) — the signatures play no role. -/
theorem names_distinct (sha1 : Str → Str) {reprP : P → Str} {env : Env} (henv : env.WF) (pre : Str)
    (hlen : ∀ s, (sha1 s).length = 40) (objs : List (GenObj P))
    (hinj : ∀ a ∈ objs, ∀ b ∈ objs, sha1 (a.prehash reprP env pre) = sha1 (b.prehash reprP env pre) →
      a.prehash reprP env pre = b.prehash reprP env pre)
    (hok : ∀ o ∈ objs, o.OK reprP)
    (hpos : objs.Pairwise (fun a b => a.pos ≠ b.pos)) :
    (objs.map (GenObj.name sha1 reprP env pre)).Nodup :=
  names_distinct_of_keys sha1 reprP env pre hlen objs hinj
    (hpos.imp_of_mem fun ha hb h => key_ne_of_pos_ne henv pre (hok _ ha) (hok _ hb) h)

/-- The objects of a module as the code lays them out: `enumerate(forms)`, the integrals of the forms
(signature, form id, integral data, cell), `enumerate(expressions)`. -/
def moduleObjs (n k : Nat) (fsig : Nat → Str) (esig : Nat → Str × P)
    (ints : List (Str × Int × IntegralData × Str)) : List (GenObj P) :=
  ((List.range n).map fun (i : Nat) => GenObj.form (fsig i) (Int.ofNat i)) ++
  (ints.map fun (x : Str × Int × IntegralData × Str) => GenObj.integral x.1 x.2.1 x.2.2.1 x.2.2.2) ++
  ((List.range k).map fun (i : Nat) => GenObj.expression (esig i).1 (esig i).2 (Int.ofNat i))

/-- The positions the code assigns are pairwise different: forms and expressions are enumerated, whatever
their signatures; for the integrals this is the premise "one (form id, type, subdomain ids, cell) per
kernel". -/
theorem module_positions_distinct (n k : Nat) (fsig : Nat → Str) (esig : Nat → Str × P)
    (ints : List (Str × Int × IntegralData × Str))
    (hints : (ints.map fun (x : Str × Int × IntegralData × Str) =>
      (x.2.1, x.2.2.1.itype, x.2.2.1.sub, x.2.2.2)).Nodup) :
    (moduleObjs n k fsig esig ints).Pairwise (fun (a b : GenObj P) => a.pos ≠ b.pos) := by
  have hr : ∀ m : Nat, (List.range m).Pairwise (fun (i j : Nat) => Int.ofNat i ≠ Int.ofNat j) := fun m =>
    (List.nodup_range (n := m)).imp (fun h e => h (Int.ofNat.inj e))
  unfold moduleObjs
  rw [List.pairwise_append, List.pairwise_append]
  refine ⟨⟨?_, ?_, ?_⟩, ?_, ?_⟩
  · rw [List.pairwise_map]
    exact (hr n).imp (fun h e => h (by simpa [GenObj.pos] using e))
  · unfold List.Nodup at hints
    rw [List.pairwise_map] at hints ⊢
    refine hints.imp (fun h e => h ?_)
    simp only [GenObj.pos, Prod.mk.injEq, true_and] at e
    simp only [Prod.mk.injEq]
    exact e
  · intro a ha b hb
    obtain ⟨i, _, rfl⟩ := List.mem_map.mp ha
    obtain ⟨x, _, rfl⟩ := List.mem_map.mp hb
    simp [GenObj.pos]
  · rw [List.pairwise_map]
    exact (hr k).imp (fun h e => h (by simpa [GenObj.pos] using e))
  · intro a ha b hb
    obtain ⟨j, _, rfl⟩ := List.mem_map.mp hb
    rcases List.mem_append.mp ha with ha | ha
    · obtain ⟨i, _, rfl⟩ := List.mem_map.mp ha
      simp [GenObj.pos]
    · obtain ⟨x, _, rfl⟩ := List.mem_map.mp ha
      simp [GenObj.pos]

/-- The same form twice and the same expression twice: positions differ although every signature is equal. -/
example : (moduleObjs (P := Unit) 2 2 (fun _ => cs! "aa") (fun _ => (cs! "bb", ())) []).Pairwise
    (fun (a b : GenObj Unit) => a.pos ≠ b.pos) :=
  module_positions_distinct 2 2 _ _ [] (by simp)

/-- The same expression twice in one module: two different names (toy hash = last 40 characters). -/
example :
    let sha : Str → Str := fun s => (s.reverse.take 40).reverse.map (fun c => if isHexChar c then c else 'a')
    let e : Env := ⟨cs! "0.1", cs! "ab"⟩
    ([GenObj.expression (P := Unit) (cs! "aa") () 0, GenObj.expression (cs! "aa") () 1].map
      (GenObj.name sha (fun _ => []) e (cs! "m"))).Nodup := by
  decide +kernel

end Ffcx.Naming
