import FfcxProofs.C07
import FfcxProofs.C08
import FfcxProofs.C17
