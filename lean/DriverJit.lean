/- Line-protocol driver of the Jit cluster (see lakefile.toml).

Requests:
  (ping)
  (cache N timeout (schedule (pid choice) ...))      choice ∈ none | fail | kill | again
     -> (ok (trace (pid op res handlers stdout) ...)           one entry per schedule entry
            (fs lock so obj marker failed gen tmp)
            (procs (pid pc nextop polls handlers stdout tok) ...)
            (counters nLock nRel nCompile))
  (schedules N timeout depth (pids pid ...))
     -> (ok (sched pid ...) ...)   all fault-free schedules of the given pids, from the empty cache,
                                   each extended until the marker exists (or nobody can move)
-/
import FfcxModel.Driver.Loop
import FfcxModel.Jit.Cache

open Ffcx
open Ffcx.Jit

namespace JitWire

def lockS : Lock → String
  | .absent => "absent" | .empty => "empty" | .source => "source"

def soS : So → String
  | .absent => "absent" | .part => "partial" | .complete => "complete"

def gS : GVal → String
  | .user => "user" | .capture => "capture"

def causeS : Cause → String
  | .gen => "gen" | .compile => "compile" | .marker => "marker" | .tmpExists => "tmpexists"
  | .tmpOpen => "tmpopen" | .tmpWrite => "tmpwrite" | .publish => "publish"

def opS : Op → String
  | .lock => "lock" | .poll => "poll" | .find => "find" | .load => "load" | .gen => "gen"
  | .swap => "swap" | .src => "src" | .obj => "obj" | .link1 => "link1" | .link2 => "link2"
  | .unredir => "unredir" | .tmpCreate => "tmpcreate" | .tmpWrite => "tmpwrite" | .markCheck => "markcheck" | .publish => "publish"
  | .tmpRemove => "tmpremove" | .restore => "restore" | .release => "release"
  | .kill => "kill" | .again => "again" | .none => "none"

def resS : Res → String
  | .ok => "ok" | .exists_ => "exists" | .true_ => "true" | .false_ => "false" | .found => "found"
  | .notfound => "notfound" | .raise => "raise" | .so s => soS s | .enoent => "enoent" | .unit => "-"

def pcS : Pc → Sexp
  | .idle => .atom "idle"
  | .wPoll i => .list [.atom "wPoll", Sexp.ofNat i]
  | .wFind => .atom "wFind" | .wLoad => .atom "wLoad"
  | .bGen => .atom "bGen" | .bSwap => .atom "bSwap" | .bSrc => .atom "bSrc" | .bObj => .atom "bObj"
  | .bLink1 => .atom "bLink1" | .bLink2 => .atom "bLink2" | .bUnredir => .atom "bUnredir"
  | .bTmpCreate => .atom "bTmpCreate" | .bTmpWrite => .atom "bTmpWrite" | .bMarkCheck => .atom "bMarkCheck"
  | .bPublish => .atom "bPublish" | .bTmpRemove c => .list [.atom "bTmpRemove", .atom (causeS c)] | .bRestore => .atom "bRestore" | .bFind => .atom "bFind"
  | .bLoad => .atom "bLoad"
  | .bFailRestore c => .list [.atom "bFailRestore", .atom (causeS c)]
  | .bFail c => .list [.atom "bFail", .atom (causeS c)]
  | .done b so => .list [.atom "done", Sexp.ofBool b, .atom (soS so)]
  | .raised .timeout => .list [.atom "raised", .atom "timeout"]
  | .raised .notFound => .list [.atom "raised", .atom "notfound"]
  | .raised (.build c) => .list [.atom "raised", .atom "build", .atom (causeS c)]
  | .dead => .atom "dead"

/-- The operation the request would perform next (what the real thread is blocked at). -/
def nextOp : Pc → String
  | .idle => "lock" | .wPoll _ => "poll" | .wFind => "find" | .wLoad => "load"
  | .bGen => "gen" | .bSwap => "swap" | .bSrc => "src" | .bObj => "obj" | .bLink1 => "link1"
  | .bLink2 => "link2" | .bUnredir => "unredir" | .bTmpCreate => "tmpcreate" | .bTmpWrite => "tmpwrite" | .bMarkCheck => "markcheck"
  | .bPublish => "publish" | .bTmpRemove _ => "tmpremove"
  | .bRestore => "restore"
  | .bFind => "find" | .bLoad => "load" | .bFailRestore _ => "restore" | .bFail _ => "release"
  | .done _ _ | .raised _ | .dead => "none"

def choiceOf (s : Sexp) : Except String Choice := do
  let a ← s.asAtom
  match a with
  | "none" => .ok .none
  | "fail" => .ok .fail
  | "kill" => .ok .kill
  | "again" => .ok .again
  | _ => .error s!"bad choice {a}"

def scheduleOf (s : Sexp) : Except String (List (Nat × Choice)) := do
  match s with
  | .list (.atom "schedule" :: entries) =>
    entries.mapM fun e => do
      match e with
      | .list [p, c] => do
        let pid ← p.asNat
        let ch ← choiceOf c
        pure (pid, ch)
      | _ => .error "schedule entry must be (pid choice)"
  | _ => .error "expected (schedule ...)"

def fsS (fs : FS) : Sexp :=
  .list [.atom "fs", .atom (lockS fs.lock), .atom (soS fs.so), Sexp.ofBool fs.obj,
    Sexp.ofBool fs.marker, Sexp.ofBool fs.failed, Sexp.ofNat fs.gen, Sexp.ofBool fs.tmp]

def cache (n timeout : Nat) (sch : List (Nat × Choice)) : Sexp :=
  let r := runTrace (init n timeout) sch
  let tr := r.1.map fun (pid, o, g) =>
    Sexp.list [Sexp.ofNat pid, .atom (opS o.op), .atom (resS o.res), .atom (gS g.handlers), .atom (gS g.stdout)]
  let s := r.2
  let procs := (List.range s.procs.length).zip s.procs |>.map fun (i, p) =>
    Sexp.list [Sexp.ofNat i, pcS p.pc, .atom (nextOp p.pc), Sexp.ofNat p.polls,
      .atom (gS p.g.handlers), .atom (gS p.g.stdout), Sexp.ofNat p.tok]
  .list [.atom "ok", .list (.atom "trace" :: tr), fsS s.fs, .list (.atom "procs" :: procs),
    .list [.atom "counters", Sexp.ofNat s.nLock, Sexp.ofNat s.nRel, Sexp.ofNat s.nCompile]]

end JitWire

open JitWire in
def dispatch (req : Sexp) : Except String Sexp :=
  match req with
  | .list (.atom cmd :: args) =>
    match cmd with
    | "ping" => .ok (.atom "pong")
    | "cache" =>
      match args with
      | [n, t, sch] => do
        let n ← n.asNat
        let t ← t.asNat
        let sch ← scheduleOf sch
        if n > 64 then .error "too many processes" else
        pure (cache n t sch)
      | _ => .error "usage: (cache N timeout (schedule (pid choice) ...))"
    | "schedules" =>
      match args with
      | [n, t, d, .list (.atom "pids" :: pids)] => do
        let n ← n.asNat
        let t ← t.asNat
        let d ← d.asNat
        let pids ← pids.mapM Sexp.asNat
        let all := schedulesToMarker pids d (init n t)
        pure (.list (.atom "ok" :: all.map fun sch => .list (.atom "sched" :: sch.map Sexp.ofNat)))
      | _ => .error "usage: (schedules N timeout depth (pids pid ...))"
    | _ => .error s!"unknown command {cmd}"
  | _ => .error "request must be a list"

def main : IO Unit := Driver.run dispatch
