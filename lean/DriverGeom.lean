/- Line-protocol driver of the Geom cluster (C02, C03): facet permutations, permuted-table rows,
`table_access` subscripts, reference-entity maps over the regenerated reference cells, entity
selection, macro layout indices, and the static predicate `readsPerm` on exported ASTs.

Requests (one s-expression per line) and replies:
  (ping)                                              -> pong
  (perm <facettype> <ref> <rot> (<pt> …))             -> (<pt> …)        pt = (x …) rationals
  (permcode <facettype> <N> (<pt> …))                 -> (<pt> …)        rot = N/2, ref = N%2
  (rows <facettype>)                                  -> ((rot ref) …)   in table-row order
  (numcodes <facettype>)                              -> n
  (sigma <facettype> <N>)                             -> (σ0 σ1 …)
  (mapfacet <cell> <facet> (<pt> …))                  -> (<pt> …)
  (mapedge <cell> <edge> (<pt> …))                    -> (<pt> …)
  (mapintegral <cell> cell|facet|ridge|vertex <entity> (<pt> …)) -> (<pt> …)
  (entity cell|facet|vertex|ridge plus|minus|none)    -> 0 | (eli k)
  (aindex n m ri rj i j) (aindex1 n r i) (windex (d …) k r i) (xindex nodes r node c) -> nat
  (ispermuted <rtol> <atol> <table>)                  -> true|false      table[perm][entity][point][dof]
  (subscripts <permuted> <uniform> <piecewise> <minus> (<qperm> …) <entity> <iq>) -> (qp e q)
  (reads <array> <stmt>)                              -> true|false      stmt in the export schema
  (tablepoints <facettype> <cell> <kind> <nent> (<pt> …)) -> (((<pt> …) …) …)  [row][entity][point]: the cell
                                                         points `buildTable` tabulates at (facettype `point` = one row)
  (tablereads <facettype> <cell> <kind> <nent> <ndof> (<pt> …) <values> <entitytype> (<read> …)) -> (v …)
      values[row][entity][point][dof] = tabulation at the points of `tablepoints` (looked up by point);
      read = (<permuted> <uniform> <piecewise> plus|minus|none (<qperm> …) (<entity_local_index> …) <iq> <dof>);
      v = tableRead (modelTable …) flags entitytype restriction qperm eli iq dof
-/
import FfcxModel.Driver.Loop
import FfcxModel.IR.Perm
import FfcxModel.Geometry.RefCell
import FfcxModel.Generated.RefCells
import FfcxModel.Geometry.TableRead
import FfcxModel.LNodes.Wire

open Ffcx Ffcx.Perm Ffcx.Geometry

namespace GeomDriver

def facetType (s : Sexp) : Except String FacetType := do
  match (← s.asAtom) with
  | "point" => .ok .point
  | "interval" => .ok .interval
  | "triangle" => .ok .triangle
  | "quadrilateral" => .ok .quadrilateral
  | a => .error s!"unknown facet type {a}"

def ratList (s : Sexp) : Except String (List Rat) := do (← s.asList).mapM Sexp.asRat
def natList (s : Sexp) : Except String (List Nat) := do (← s.asList).mapM Sexp.asNat
def points (s : Sexp) : Except String (List (List Rat)) := do (← s.asList).mapM ratList

def ofPoint (p : List Rat) : Sexp := .list (p.map Sexp.ofRat)
def ofPoints (ps : List (List Rat)) : Sexp := .list (ps.map ofPoint)

def cell (s : Sexp) : Except String RefCellData := do
  let n ← s.asAtom
  match Generated.refCells.find? (fun c => c.name == n) with
  | some c => .ok c
  | none => .error s!"unknown cell {n}"

def table (s : Sexp) : Except String (Table Rat) := do
  (← s.asList).mapM fun e => do (← e.asList).mapM fun q => do (← q.asList).mapM ratList

def restriction (s : Sexp) : Except String Restriction := do
  match (← s.asAtom) with
  | "plus" => .ok .plus
  | "minus" => .ok .minus
  | "none" => .ok .none
  | a => .error s!"unknown restriction {a}"

def entityType (s : Sexp) : Except String EntityType := do
  match (← s.asAtom) with
  | "cell" => .ok .cell
  | "facet" => .ok .facet
  | "vertex" => .ok .vertex
  | "ridge" => .ok .ridge
  | a => .error s!"unknown entity type {a}"

def integralKind (s : Sexp) : Except String IntegralKind := do
  match (← s.asAtom) with
  | "cell" => .ok .cell
  | "facet" => .ok .facet
  | "ridge" => .ok .ridge
  | "vertex" => .ok .vertex
  | a => .error s!"unknown integral kind {a}"

/-- one `(permuted uniform piecewise restriction (qperm) (eli) iq dof)` request -/
def tableReadReq (T : Table Rat) (et : EntityType) (s : Sexp) : Except String Sexp := do
  match (← s.asList) with
  | [p, u, pw, r, qperm, eli, iq, d] =>
    let fl : TableFlags := ⟨← p.asBool, ← u.asBool, ← pw.asBool⟩
    .ok (Sexp.ofRat (tableRead T fl et (← restriction r) (← natList qperm) (← natList eli)
      (← iq.asNat) (← d.asNat)))
  | _ => .error "read must be (permuted uniform piecewise restriction (qperm) (eli) iq dof)"

end GeomDriver

open GeomDriver in
def dispatch (req : Sexp) : Except String Sexp :=
  match req with
  | .list (.atom cmd :: args) =>
    match cmd, args with
    | "ping", _ => .ok (.atom "pong")
    | "perm", [t, ref, rot, pts] => do
      let t ← facetType t
      let ref ← ref.asNat
      let rot ← rot.asNat
      let pts ← points pts
      .ok (ofPoints (pts.map (permutePoint t ref rot)))
    | "permcode", [t, n, pts] => do
      let t ← facetType t
      let n ← n.asNat
      let pts ← points pts
      .ok (ofPoints (pts.map (permuteByCode t n)))
    | "rows", [t] => do
      let t ← facetType t
      .ok (.list ((permRows t.numRot t.numRef (fun ref rot => (rot, ref))).map
        (fun p => .list [Sexp.ofNat p.1, Sexp.ofNat p.2])))
    | "numcodes", [t] => do
      let t ← facetType t
      .ok (Sexp.ofNat t.numCodes)
    | "sigma", [t, n] => do
      let t ← facetType t
      let n ← n.asNat
      .ok (.list ((sigmaOfCode t n).map Sexp.ofNat))
    | "mapfacet", [c, f, pts] => do
      let c ← cell c
      let f ← f.asNat
      let pts ← points pts
      .ok (ofPoints (mapFacetPoints c f pts))
    | "mapedge", [c, e, pts] => do
      let c ← cell c
      let e ← e.asNat
      let pts ← points pts
      .ok (ofPoints (mapEdgePoints c e pts))
    | "mapintegral", [c, k, e, pts] => do
      let c ← cell c
      let k ← integralKind k
      let e ← e.asNat
      let pts ← points pts
      .ok (ofPoints (mapIntegralPoints c k e pts))
    | "entity", [t, r] => do
      let t ← entityType t
      let r ← restriction r
      match entity t r with
      | .lit0 => .ok (.atom "0")
      | .eli k => .ok (.list [.atom "eli", Sexp.ofNat k])
    | "aindex", [n, m, ri, rj, i, j] => do
      .ok (Sexp.ofNat (aIndex (← n.asNat) (← m.asNat) (← ri.asNat) (← rj.asNat) (← i.asNat) (← j.asNat)))
    | "aindex1", [n, r, i] => do
      .ok (Sexp.ofNat (aIndex1 (← n.asNat) (← r.asNat) (← i.asNat)))
    | "windex", [dims, k, r, i] => do
      .ok (Sexp.ofNat (wIndex (← natList dims) (← k.asNat) (← r.asNat) (← i.asNat)))
    | "xindex", [nodes, r, node, c] => do
      .ok (Sexp.ofNat (xIndex (← nodes.asNat) (← r.asNat) (← node.asNat) (← c.asNat)))
    | "ispermuted", [rtol, atol, t] => do
      .ok (Sexp.ofBool (isPermutedTable (← rtol.asRat) (← atol.asRat) (← table t)))
    | "subscripts", [p, u, pw, minus, qperm, e, iq] => do
      let fl : TableFlags := ⟨← p.asBool, ← u.asBool, ← pw.asBool⟩
      let s := tableSubscripts fl (← minus.asBool) (← natList qperm) (← e.asNat) (← iq.asNat)
      .ok (.list [Sexp.ofNat s.1, Sexp.ofNat s.2.1, Sexp.ofNat s.2.2])
    | "tablepoints", [t, c, k, nent, pts] => do
      let T := tablePoints (← facetType t) (← cell c) (← integralKind k) (← nent.asNat) (← points pts)
      .ok (.list (T.map fun row => .list (row.map fun e => .list (e.map fun q => ofPoint (q.getD 0 [])))))
    | "tablereads", [t, c, k, nent, ndof, pts, vals, et, reads] => do
      let t ← facetType t
      let c ← cell c
      let k ← integralKind k
      let nent ← nent.asNat
      let pts ← points pts
      let P := (tablePoints t c k nent pts).flatMap fun row => row.flatMap fun e => e.map fun q => q.getD 0 []
      let V := (← table vals).flatMap fun row => row.flatMap id
      if P.length != V.length then
        .error s!"tablereads: {P.length} points but {V.length} value rows"
      else
        let T := modelTable t c k nent (← ndof.asNat) pts (P.zip V)
        let et ← entityType et
        .ok (.list (← (← reads.asList).mapM (tableReadReq T et)))
    | "reads", [a, s] => do
      let a ← a.asAtom
      let st ← LNodes.readStmt s
      .ok (Sexp.ofBool (readsS a st))
    | _, _ => .error s!"unknown command or wrong arity: {cmd}"
  | _ => .error "request must be a list"

def main : IO Unit := Driver.run dispatch
