import FfcxModel.Base.Sexp
import FfcxModel.Base.AList
import FfcxModel.LNodes.Syntax
import FfcxModel.LNodes.Sem
import FfcxModel.LNodes.Wire
import FfcxModel.LNodes.Scalars
import FfcxModel.Driver.Loop
import FfcxModel.Driver.Exec
