"""Export FFCx LNodes trees as s-expressions (DESIGN.md Appendix C)."""
import math
import numbers

import numpy as np

import ffcx.codegeneration.lnodes as L

from .sexp import q, rat


class ExportError(Exception):
    """The tree contains something the model does not represent."""


_DT = {
    L.DataType.REAL: "real",
    L.DataType.SCALAR: "scalar",
    L.DataType.INT: "int",
    L.DataType.BOOL: "bool",
    L.DataType.NONE: "none",
}
_BIN = {
    L.Add: "add", L.Sub: "sub", L.Mul: "mul", L.Div: "div",
    L.EQ: "eq", L.NE: "ne", L.LT: "lt", L.GT: "gt", L.LE: "le", L.GE: "ge",
    L.And: "and", L.Or: "or",
}


def dt(d):
    return _DT[d]


def lit(v) -> str:
    """A Python/NumPy number as literal node text."""
    if isinstance(v, (bool, np.bool_)):
        raise ExportError("bool literal")
    if isinstance(v, (numbers.Integral, np.integer)):
        return f"(li {int(v)})"
    if isinstance(v, (complex, np.complexfloating)):
        if not (math.isfinite(v.real) and math.isfinite(v.imag)):
            raise ExportError(f"non-finite literal {v}")
        return f"(lc {rat(v.real)} {rat(v.imag)})"
    if isinstance(v, (float, np.floating)):
        if not math.isfinite(v):
            raise ExportError(f"non-finite literal {v}")
        return f"(lf {rat(v)})"
    raise ExportError(f"literal type {type(v)}")


def expr(e) -> str:
    t = type(e)
    if t is L.LiteralFloat:
        return lit(e.value)
    if t is L.LiteralInt:
        return f"(li {int(e.value)})"
    if t is L.Symbol:
        return f"(sym {e.name} {dt(e.dtype)})"
    if t is L.MultiIndex:
        syms = " ".join(expr(s) for s in e.symbols)
        sizes = " ".join(str(int(s)) for s in e.sizes)
        return f"(mi ({syms}) ({sizes}) {expr(e.global_index)})"
    if t is L.Neg:
        return f"(neg {expr(e.arg)})"
    if t is L.Not:
        return f"(not {expr(e.arg)})"
    if t in _BIN:
        return f"({_BIN[t]} {expr(e.lhs)} {expr(e.rhs)})"
    if t is L.Sum:
        return "(sum " + " ".join(expr(a) for a in e.args) + ")"
    if t is L.Product:
        return "(prod " + " ".join(expr(a) for a in e.args) + ")"
    if t is L.MathFunction:
        return f"(call {e.function} {dt(e.dtype)} " + " ".join(expr(a) for a in e.args) + ")"
    if t is L.ArrayAccess:
        return f"(idx {e.array.name} {dt(e.dtype)} " + " ".join(expr(i) for i in e.indices) + ")"
    if t is L.Conditional:
        return f"(cond {expr(e.condition)} {expr(e.true)} {expr(e.false)})"
    raise ExportError(f"expression class {t.__name__}")


def stmt(s) -> str:
    t = type(s)
    if t is L.Statement:
        return stmt(s.expr)
    if t is L.Assign:
        return f"(assign {expr(s.lhs)} {expr(s.rhs)})"
    if t is L.AssignAdd:
        return f"(addassign {expr(s.lhs)} {expr(s.rhs)})"
    if t is L.VariableDecl:
        if s.value is None:
            raise ExportError("VariableDecl without value")
        return f"(vdecl {s.symbol.name} {dt(s.symbol.dtype)} {expr(s.value)})"
    if t is L.ArrayDecl:
        sizes = " ".join(str(int(x)) for x in s.sizes)
        if s.values is None:
            vals = "none"
        else:
            arr = np.asarray(s.values)
            vals = "(" + " ".join(lit(v) for v in arr.reshape(-1).tolist()) + ")"
            if arr.size > 1 and tuple(arr.shape) != tuple(int(x) for x in s.sizes):
                raise ExportError(f"initialiser shape {arr.shape} != sizes {s.sizes}")
        c = "true" if s.const else "false"
        return f"(adecl {s.symbol.name} {dt(s.symbol.dtype)} ({sizes}) {c} {vals})"
    if t is L.ForRange:
        if not isinstance(s.index, L.Symbol):
            raise ExportError("ForRange index is not a Symbol")
        body = " ".join(stmt(b) for b in s.body.statements)
        return f"(for {s.index.name} {expr(s.begin)} {expr(s.end)} {body})"
    if t is L.Comment:
        return f"(comment {q(s.comment)})"
    if t is L.StatementList:
        return "(block " + " ".join(stmt(b) for b in s.statements) + ")"
    if t is L.Section:
        decls = " ".join(stmt(d) for d in s.declarations)
        stmts = " ".join(stmt(b) for b in s.statements)
        inp = " ".join(sorted(w.name for w in s.input))
        out = " ".join(sorted(w.name for w in s.output))
        ann = " ".join(a.name for a in s.annotations)
        return f"(section {q(s.name)} ({decls}) ({stmts}) ({inp}) ({out}) ({ann}))"
    if isinstance(s, list):
        return "(block " + " ".join(stmt(b) for b in s) + ")"
    raise ExportError(f"statement class {t.__name__}")
