"""C19 (scoping soundness): per-kernel certificates of `Ffcx.LNodes.kernel_flat_faithful`.

`check_scope_certificates(chk, d, entries)` asks the LNodes driver `(scopecert <kernel>)` for every
kernel AST of the given corpus entries, optimised and unoptimised, and reports through `chk.disagree`
every real kernel on which the certificate `flatCert` fails, i.e. on which the flat semantics `exec`
used by all other theorems is NOT known to be faithful to C's block scoping:
  * `kinds false`  – a name is declared with two different kinds (int / scalar / array) in the kernel;
  * `clob err n`   – `n` is used while the flat store holds the value of an inner variable `n`
                     (an inner block re-declared `n`, C restores the outer value at `}`, `exec` does not);
  * `clob ok … p`  – a kernel parameter is clobbered at the end of the kernel.
Shadowing as such is legal and does occur (e.g. `J0_c0…` re-declared inside the quadrature loop of a
second rule); it is counted in `chk.notes["scope_shadowing_kernels"]`.

Needs in Driver.lean:   import FfcxModel.Driver.Scope   and   | "scopecert" => Driver.handleScopeCert args
"""
from pathlib import Path

from . import kernels

_LEAN = Path(__file__).resolve().parent.parent / "lean"

SCOPE_MODULE = "FfcxProofs.C19Sound"
SCOPE_THEOREMS = [
    "Ffcx.LNodes.scoped_sound",
    "Ffcx.LNodes.scopedL_sound",
    "Ffcx.LNodes.scoped_flat_faithful",
    "Ffcx.LNodes.scopedL_flat_faithful",
    "Ffcx.LNodes.kernel_scoped_sound",
    "Ffcx.LNodes.assign_run_undeclared_visible",
    "Ffcx.LNodes.scoped_tight",
    "Ffcx.LNodes.kernel_tight",
    "Ffcx.LNodes.kernel_flat_faithful",
    "Ffcx.LNodes.flat_unfaithful_shadow_counterexample",
    "Ffcx.LNodes.flat_unfaithful_kind_counterexample",
    "Ffcx.LNodes.scoped_complete_partial",
    "Ffcx.LNodes.scoped_zero_trip_conservative",
]
SCOPE_FILES = [str(_LEAN / f) for f in (
    "FfcxModel/LNodes/ScopedSem.lean",
    "FfcxModel/Driver/Scope.lean",
    "FfcxProofs/C19Sound.lean",
    "FfcxProofs/Lemmas/ScopeBase.lean",
    "FfcxProofs/Lemmas/ScopeSound.lean",
    "FfcxProofs/Lemmas/ScopeFlat.lean",
    "FfcxProofs/Lemmas/ScopeTight.lean",
)]

PARAMS = ("A", "w", "c", "coordinate_dofs", "entity_local_index", "quadrature_permutation")


def _variants(entry):
    """(tag, cases) for the optimised and the unoptimised generator."""
    from .props.c17 import _NoOpt
    yield "opt", kernels.cases_for_entry(entry)[0]
    with _NoOpt():
        cases = kernels.cases_for_entry(entry)[0]
    yield "noopt", cases


def parse_reply(r):
    """reply of `(scopecert k)` -> dict(cert, scoped, kinds, clob_ok, names)"""
    if not r or r[0] != "ok":
        return None
    f = {x[0]: x[1:] for x in r[2:]}
    return {
        "cert": r[1] == "true",
        "scoped": f["scoped"][0] == "true",
        "kinds": f["kinds"][0] == "true",
        "clob_ok": f["clob"][0] == "ok",
        "names": list(f["clob"][1:]),
    }


def new_summary():
    return {"kernels": 0, "certified": 0, "shadowing": [], "failed": []}


def check_scope_kernel(chk, d, c, tag, entry_name, summary):
    """One kernel case `c` (harness.kernels case; `tag` = "opt"/"noopt"). Usable from inside another
    loop over the kernels (e.g. c19.scoped_all) to avoid generating every kernel twice."""
    r = d.ask(f"(scopecert {c.ast_sexp})")
    p = parse_reply(r)
    summary["kernels"] += 1
    key = f"{c.name}:{tag}"
    if p is None:
        chk.disagree("scope certificate: driver could not evaluate the kernel", {"kernel": key, "reply": r})
        summary["failed"].append(key)
        return False
    shadows = bool(p["names"])
    # distinct non-trivial = a kernel in which some visible name really is shadowed/clobbered
    chk.case("scopecert", key if shadows else None,
             sample={"kernel": key, "reply": r} if shadows and len(chk.samples) < 4 else None)
    if shadows:
        summary["shadowing"].append({"kernel": key, "names": p["names"]})
    if not p["scoped"]:
        return False  # reported as a violation by c19.scoped_all; nothing to certify
    if p["cert"]:
        summary["certified"] += 1
        return True
    if not p["kinds"]:
        why = "a name is declared with two different kinds"
    elif not p["clob_ok"]:
        why = f"`{p['names'][0] if p['names'] else '?'}` is used after an inner block re-declared it (flat store holds the inner value)"
    else:
        why = f"kernel parameter clobbered at the end: {[n for n in p['names'] if n in PARAMS]}"
    summary["failed"].append(key)
    chk.disagree("flat semantics not certified faithful to C block scoping: " + why,
                 {"kernel": c.name, "variant": tag, "entry": entry_name, "reply": r})
    return False


def note_summary(chk, summary):
    chk.notes["scope_kernels"] = summary["kernels"]
    chk.notes["scope_certified"] = summary["certified"]
    chk.notes["scope_shadowing_kernels"] = [s["kernel"] for s in summary["shadowing"]]


def check_scope_certificates(chk, d, entries):
    """Evaluate the certificates on every kernel of `entries` (opt + noopt). Returns a summary dict."""
    summary = new_summary()
    for e in entries:
        try:
            variants = list(_variants(e))
        except Exception as ex:  # unsupported corpus entry on this tree: not this check's business
            chk.notes.setdefault("skipped", []).append(f"{e.name}: {type(ex).__name__}")
            continue
        for tag, cases in variants:
            for c in cases:
                check_scope_kernel(chk, d, c, tag, e.name, summary)
    note_summary(chk, summary)
    return summary


# ---------------------------------------------------------------------------------------------
class _InterpDriver:
    """Stand-in for lean.Driver while `scopecert` is not yet wired into Driver.lean: runs a scratch
    dispatch file through the Lean interpreter."""

    def __init__(self, lean_file):
        import subprocess
        from . import lean
        self.p = subprocess.Popen(["lake", "env", "lean", "--run", str(lean_file)], cwd=lean.LEAN,
                                  stdin=subprocess.PIPE, stdout=subprocess.PIPE, text=True, bufsize=1)

    def ask(self, req):
        from . import sexp
        self.p.stdin.write(req + "\n")
        self.p.stdin.flush()
        line = self.p.stdout.readline()
        if not line:
            raise RuntimeError("interpreter died")
        return sexp.loads(line.rstrip("\n"))

    def close(self):
        try:
            self.p.stdin.close()
            self.p.wait(timeout=10)
        except Exception:
            self.p.kill()


if __name__ == "__main__":  # python -m harness.scope_checks [scratch-driver.lean]
    import json
    import sys
    from . import corpus, lean

    class _Chk:
        def __init__(self):
            self.notes, self.samples, self.cases, self.bad = {}, [], 0, []

        def case(self, kind, key=None, sample=None):
            self.cases += 1
            if sample:
                self.samples.append(sample)

        def disagree(self, what, payload):
            self.bad.append((what, payload))
            print("DISAGREE", what, json.dumps(payload)[:400])

    chk = _Chk()
    ents = corpus.fixed() + corpus.expressions()
    d = _InterpDriver(sys.argv[1]) if len(sys.argv) > 1 else lean.Driver("driver")
    try:
        s = check_scope_certificates(chk, d, ents)
    finally:
        d.close()
    print(json.dumps({k: (v if k != "shadowing" else v[:20]) for k, v in s.items()}, indent=1))
    print("disagreements:", len(chk.bad))
