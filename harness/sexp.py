"""Minimal s-expression reader/writer (wire format of the Lean driver)."""
from fractions import Fraction


def q(s: str) -> str:
    """Quote an atom if needed."""
    if s == "" or any(c in s for c in ' ()"\n\\'):
        return '"' + s.replace("\\", "\\\\").replace('"', '\\"').replace("\n", "\\n") + '"'
    return s


def dumps(x) -> str:
    """Python nested lists/tuples/str/int/Fraction/bool -> s-expression text."""
    if isinstance(x, bool):
        return "true" if x else "false"
    if isinstance(x, str):
        return x  # already an atom (caller quotes free text with q())
    if isinstance(x, int):
        return str(x)
    if isinstance(x, Fraction):
        return str(x.numerator) if x.denominator == 1 else f"{x.numerator}/{x.denominator}"
    if isinstance(x, (list, tuple)):
        return "(" + " ".join(dumps(y) for y in x) + ")"
    raise TypeError(f"cannot dump {type(x)}")


def loads(s: str):
    """Parse one s-expression into nested lists of str atoms."""
    stack = [[]]
    i, n = 0, len(s)
    while i < n:
        c = s[i]
        if c in " \n\t\r":
            i += 1
        elif c == "(":
            stack.append([])
            i += 1
        elif c == ")":
            top = stack.pop()
            stack[-1].append(top)
            i += 1
        elif c == '"':
            j = i + 1
            out = []
            while s[j] != '"':
                if s[j] == "\\":
                    out.append("\n" if s[j + 1] == "n" else s[j + 1])
                    j += 2
                else:
                    out.append(s[j])
                    j += 1
            stack[-1].append("".join(out))
            i = j + 1
        else:
            j = i
            while j < n and s[j] not in " ()\n":
                j += 1
            stack[-1].append(s[i:j])
            i = j
    assert len(stack) == 1 and len(stack[0]) == 1, s[:200]
    return stack[0][0]


def rat(x) -> str:
    """Exact rational text of a Python/NumPy real."""
    if isinstance(x, Fraction):
        f = x
    elif isinstance(x, int):
        return str(x)
    else:
        n, d = float(x).as_integer_ratio()
        return str(n) if d == 1 else f"{n}/{d}"
    return str(f.numerator) if f.denominator == 1 else f"{f.numerator}/{f.denominator}"


def parse_rat(a: str) -> Fraction:
    return Fraction(a)
