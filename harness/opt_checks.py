"""Optimiser cluster of C17: `ffcx/codegeneration/optimizer.py` against its Lean transcription.

    check_optimizer(chk, d, entries)      real optimize() vs model, structurally, on every part list the
                                          generators pass to optimize() + a seeded synthetic generator
    check_certificates(chk, d, entries)   the decidable side conditions of the theorems in
                                          FfcxProofs.C17Opt evaluated on every real part list, and the
                                          search for real kernels on which check_dependency misses a
                                          dependency

`d` may be any driver session; the optimiser commands live in `driver_opt`, which is opened here when
`d` does not answer them.  Stand-alone: `python -m harness.opt_checks [--tier quick|thorough]`.
"""
import hashlib
import random
import warnings

import ffcx.codegeneration.integral_generator as ig_mod
import ffcx.codegeneration.lnodes as L
import ffcx.codegeneration.optimizer as opt

from . import corpus, export, export_opt, kernels, lean, pipeline, sexp

OPT_MODULE = "FfcxProofs.C17Opt"
# status: full = proved as stated in DESIGN §6; partial = see the comment with the full statement in C17Opt.lean
OPT_THEOREMS = [
    # every theorem is FULL (proved as stated) unless marked partial
    "Ffcx.LNodes.exec_depends_on_free_names",      # free-name frame lemma (supersedes the alpha-renaming lemma)
    "Ffcx.LNodes.commute_sound",                   # commB => s1;s2 ~ s2;s1 up to dead loop indices
    "Ffcx.LNodes.fuse_sections_sound",
    "Ffcx.LNodes.loop_fusion_sound",               # classical loop fusion, any trip count
    "Ffcx.LNodes.fuse_loops_sound",
    "Ffcx.LNodes.licm_sound",                      # both directions; needs licmCert + licmTripCert
    "Ffcx.LNodes.licm_refines",                    # licmCert only (empty inner loops allowed): one direction
    "Ffcx.LNodes.hoisted_factors_safe",
    "Ffcx.LNodes.licm_product_sound",
    "Ffcx.LNodes.licm_split",
    "Ffcx.LNodes.optimize_sound",                  # composition, both directions
    "Ffcx.LNodes.optimize_preserves_A",
    "Ffcx.LNodes.check_dependency_sound_partial",  # partial: subscripts check_dependency inspects completely
    "Ffcx.LNodes.check_dependency_counterexample",
    "Ffcx.LNodes.check_dependency_counterexample_sum",
    "Ffcx.LNodes.licm_counterexample",
    "Ffcx.LNodes.licm_empty_inner_counterexample",
]
_LEAN = lean.LEAN
OPT_FILES = [_LEAN / "FfcxProofs" / "Lemmas" / f for f in (
    "OptFree.lean", "OptObs.lean", "OptFuseSections.lean", "OptFuseLoops.lean", "OptLicm.lean",
    "OptLicmModel.lean", "OptLicmSound.lean", "OptLicmReach.lean", "OptCompose.lean")] + [
    _LEAN / "FfcxModel" / "LNodes" / "Optimizer.lean", _LEAN / "FfcxModel" / "LNodes" / "OptCert.lean",
    _LEAN / "FfcxModel" / "Driver" / "Opt.lean", _LEAN / "DriverOpt.lean"]


# --------------------------------------------------------------------------- driver
class _OptDriver:
    """use `d` if it speaks the optimiser protocol, else a private driver_opt session"""

    def __init__(self, d):
        self.own = None
        self.d = d
        ok = False
        if d is not None:
            try:
                ok = d.ask_raw("(opt_ping)") == "pong-opt"
            except Exception:
                ok = False
        if not ok:
            self.own = lean.Driver("driver_opt")
            self.d = self.own

    def __enter__(self):
        return self.d

    def __exit__(self, *a):
        if self.own is not None:
            self.own.close()


# --------------------------------------------------------------------------- capture of real runs
class Capture:
    __slots__ = ("name", "pre", "post", "exc", "pre_err")

    def __init__(self, name, pre, post, exc, pre_err=None):
        self.name, self.pre, self.post, self.exc, self.pre_err = name, pre, post, exc, pre_err

    @property
    def key(self):
        return hashlib.sha1(" ".join(self.pre).encode()).hexdigest()[:12]


def run_real(code):
    """(pre texts | None, post texts | None, exception name | None, export problem | None) of one real
    optimize() call; the input is exported BEFORE the call (licm mutates it in place)"""
    try:
        pre = export_opt.code(code)
    except export.ExportError as ex:
        return None, None, None, str(ex)
    try:
        out = opt.optimize(code, None)
    except Exception as ex:  # the model mirrors exceptions by class name
        return pre, None, type(ex).__name__, None
    try:
        post = export_opt.code(out, strict=False)
    except (export.ExportError, ValueError, TypeError) as ex:
        return pre, None, "Unrepresentable", None
    return pre, post, None, None


_CAPS = {}


def capture(entries, option_sets=None):
    """every argument list the integral generator passes to optimize(), with the real result
    (memoised per entry-name tuple: both checks use the same captures)"""
    memo_key = tuple(e.name for e in entries)
    if memo_key in _CAPS:
        return _CAPS[memo_key]
    caps = []
    real = opt.optimize
    cur = [""]

    def spy(code, rule):
        try:
            pre = export_opt.code(code)
            pre_err = None
        except export.ExportError as ex:
            pre, pre_err = None, str(ex)
        out = real(code, rule)
        if pre is None:
            caps.append(Capture(cur[0], None, None, None, pre_err))
            return out
        try:
            post = export_opt.code(out, strict=False)
        except export.ExportError as ex:
            caps.append(Capture(cur[0], pre, None, None, "post: " + str(ex)))
            return out
        caps.append(Capture(cur[0], pre, post, None))
        return out

    saved = ig_mod.optimize
    ig_mod.optimize = spy
    skipped = []
    try:
        for e in entries:
            optsets = [None]
            if "tp" in getattr(e, "tags", ()):
                optsets = [pipeline.default_options(sum_factorization=False),
                           pipeline.default_options(sum_factorization=True)]
            for k, o in enumerate(optsets):
                cur[0] = f"{e.name}#{k}"
                try:
                    with warnings.catch_warnings():
                        warnings.simplefilter("ignore")
                        kernels.cases_for_entry(e, o)
                except Exception as ex:  # unsupported on this tree: not the optimiser's business
                    skipped.append(f"{e.name}: {type(ex).__name__}")
    finally:
        ig_mod.optimize = saved
    _CAPS[memo_key] = (caps, skipped)
    return caps, skipped


def default_entries(tier="quick", seed=0):
    from .props import c10
    ents = corpus.fixed() + corpus.expressions() + c10.tp_entries()
    if tier == "thorough":
        ents += corpus.demos() + corpus.generated(seed, 60)
    else:
        ents += corpus.generated(seed, 6)
    return ents


# --------------------------------------------------------------------------- model side
def model_optimize(d, pre):
    r = d.ask_raw("(optimize " + " ".join(pre) + ")")
    return r


def expected_reply(post, exc):
    if exc is not None:
        return f"(raise {exc})"
    return "(ok" + "".join(" " + p for p in post) + ")"


def _norm(txt):
    """canonical text of an s-expression (the driver prints rationals/quotes canonically)"""
    return sexp.dumps(_requote(sexp.loads(txt)))


def _requote(x):
    if isinstance(x, list):
        return [_requote(y) for y in x]
    return sexp.q(x)


# --------------------------------------------------------------------------- synthetic part lists
class Synth:
    """Seeded generator of part lists reaching the branches real kernels do not: repeated section
    names, loops with equal / different ranges between non-loop statements, bodies of 0/1/2 statements,
    products with 0..3 hoistable factors, repeated factors, equal names with different dtypes, nested
    sums in subscripts, non-literal / float / non-zero loop bounds, ill-formed inner loops."""

    def __init__(self, seed):
        self.rng = random.Random(seed)
        self.mi_cache = {}
        self.clean = False  # well-formed licm section: only the factor / lhs classes licm accepts

    def sym(self, name, dt=None):
        return L.Symbol(name, dt or L.DataType.REAL)

    def isym(self, name):
        return L.Symbol(name, L.DataType.INT)

    def index_expr(self, inner, outer):
        r = self.rng
        i, o = self.isym(inner), self.isym(outer)
        k = self.isym("iq")
        return r.choice([
            lambda: i, lambda: o, lambda: k, lambda: L.LiteralInt(r.randrange(0, 3)),
            lambda: L.Sum([i]), lambda: L.Sum([o]), lambda: L.Sum([o, k]), lambda: L.Sum([i, L.LiteralInt(1)]),
            lambda: L.Product([L.LiteralInt(2), i]), lambda: L.Product([L.LiteralInt(2), o]),
            lambda: L.Sum([L.Mul(L.LiteralInt(3), i), o]),  # nested: check_dependency does not look here
            lambda: L.Add(i, L.LiteralInt(1)), lambda: L.Mul(L.LiteralInt(2), i),
            lambda: L.Sum([L.Sum([i]), o]), lambda: L.Add(o, k),
        ])()

    def factor(self, inner, outer):
        r = self.rng
        c = r.randrange(0, 10 if self.clean else 12)
        if c < 4:
            nix = r.choice([1, 1, 2, 3])
            return L.ArrayAccess(self.sym(r.choice(["FE0", "FE1", "T", "w"])),
                                 [self.index_expr(inner, outer) for _ in range(nix)])
        if c < 7:
            return self.sym(r.choice(["fw0", "fw1", "fw0", "s"]), r.choice([L.DataType.SCALAR, L.DataType.REAL]))
        if c == 7:
            return L.LiteralFloat(r.choice([1.0, 2.5, -0.5]))
        if c == 8:
            return L.LiteralInt(r.choice([1, 2, 3]))
        if c == 9:
            return r.choice([self.isym(inner), self.isym(outer)])
        if c == 10 and not self.clean:
            return r.choice([L.Neg(self.sym("fw0")), L.MathFunction("sqrt", [self.sym("s")]),
                             L.Add(self.sym("fw0"), self.sym("s")), L.Product([self.sym("fw0"), self.sym("s")])])
        return L.LiteralFloat(complex(1.0, 0.0))

    def lhs(self, inner, outer):
        r = self.rng
        i, o = self.isym(inner), self.isym(outer)
        c = r.randrange(0, 9 if self.clean else 10)
        A = self.sym("A", L.DataType.SCALAR)
        if c < 4:
            key = ("mi", inner, outer)
            if key not in self.mi_cache:
                self.mi_cache[key] = L.MultiIndex([L.Sum([o]), L.Sum([i])], [4, 4])
            return A[self.mi_cache[key]]
        if c < 6:
            return A[o, i]
        if c == 6:
            return A[i, o]
        if c == 7:
            return self.sym("B", L.DataType.SCALAR)[L.Sum([L.Mul(L.LiteralInt(4), o), i])]
        if c == 8:
            return L.ArrayAccess(self.sym("A", L.DataType.REAL), [o, i])  # same name, other dtype: == A[o, i]
        return self.sym("acc", L.DataType.SCALAR)  # not an ArrayAccess: AssertionError

    def tensor_stmt(self, inner, outer):
        r = self.rng
        c = r.randrange(3, 20) if self.clean else r.randrange(0, 20)
        nf = r.choice([1, 2, 2, 3, 3, 4] if self.clean else [0, 1, 2, 2, 3, 3, 4]) if c != 0 else 1
        fs = [self.factor(inner, outer) for _ in range(nf)]
        if nf >= 2 and r.random() < 0.3:
            fs.append(fs[0])  # the same object twice
        if nf >= 2 and r.random() < 0.2:
            fs.append(L.Symbol("fw0", L.DataType.INT))  # equal to Symbol("fw0", SCALAR)
        lhs = self.lhs(inner, outer)
        if c == 1 or not fs:
            rhs = self.sym("fw0") if not fs or r.random() < 0.5 else L.Sum(fs)  # not a Product
        else:
            rhs = L.Product(fs)
        if c == 2:
            return L.Assign(lhs, rhs)
        return L.AssignAdd(lhs, rhs)

    def bound(self, special):
        r = self.rng
        if not special:
            return 0, r.choice([1, 2, 3, 4])
        c = r.randrange(0, 6)
        if c == 0:
            return 1, 4  # begin != 0
        if c == 1:
            return 0, self.isym("n")  # no .value
        if c == 2:
            return 0, L.LiteralFloat(3.0)
        if c == 3:
            return L.Sum([self.isym("n")]), 4
        if c == 4:
            return 0, 0
        return 2, 2

    def licm_section(self):
        r = self.rng
        outer, inner = r.choice([("i", "j"), ("j", "i"), ("i0", "i1")])
        self.clean = r.random() < 0.6
        shape = r.choice([2, 8, 12, 13, 14, 15]) if self.clean else r.randrange(0, 16)
        nst = r.choice([1, 1, 2, 3, 4])
        body = [self.tensor_stmt(inner, outer) for _ in range(nst)]
        lo2, hi2 = self.bound((not self.clean) and r.random() < 0.15)
        inner_loop = L.ForRange(self.isym(inner), lo2, hi2, body)
        if shape == 0:  # a StatementList inside the inner body (only reachable by mutation)
            sl = L.StatementList([self.tensor_stmt(inner, outer)])
            sl.statements = [L.Statement(self.tensor_stmt(inner, outer)) for _ in range(r.choice([0, 2, 3]))]
            inner_loop.body.statements.insert(r.randrange(0, len(inner_loop.body.statements) + 1), sl)
        if shape == 1:  # something without .expr in the inner body
            inner_loop.body.statements.append(r.choice([
                L.Comment("c"), L.VariableDecl(self.sym("t0"), 1.0),
                L.ForRange(self.isym("k"), 0, 2, [self.tensor_stmt(inner, outer)])]))
        lo, hi = self.bound(r.random() < (0.05 if self.clean else 0.2))
        outer_body = [inner_loop]
        if shape == 2:
            outer_body.append(L.Assign(self.sym("t1"), 2.0))
        if shape == 3:
            outer_body.insert(0, L.Assign(self.sym("t1"), 2.0))  # inner_loop is not statements[0]
        if shape == 4:
            outer_body = []
        outer_loop = L.ForRange(self.isym(outer), lo, hi, outer_body)
        stmts = [outer_loop]
        if shape == 5:
            stmts = [inner_loop]  # depth 1
        if shape == 6:
            stmts = [L.ForRange(self.isym("k"), 0, 2, [outer_loop])]  # depth 3
        if shape == 7:
            stmts = []
        if shape == 8:
            stmts.append(L.Assign(self.sym("t2"), 1.0))
        if shape == 9:
            stmts.insert(0, L.Comment("first is not a loop"))
        if shape == 10:
            inner_loop.body.statements = []  # depth(...) -> max([]) -> ValueError
        ann = [L.Annotation.licm]
        if (not self.clean) and r.random() < 0.15:
            ann = r.choice([[L.Annotation.fuse, L.Annotation.licm], [], [L.Annotation.unroll, L.Annotation.licm]])
        s = L.Section(r.choice(["Tensor Computation", "Tensor Computation", "Jacobian"]), stmts, [],
                      [self.sym("fw0")], [self.sym("A")], ann)
        if shape == 11:  # a StatementList of depth 2 as first statement
            sl = L.StatementList([outer_loop])
            sl.statements = [outer_loop, L.Statement(L.Assign(self.sym("t1"), 2.0))]
            s.statements = [sl]
        return s

    def def_section(self):
        """a `Coefficient` / `Jacobian` / other section: declarations + loops + non-loop statements"""
        r = self.rng
        name = r.choice(["Coefficient", "Coefficient", "Jacobian", "Jacobian", "Other"])
        nvar = r.choice([1, 1, 2])
        decls, stmts, outs = [], [], []
        for v in range(nvar):
            w = self.sym(f"{name[0].lower()}{r.randrange(0, 4)}", L.DataType.SCALAR)
            outs.append(w)
            if r.random() < 0.85:
                decls.append(L.VariableDecl(w, 0.0) if r.random() < 0.8 else L.ArrayDecl(w, sizes=(2,), values=[0.0, 0.0]))
            nb = r.choice([1, 1, 1, 1, 2, 0])
            idx = self.isym(r.choice(["ic", "ic", "ic", "id"]))
            lo, hi = r.choice([(0, 3), (0, 3), (0, 3), (0, 2), (1, 3), (0, self.isym("n")), (0, L.Sum([self.isym("n")])),
                               (0, L.LiteralFloat(3.0)), (L.Neg(self.isym("n")), 3)])
            body = [L.AssignAdd(w, L.Mul(self.sym("w")[L.Sum([idx, L.LiteralInt(v)])], self.sym("FE1")[idx]))
                    for _ in range(nb)]
            kind = r.randrange(0, 10)
            if kind < 7:
                stmts.append(L.ForRange(idx, lo, hi, body))
            elif kind == 7:
                stmts.append(L.Assign(w, self.sym("w")[L.LiteralInt(v)]))
            elif kind == 8:
                stmts.append(L.Comment("note"))
                stmts.append(L.ForRange(idx, lo, hi, body))
            else:
                stmts.append(L.ForRange(idx, lo, hi, body))
                stmts.append(L.Assign(w, L.Mul(w, L.LiteralFloat(2.0))))
        ann = r.choice([[L.Annotation.fuse]] * 5 + [[], [L.Annotation.fuse, L.Annotation.licm], [L.Annotation.licm]])
        ins = [self.sym(n) for n in r.sample(["w", "FE1", "coordinate_dofs", "w"], r.randrange(0, 4))]
        if r.random() < 0.3:
            outs = outs + [outs[0]]
        s = L.Section(name, stmts, decls, ins, outs, ann)
        if r.random() < 0.05:
            s.declarations = list(s.declarations) + [L.Comment("not a declaration")]
        return s

    def part_list(self):
        r = self.rng
        self.mi_cache = {}
        n = r.choice([0, 1, 2, 3, 4, 5, 6])
        parts = []
        for _ in range(n):
            c = r.randrange(0, 10)
            if c < 5:
                parts.append(self.def_section())
            elif c < 8:
                parts.append(self.licm_section())
            elif c == 8:
                parts.append([])
            else:
                parts.append(L.Section("Intermediates", [L.Assign(self.sym("fw0", L.DataType.SCALAR), self.sym("s"))],
                                       [L.VariableDecl(self.sym("fw0", L.DataType.SCALAR), 0.0)], [], [], []))
        return parts


# --------------------------------------------------------------------------- the checks
def _compare(chk, d, kind, name, pre, post, exc, key, sample=False):
    want = expected_reply(post, exc)
    got = model_optimize(d, pre)
    changed = exc is not None or post != pre
    chk.case(kind, key if changed else None,
             sample={"kind": kind, "input": name, "parts": len(pre), "result": exc or "ok", "changed": changed}
             if (sample and changed and len(chk.samples) < 10) else None)
    if _norm(got) != _norm(want):
        chk.disagree("optimize(): real optimizer.py vs Lean model Ffcx.LNodes.Opt.optimize (structural)",
                     {"input_name": name, "input": pre, "impl": want[:4000], "model": got[:4000]})
        return False
    return True


def check_optimizer(chk, d, entries, n_synth=None):
    """real optimize() vs model on every captured part list + synthetic part lists"""
    caps, skipped = capture(entries)
    if skipped:
        chk.notes.setdefault("opt_skipped_entries", []).extend(skipped)
    stats = {"captured": len(caps), "unexportable": 0, "changed": 0, "licm_temps": 0}
    with _OptDriver(d) as od:
        for c in caps:
            if c.pre is None or c.post is None:
                stats["unexportable"] += 1
                chk.notes.setdefault("opt_unexportable", []).append(f"{c.name}: {c.pre_err}")
                continue
            chk.programs += 1
            if c.post != c.pre:
                stats["changed"] += 1
            if any("temp_0" in p for p in c.post):
                stats["licm_temps"] += 1
            _compare(chk, od, "optimizer_corpus", c.name, c.pre, c.post, None, c.key, sample=True)
        # synthetic
        n = n_synth if n_synth is not None else (4000 if chk.tier == "thorough" else 1200)
        g = Synth(chk.seed)
        hist = {}
        for k in range(n):
            parts = g.part_list()
            pre, post, exc, err = run_real(parts)
            if pre is None:
                hist["unexportable"] = hist.get("unexportable", 0) + 1
                continue
            hist[exc or "ok"] = hist.get(exc or "ok", 0) + 1
            key = hashlib.sha1(" ".join(pre).encode()).hexdigest()[:12]
            _compare(chk, od, "optimizer_synthetic", f"synth:{chk.seed}:{k}", pre, post, exc, (exc or "ok") + ":" + key)
        stats["synthetic"] = hist
    chk.notes["optimizer_correspondence"] = stats
    return stats


def _flag(reply, key):
    for item in reply:
        if isinstance(item, list) and item and item[0] == key:
            return item[1] == "true"
    return None


def check_certificates(chk, d, entries, caps=None):
    """The decidable side conditions of the soundness theorems on every REAL part list, and the search
    for real kernels on which check_dependency returns False for a factor that mentions the inner index."""
    if caps is None:
        caps, _ = capture(entries)
    stats = {"part_lists": 0, "cert_true": 0, "fuse_sections_needed": 0, "fuse_loops_sections": 0,
             "licm_sections": 0, "licm_hoisting_sections": 0, "candidates": 0, "missed_dependencies": 0}
    seen = set()
    with _OptDriver(d) as od:
        for c in caps:
            if c.pre is None or not c.pre:
                continue
            if c.key in seen:
                continue
            seen.add(c.key)
            stats["part_lists"] += 1
            r = od.ask("(opt_cert " + " ".join(c.pre) + ")")
            if r[0] != "ok":
                chk.disagree("optimiser certificate: driver error", {"input": c.name, "reply": r})
                continue
            ok = r[1] == "true"
            secs = [x for x in r if isinstance(x, list) and x and x[0] == "sections"][0][1:]
            nfuse = sum(1 for x in secs if _flag(x, "fuse_applies"))
            nlicm = sum(1 for x in secs if _flag(x, "licm_applies"))
            stats["fuse_loops_sections"] += nfuse
            stats["licm_sections"] += nlicm
            if sum(p.startswith("(section Coefficient ") for p in c.pre) > 1 or \
                    sum(p.startswith("(section Jacobian ") for p in c.pre) > 1:
                stats["fuse_sections_needed"] += 1
            nontriv = (nfuse or nlicm or c.post != c.pre)
            chk.case("optimiser_certificate", c.key if nontriv else None,
                     sample={"kind": "certificate", "input": c.name, "cert": ok, "fuse_loops_sections": nfuse,
                             "licm_sections": nlicm} if (nontriv and len(chk.samples) < 11) else None)
            if ok:
                stats["cert_true"] += 1
            else:
                bad = [k for k in ("fs_coefficient", "fs_jacobian", "context") if _flag(r, k) is False]
                bad += [f"{x[0]}:{k}" for x in secs for k in ("fuse_loops", "licm") if _flag(x, k) is False]
                chk.disagree("a real part list does not satisfy the certificate of optimize_sound "
                             "(side condition of the optimiser theorems fails on generated code)",
                             {"input": c.name, "failed": bad, "parts": [p[:400] for p in c.pre][:6]})
            # search: does check_dependency miss a dependency on a real kernel?
            for p in c.pre:
                if "(licm)" not in p and " licm)" not in p:
                    continue
                rr = od.ask("(licm_candidates " + p + ")")
                if rr[0] != "ok" or rr[1] == "none":
                    continue
                hoists = False
                for row in rr[2:]:
                    if row[1] == "true":
                        stats["candidates"] += 1
                        if row[2] == "true":
                            stats["missed_dependencies"] += 1
                            chk.violation("optimiser:licm:check_dependency-misses-inner-index",
                                          "check_dependency returns False for a factor of a real kernel that depends on the inner loop index; licm hoists it",
                                          {"input": c.name, "inner_index": rr[1], "factor": sexp.dumps(_requote(row[0])),
                                           "section": p[:2000]})
                if "temp_0" in " ".join(c.post or []):
                    hoists = True
                if hoists:
                    stats["licm_hoisting_sections"] += 1
    chk.notes["optimizer_certificates"] = stats
    return stats


# --------------------------------------------------------------------------- latent defects (real code)
def _exec_A(d, stmts, inputs):
    """exact (Rat) execution of a part list; returns ('ok', [A...]) or ('err', reply)"""
    r = d.ask("(exec rat (block " + " ".join(stmts) + ") (" + " ".join(inputs) + ") (A))")
    if r[0] != "ok":
        return "err", r
    return "ok", r[1][1:]


def latent_defect_inputs():
    """part lists outside what FFCx's generators emit, on which the REAL optimiser misbehaves"""
    R, S, I = L.DataType.REAL, L.DataType.SCALAR, L.DataType.INT
    i, j = L.Symbol("i", I), L.Symbol("j", I)
    A, T, fw = L.Symbol("A", S), L.Symbol("T", R), L.Symbol("fw", S)
    base_in = ["(sarr A (2) 0 0)", "(sarr T (5) 1 0 5 0 7)", "(svar fw 1)", "(ivar j 0)"]

    def nest(factors, lo=0, hi=2, jlo=0, jhi=2):
        body = [L.AssignAdd(A[i], L.Product(factors))]
        return [L.Section("Tensor Computation", [L.ForRange(i, lo, hi, [L.ForRange(j, jlo, jhi, body)])], [],
                          [fw], [A], [L.Annotation.licm])]

    cases = [
        ("licm:check_dependency-misses-binop-subscript",
         "check_dependency(T[2*j], j) is False (the subscript is a Mul, only Sum/Product args are inspected): "
         "licm hoists T[2*j] out of the j-loop and the section computes a different A",
         lambda: nest([T[L.Mul(L.LiteralInt(2), j)], fw]), base_in),
        ("licm:check_dependency-misses-nested-sum",
         "check_dependency(T[Sum(2*j, i)], j) is False (j occurs one level deeper than inspected)",
         lambda: nest([T[L.Sum([L.Mul(L.LiteralInt(2), j), i])], fw]), base_in),
        ("licm:index-symbol-as-factor",
         "check_dependency(Symbol j, j) is False: the inner index itself, used as a factor, is hoisted",
         lambda: nest([j, fw, T[L.Sum([i])]]), base_in),
        ("licm:outer-loop-begin-nonzero",
         "temp_k has size end-begin but is subscripted by the outer index: with begin=1 the pre-loop writes temp_0[2] of a 2-element array",
         lambda: nest([fw, T[L.Sum([i])], T[L.Sum([j])]], lo=1, hi=3),
         ["(sarr A (4) 0 0 0 0)", "(sarr T (5) 1 0 5 0 7)", "(svar fw 1)", "(ivar j 0)"]),
        ("licm:empty-inner-loop-evaluates-hoisted-factor",
         "with an empty inner loop the original never evaluates T[9] (out of bounds); the hoisted pre-loop does",
         lambda: nest([fw, T[L.LiteralInt(9)]], jlo=0, jhi=0), base_in),
    ]
    return cases


def check_latent_defects(chk, d):
    """Run the latent-defect inputs through the REAL optimiser and execute input and output exactly (Rat,
    Lean `exec`). Recorded in chk.notes['optimizer_latent_defects'] (none of these shapes is emitted by the
    generators of the current tree: `check_certificates` watches for that)."""
    out = []
    with _OptDriver(d) as od:
        for key, what, build, inputs in latent_defect_inputs():
            parts = build()
            pre, post, exc, err = run_real(parts)
            rec = {"key": key, "what": what, "input": pre, "real_result": exc or "ok"}
            if pre is not None and post is not None:
                # the model agrees with the real code on this input
                rec["model_agrees"] = _norm(model_optimize(od, pre)) == _norm(expected_reply(post, exc))
                cert = od.ask("(opt_cert " + " ".join(pre) + ")")
                rec["certificate"] = cert[1]
                s0, a0 = _exec_A(od, pre, inputs)
                s1, a1 = _exec_A(od, post, inputs)
                rec["A_unoptimised"] = a0 if s0 == "ok" else sexp.dumps(_requote(a0))
                rec["A_optimised"] = a1 if s1 == "ok" else sexp.dumps(_requote(a1))
                rec["differs"] = (s0, a0) != (s1, a1)
                rec["optimised"] = post
            out.append(rec)
            chk.case("optimiser_latent_defect", key)
        # crash / silent no-op of fuse_loops
        ic = L.Symbol("ic", L.DataType.INT)
        x0, x1 = L.Symbol("x0", L.DataType.REAL), L.Symbol("x1", L.DataType.REAL)
        two = L.Section("Jacobian", [L.ForRange(ic, 0, 3, [L.AssignAdd(x0, 1.0), L.AssignAdd(x1, 1.0)])],
                        [L.VariableDecl(x0, 0.0), L.VariableDecl(x1, 0.0)], [], [], [L.Annotation.fuse])
        pre, post, exc, err = run_real([two])
        out.append({"key": "fuse_loops:multi-statement-loop-body-raises",
                    "what": "fuse_loops wraps every collected body (a StatementList) in a new StatementList; as_statement accepts "
                            "a StatementList only if it has exactly one statement: a loop with two statements raises RuntimeError",
                    "input": pre, "real_result": exc or "ok",
                    "model_agrees": _norm(model_optimize(od, pre)) == _norm(expected_reply(post, exc))})
        both = L.Section("Tensor Computation",
                         [L.ForRange(L.Symbol("i", L.DataType.INT), 0, 2, [L.ForRange(L.Symbol("j", L.DataType.INT), 0, 2, [
                             L.AssignAdd(L.Symbol("A", L.DataType.SCALAR)[L.Symbol("i", L.DataType.INT)],
                                         L.Product([L.Symbol("fw", L.DataType.SCALAR), L.Symbol("s", L.DataType.SCALAR)]))])])],
                         [], [], [], [L.Annotation.fuse, L.Annotation.licm])
        pre, post, exc, err = run_real([both])
        out.append({"key": "optimize:licm-skipped-after-fuse",
                    "what": "fuse_loops returns a Section without annotations, so `licm in section.annotations` is tested on the "
                            "new section: a section annotated [fuse, licm] is never hoisted (performance only; and the nested loop "
                            "body is wrapped in a StatementList)",
                    "input": pre, "real_result": exc or "ok",
                    "hoisted": bool(post) and "temp_0" in " ".join(post),
                    "model_agrees": _norm(model_optimize(od, pre)) == _norm(expected_reply(post, exc))})
    chk.notes["optimizer_latent_defects"] = out
    return out


def main(argv=None):
    import argparse
    import time
    from .framework import Check

    ap = argparse.ArgumentParser()
    ap.add_argument("--tier", default="quick")
    ap.add_argument("--seed", type=int, default=0)
    ap.add_argument("--no-lean", action="store_true", help="skip the Lean build/axiom audit")
    a = ap.parse_args(argv)
    warnings.filterwarnings("ignore")
    chk = Check("C17opt-standalone", a.tier, a.seed)
    t0 = time.time()
    ents = default_entries(a.tier, a.seed)
    if not a.no_lean and OPT_THEOREMS:
        chk.lean(OPT_MODULE, OPT_THEOREMS, extra_files=OPT_FILES)
    check_optimizer(chk, None, ents)
    check_certificates(chk, None, ents)
    for rec in check_latent_defects(chk, None):
        print("LATENT:", {k: (v if k not in ("input", "optimised") else "…") for k, v in rec.items()})
    print("notes:", {k: v for k, v in chk.notes.items() if k != "optimizer_latent_defects"})
    print(f"evaluations={chk.evaluations} nontrivial={len(chk.nontrivial)} programs={chk.programs} "
          f"obligations={sum(1 for o in chk.obligations if o[2])}/{len(chk.obligations)} "
          f"disagreements={chk.disagreements_checked} violations={len(chk.violations)} broken={len(chk.broken)} "
          f"wall={time.time() - t0:.1f}s")
    for b in chk.broken[:5]:
        print("BROKEN:", str(b)[:3000])
    for v in chk.violations[:5]:
        print("VIOLATION:", str(v)[:3000])
    return 1 if (chk.broken or chk.violations) else 0


if __name__ == "__main__":
    raise SystemExit(main())
