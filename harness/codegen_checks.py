"""Correspondence of the codegen-cluster Lean model with the real block code generators (C01).

  lean/FfcxModel/Codegen/Block.lean  <->  ffcx/codegeneration/integral_generator.py
        genBlockParts   <->  IntegralGenerator.generate_block_parts (+ get_arg_factors, get_temp_symbol,
                             create_quadrature_index, create_dof_index, access.table_access,
                             create_nested_for_loops, as_statement, Section)
        quadLoopCode / genQuadLoop  <->  IntegralGenerator.generate_quadrature_loop (around `optimize`)
        genExprBlock    <->  ExpressionGenerator.generate_block_parts (+ symbols.element_table)

  check_blocks(chk, driver, entries)      every kernel of `entries`: each call of the real functions is
                                          intercepted; the block description (what the function reads from
                                          its arguments, the IR and the generator's caches) and the statements
                                          it returns are exported; the model is run on the description and
                                          the two statement lists are compared as s-expressions (exactly).
                                          The decidable side conditions of `genBlock_spec` are evaluated on
                                          every real description.
  check_synthetic(chk, driver, seed, n)   seeded synthetic descriptions (tensor factors, diagonal, custom
                                          integrals, "ones"/"zeros", error branches, warm fw cache, the
                                          expression generator's expand_loop) run through the REAL functions
                                          on stub generator objects, compared the same way.

`driver` is a `harness.lean.Driver("driver_codegen")`.  Nothing in /repo is modified: the observation points
are class attributes / module globals wrapped for the duration of a `with` block.
Stand-alone: `python -m harness.codegen_checks [--seed N] [--synthetic N]`.
"""
import collections
import contextlib
import random
import types
from pathlib import Path

import basix
import numpy as np
import ufl

import ffcx.codegeneration.expression_generator as EG
import ffcx.codegeneration.integral_generator as IG
import ffcx.codegeneration.lnodes as L
from ffcx.codegeneration.access import FFCXBackendAccess
from ffcx.codegeneration.definitions import FFCXBackendDefinitions
from ffcx.codegeneration.symbols import FFCXBackendSymbols
from ffcx.ir.elementtables import UniqueTableReferenceT
from ffcx.ir.integral import BlockDataT, ModifiedArgumentDataT, TensorPart
from ffcx.ir.representationutils import QuadratureRule

from . import corpus, export, pipeline, sexp
from .sexp import q

# ---- what to pass to chk.lean(CODEGEN_MODULE, CODEGEN_THEOREMS, extra_files=CODEGEN_FILES)
_LEAN = Path(__file__).resolve().parent.parent / "lean"
CODEGEN_MODULE = "FfcxProofs.C01Codegen"
CODEGEN_FILES = [str(_LEAN / f) for f in (
    "FfcxModel/Codegen/Block.lean", "FfcxModel/Codegen/Spec.lean",
    "FfcxProofs/Lemmas/CodegenAcc.lean", "FfcxProofs/Lemmas/CodegenNest.lean",
    "FfcxProofs/Lemmas/CodegenEval.lean", "FfcxProofs/Lemmas/CodegenBlock.lean",
    "FfcxProofs/Lemmas/CodegenGroup.lean",
)]
PARTITION_MODULE = "FfcxProofs.C01Partition"
PARTITION_FILES = [str(_LEAN / "FfcxModel/Codegen/Partition.lean")]
PARTITION_THEOREMS = [
    "Ffcx.Codegen.partition_ssa", "Ffcx.Codegen.uflToLnodes_sound_partial", "Ffcx.Codegen.graph_recurrence_unique",
]
# stage 2 (definitions.py / access.py; composition)
DEFS_MODULE = "FfcxProofs.C01Kernel"
DEFS_FILES = [str(_LEAN / f) for f in (
    "FfcxModel/Codegen/Definitions.lean", "FfcxProofs/Lemmas/CodegenDefs.lean", "FfcxProofs/C01Definitions.lean",
    "FfcxProofs/Lemmas/CodegenPrefix.lean",
)]
DEFS_THEOREMS = [
    "Ffcx.Codegen.scalar_accumulate", "Ffcx.Codegen.lincombSection_spec", "Ffcx.Codegen.coeff_lincomb",
    "Ffcx.Codegen.coord_lincomb", "Ffcx.Codegen.coeff_isDef", "Ffcx.Codegen.coord_isDef", "Ffcx.Codegen.defs_run",
    "Ffcx.Codegen.ssa_values_agree", "Ffcx.Codegen.prefix_run", "Ffcx.Codegen.post_values_agree",
    "Ffcx.Codegen.kernel_meets_spec_defs_partial",
]
# stage 2 (C10): diagonal and tensor-factorised groups
C10_MODULE = "FfcxProofs.C10Codegen"
C10_FILES = [str(_LEAN / f) for f in (
    "FfcxProofs/Lemmas/CodegenDiag.lean", "FfcxProofs/Lemmas/CodegenBox.lean", "FfcxProofs/Lemmas/CodegenTensor.lean",
)]
C10_THEOREMS = [
    "Ffcx.Codegen.genBlock_diagonal_spec", "Ffcx.Codegen.diagonal_of_full",
    "Ffcx.Codegen.nestSum_eq_boxSum", "Ffcx.Codegen.boxSum_flatten",
    "Ffcx.Codegen.genBlock_tensor_spec", "Ffcx.Codegen.tensor_equals_full",
    "Ffcx.Codegen.genBlock_tensor_spec1", "Ffcx.Codegen.tensor_equals_full1",
    "Ffcx.Codegen.famNamesOk_2", "Ffcx.Codegen.famNamesOk_3",
    # stage 3: blocked / mixed spaces, Boolean check => hypotheses, rounding
    "Ffcx.Codegen.diagonal_of_full_filtered", "Ffcx.Codegen.C10Example.diagonal_filter_overlap_counterexample",
    "Ffcx.Codegen.tensorGroupB_sound", "Ffcx.Codegen.tensor_near_full",
]
# stage 3 (C01): the independent specification `quadSpec` and the composition with it
SPEC_MODULE = "FfcxProofs.C01Link"
SPEC_FILES = [str(_LEAN / f) for f in (
    "FfcxModel/Codegen/SpecLink.lean", "FfcxProofs/C01Spec.lean",
)]
SPEC_THEOREMS = [
    # FfcxProofs/C01Spec.lean
    "Ffcx.Codegen.kernel_meets_spec", "Ffcx.Codegen.kernel_meets_spec_linked", "Ffcx.Codegen.partition_values_partial",
    "Ffcx.Codegen.fw_is_factor", "Ffcx.Codegen.val_of_graphEquiv",
    # FfcxProofs/C01Link.lean: Boolean checks => Prop hypotheses, translation validation of the partition
    "Ffcx.Codegen.exprEqB_sound", "Ffcx.Codegen.nodeEqB_sound", "Ffcx.Codegen.cone_values",
    "Ffcx.Codegen.fwFactorB_sound", "Ffcx.Codegen.hphi_of_links",
    "Ffcx.Codegen.groupsOkB_sound", "Ffcx.Codegen.rank2GroupsB_sound", "Ffcx.Codegen.prefixOkB_sound",
    "Ffcx.Codegen.argLinkB_sound", "Ffcx.Codegen.argOk_of_extents",
    "Ffcx.Codegen.kernel_meets_spec_checked", "Ffcx.Codegen.LinkExample.applies",
]
CODEGEN_FILES = [str(_LEAN / f) for f in (
    "FfcxModel/Codegen/Block.lean", "FfcxModel/Codegen/Spec.lean",
    "FfcxProofs/Lemmas/CodegenAcc.lean", "FfcxProofs/Lemmas/CodegenNest.lean",
    "FfcxProofs/Lemmas/CodegenEval.lean", "FfcxProofs/Lemmas/CodegenBlock.lean",
    "FfcxProofs/Lemmas/CodegenGroup.lean",
)]
CODEGEN_THEOREMS = [
    # reusable loop rules (any trip counts, any terms)
    "Ffcx.Codegen.forRange_accumulate", "Ffcx.Codegen.nest_accumulate",
    # the generated "Tensor Computation" section: any description / closed form for regular groups
    "Ffcx.Codegen.genBlock_nest", "Ffcx.Codegen.genBlock_spec", "Ffcx.Codegen.genBlock_entry_spec",
    "Ffcx.Codegen.emittedTerms_perm",
    # the quadrature loop as handed to optimize
    "Ffcx.Codegen.groups_spec", "Ffcx.Codegen.quadLoop_spec", "Ffcx.Codegen.fwAssigns_spec",
    "Ffcx.Codegen.fw_value", "Ffcx.Codegen.kernel_meets_spec_partial",
    "Ffcx.Codegen.Example.lawful",
]


# ====================================================================================== export
def stmt_o(s) -> str:
    """`export.stmt`, but a Section keeps the ORDER of its input/output lists (the generator orders the
    inputs by first occurrence) and lists go through the real `as_statement`."""
    if isinstance(s, list):
        return stmt_o(L.as_statement(s))
    t = type(s)
    if t is L.Section:
        decls = " ".join(stmt_o(d) for d in s.declarations)
        stmts = " ".join(stmt_o(b) for b in s.statements)
        inp = " ".join(w.name for w in s.input)
        out = " ".join(w.name for w in s.output)
        ann = " ".join(a.name for a in s.annotations)
        return f"(section {q(s.name)} ({decls}) ({stmts}) ({inp}) ({out}) ({ann}))"
    if t is L.ForRange:
        if not isinstance(s.index, L.Symbol):
            raise export.ExportError("ForRange index is not a Symbol")
        body = " ".join(stmt_o(b) for b in s.body.statements)
        return f"(for {s.index.name} {export.expr(s.begin)} {export.expr(s.end)} {body})"
    if t is L.StatementList:
        return "(block " + " ".join(stmt_o(b) for b in s.statements) + ")"
    return export.stmt(s)


def _restr(r):
    return {None: "none", "+": "plus", "-": "minus"}[r]


def _b(x):
    return "true" if x else "false"


def tref_sx(td):
    if td.tensor_factors is None:
        fac = "none"
    else:
        fac = "(" + " ".join(f"({f.name} {int(f.values.shape[-1])})" for f in td.tensor_factors) + ")"
    if td.offset is None or td.block_size is None:
        raise export.ExportError("table reference without offset/block_size")
    return (f"(tref {td.name} {td.ttype} {int(td.values.shape[-1])} {int(td.offset)} {int(td.block_size)} "
            f"{_b(td.is_permuted)} {fac})")


def rule_sx(rule):
    hash(rule)  # `id()` needs `hash_obj`
    fac = "none"
    if rule.has_tensor_factors:
        fac = "(" + " ".join(str(int(f[1].size)) for f in rule.tensor_factors) + ")"
    return f"(rule {rule.id()} {int(rule.weights.size)} {fac})"


def state_sx(gen):
    ents = []
    for key, sym in gen.temp_symbols.items():
        if key[0] != "fw":
            raise export.ExportError(f"temp symbol family {key[0]}")
        _, rule, fi, afp = key
        hash(rule)
        ents.append(f"({rule.id()} {int(fi)} {_b(afp)} {sym.name})")
    return f"(state ({' '.join(ents)}) {int(gen.symbol_counters.get('fw', 0))})"


def group_sx(gen, rule, domain, blockmap, blocklist):
    """The description of one `IntegralGenerator.generate_block_parts` call."""
    ex = gen.ir.expression
    integrand = ex.integrand[(domain, rule)]
    blocks = []
    for bd in blocklist:
        args = []
        for mad in bd.ma_data:
            mt = integrand["modified_arguments"][mad.ma_index]
            args.append(f"(arg {tref_sx(mad.tabledata)} {_restr(mt.restriction)})")
        fcs = bd.factor_indices_comp_indices
        fi = int(fcs[0][0]) if fcs else 0
        if fcs:
            f = gen.get_var(rule, domain, integrand["factorization"].nodes[fi]["expression"])
            if f is None:
                raise export.ExportError("factor without access expression")
            fx = export.expr(f)
        else:
            fx = "(li 0)"
        ma = " ".join(str(int(mad.ma_index)) for mad in bd.ma_data)
        blocks.append(f"(block ({' '.join(bd.ttypes)}) ({' '.join(args)}) {len(fcs)} {fi} "
                      f"{_b(bd.all_factors_piecewise)} {_b(bd.transposed)} {fx} ({ma}))")
    return (f"(group {rule_sx(rule)} {_b(ex.integral_type in ufl.custom_integral_types)} {q(str(ex.entity_type))} "
            f"{_b(gen.ir.part == TensorPart.diagonal)} ({' '.join(str(int(n)) for n in ex.tensor_shape)}) "
            f"({' '.join(str(len(b)) for b in blockmap)}) ({' '.join(blocks)}))")


def eblock_sx(gen, blockmap, bd):
    """The description of one `ExpressionGenerator.generate_block_parts` call."""
    ex = gen.ir.expression
    integrand = ex.integrand[gen.quadrature_rule]
    args = []
    for mad in bd.ma_data:
        mt = integrand["modified_arguments"][mad.ma_index]
        td = mad.tabledata
        # the expression generator reads neither offset nor block size of the table reference
        td0 = td._replace(offset=0 if td.offset is None else td.offset,
                          block_size=1 if td.block_size is None else td.block_size)
        args.append(f"(arg {tref_sx(td0)} {_restr(mt.restriction)})")
    fcs = []
    for fi, ci in bd.factor_indices_comp_indices:
        f = gen.get_var(integrand["factorization"].nodes[fi]["expression"])
        if f is None:
            raise export.ExportError("factor without access expression")
        fcs.append(f"({export.expr(f)} {int(ci)})")
    bm = " ".join("(" + " ".join(str(int(i)) for i in b) + ")" for b in blockmap)
    return (f"(eblock ({bm}) ({' '.join(bd.ttypes)}) ({' '.join(args)}) {q(str(ex.entity_type))} {_b(bd.transposed)} "
            f"({' '.join(fcs)}) {int(gen.quadrature_rule[1].points.shape[0])} {int(ufl.product(ex.shape))} "
            f"({' '.join(str(int(n)) for n in ex.tensor_shape)}))")


def _domain_of(terminal):
    try:
        return ufl.domain.extract_unique_domain(terminal)
    except Exception:  # noqa: BLE001
        return None


def mt_sx(mt):
    """What the access/definition handlers read of a ModifiedTerminal."""
    T = type(mt.terminal)
    mro = [c.__name__ for c in T.__mro__]
    bases, t = [T.__name__], T
    while t.__bases__:
        t = t.__bases__[0]
        bases.append(t.__name__)
    dom = _domain_of(mt.terminal)
    gdim = int(dom.geometric_dimension) if dom is not None else 0
    cell = dom.ufl_cell().cellname if dom is not None else "none"
    av = "none" if mt.averaged is None else q(str(mt.averaged))
    ints = lambda xs: "(" + " ".join(str(int(x)) for x in xs) + ")"  # noqa: E731
    aux = []
    try:  # coordinate-element data `cell_vertices` / `cell_edge_vectors` look up (Basix data, an input of the model)
        if T.__name__ in ("CellVertices", "CellEdgeVectors"):
            (se,) = set(dom.ufl_coordinate_element().sub_elements)
            vd = se.entity_dofs[0]
            if T.__name__ == "CellVertices":
                aux = [vd[mt.component[0]][0]]
            else:
                v0, v1 = se.reference_topology[1][mt.component[0]]
                aux = [vd[v0][0], vd[v1][0]]
    except Exception:  # noqa: BLE001
        aux = []
    return (f"(mt ({' '.join(mro)}) ({' '.join(bases)}) {av} {_restr(mt.restriction)} {ints(mt.global_derivatives)} "
            f"{ints(mt.local_derivatives)} {gdim} {ints(mt.component)} {int(mt.flat_component)} {q(cell)} {ints(aux)})")


def ctx_sx(symbols, entity_type, integral_type, mt, rule):
    """What the handlers read of the backend (before the call: `domain_numbers` is updated by it)."""
    def opt(d):
        try:
            v = d.get(mt.terminal)
        except TypeError:
            v = None
        return "none" if v is None else str(int(v))
    dom = _domain_of(mt.terminal)
    jnum = symbols.domain_numbers.get(dom, len(symbols.domain_numbers)) if dom is not None else 0
    try:
        nsd = int(dom.ufl_coordinate_element()._sub_element.dim)
    except Exception:  # noqa: BLE001
        nsd = 0
    r = rule_sx(rule) if isinstance(rule, QuadratureRule) else "none"
    return (f"(ctx {q(str(entity_type))} {_b(integral_type in ufl.custom_integral_types)} {r} "
            f"{opt(symbols.coefficient_numbering)} {opt(symbols.coefficient_offsets)} "
            f"{opt(symbols.original_constant_offsets)} {int(jnum)} {nsd})")


def msym_sx(a):
    if isinstance(a, (int, np.integer)) and not isinstance(a, (bool, np.bool_)):
        return f"(py {int(a)})"
    return export.expr(a)


_EXC = {"RuntimeError", "AssertionError", "IndexError", "TypeError", "AttributeError", "UnboundLocalError", "KeyError",
        "NotImplementedError"}


def tensor_table_error(td):
    """max |T[p][e][flat(q)][flat(i)] - prod_d TF_d[0][0][q_d][i_d]| over all entries of a tensor-factorised table
    reference (the hypothesis `TPTables` of `tensor_equals_full`), and the table's scale."""
    fs = td.tensor_factors
    prod = np.ones((1,) * 0)
    # outer product over factors: axes (q_0, i_0, q_1, i_1, ...)
    prod = np.array(1.0)
    for f in fs:
        prod = np.multiply.outer(prod, np.asarray(f.values)[0, 0])
    D = len(fs)
    # reorder to (q_0..q_{D-1}, i_0..i_{D-1}) and flatten row-major
    prod = np.transpose(prod, [2 * d for d in range(D)] + [2 * d + 1 for d in range(D)])
    nq = int(np.prod(prod.shape[:D]))
    nd = int(np.prod(prod.shape[D:]))
    prod = prod.reshape(nq, nd)
    full = np.asarray(td.values)
    if full.shape[2:] != (nq, nd):
        return float("inf"), 1.0
    err = 0.0
    for p_ in range(full.shape[0]):
        for e_ in range(full.shape[1]):
            err = max(err, float(np.abs(full[p_, e_] - prod).max()))
    return err, max(1.0, float(np.abs(full).max()))


def _contract_bounds(entity_type, integral_type, celltype):
    """(number of entities `entity_local_index` ranges over, number of quadrature permutations) — the
    contract of `tabulate_tensor` (ufcx.h), from the reference cell alone."""
    top = basix.topology(celltype)
    tdim = len(top) - 1
    n_ent = {"cell": 1, "facet": len(top[tdim - 1]) if tdim >= 1 else 1, "vertex": len(top[0]),
             "ridge": len(top[tdim - 2]) if tdim >= 2 else 1}.get(entity_type, 1)
    n_perm = 1
    if integral_type == "interior_facet":
        if tdim == 2:
            n_perm = 2
        elif tdim == 3:
            n_perm = max(2 * len(f) for f in top[2])   # triangle facets: 6, quadrilateral facets: 8
    elif entity_type == "ridge" and tdim == 3:
        n_perm = 2
    return n_ent, n_perm


def _exc_name(ex):
    n = type(ex).__name__
    return n if n in _EXC else f"other:{n}"


# ===================================================================================== capture
@contextlib.contextmanager
def capture():
    """Record every call of the block generators and of `generate_quadrature_loop`.

    Yields a list of records:
      {"kind": "group", "desc", "state", "real": ("ok", [quadparts], [intermediates], state') | ("raise", E)}
      {"kind": "eblock", "desc", "real": ("ok", [quadparts]) | ("raise", E)}
      {"kind": "quadloop", "rule", "defs", "inter0", "tc", "fw", "code_in", "code_out", "loop", "groups": [indices]}
    Everything is exported at call time (the optimiser later mutates the returned Section objects).
    """
    recs = []
    o_gbp, o_ebp = IG.IntegralGenerator.generate_block_parts, EG.ExpressionGenerator.generate_block_parts
    o_gql, o_gvp = IG.IntegralGenerator.generate_quadrature_loop, IG.IntegralGenerator.generate_varying_partition
    o_gdp, o_opt = IG.IntegralGenerator.generate_dofblock_partition, IG.optimize
    o_igp, o_egp = IG.IntegralGenerator.generate_partition, EG.ExpressionGenerator.generate_partition
    cur = []  # stack of open quadloop records

    def acc(a):
        """An access as `get_var` returns it: an LNodes expression or a plain Python int."""
        if isinstance(a, (int, np.integer)) and not isinstance(a, (bool, np.bool_)):
            return f"(py {int(a)})"
        return export.expr(a)

    def partition_rec(integral, gen, symbol, F, mode, lookup, run):
        """Describe a `generate_partition` call (before), run it, complete the description (after)."""
        rec = {"kind": "partition", "integral": integral, "symbol": symbol.name, "Fobj": F, "gen": id(gen)}
        pre = {}
        try:
            for i, attr in F.nodes.items():
                v = attr["expression"]
                if not v._ufl_is_literal_:
                    a = lookup(v)
                    if a is not None:
                        pre[i] = acc(a)
        except export.ExportError as ex:
            rec["unexportable"] = str(ex)
        try:
            r = run()
        except Exception as ex:
            rec["real"] = ("raise", _exc_name(ex))
            rec.setdefault("unexportable", "raised before the description was complete")
            recs.append(rec)
            raise
        try:
            nodes, post = [], {}
            for i, attr in F.nodes.items():
                v = attr["expression"]
                active = attr["status"] == mode
                if v._ufl_is_literal_:
                    kind = f"(literal {export.expr(L.ufl_to_lnodes(v))})"
                elif attr.get("mt"):
                    a = lookup(v)
                    # an inactive, never-defined terminal has no access: it cannot be an operand here
                    kind = f"(terminal {acc(a) if a is not None else '(li 0)'})"
                    if a is not None:
                        post[i] = acc(a)
                else:
                    ops = " ".join(str(int(F.e2i[o])) for o in v.ufl_operands)
                    kind = f"(operator {type(v).__name__} {v._ufl_handler_name_} ({ops}))"
                    a = lookup(v)
                    if a is not None:
                        post[i] = acc(a)
                nodes.append(f"(pnode {int(i)} {_b(active)} {kind})")
            rec["nodes"], rec["pre"], rec["post"] = nodes, pre, post
            inter = r[1] if integral else [s_ for s_ in r if isinstance(s_, L.VariableDecl) and
                                           s_.symbol.name.startswith(symbol.name + "_")]
            rec["real"] = ("ok", [stmt_o(s_) for s_ in inter])
        except (export.ExportError, KeyError) as ex:
            rec["unexportable"] = f"{type(ex).__name__}: {ex}"
        recs.append(rec)
        return r

    def igp(self, symbol, F, mode, quadrature_rule, domain):
        return partition_rec(True, self, symbol, F, mode, lambda v: self.get_var(quadrature_rule, domain, v),
                             lambda: o_igp(self, symbol, F, mode, quadrature_rule, domain))

    def egp(self, symbol, F, mode):
        # the expression generator never tests its cache, but operands are looked up in `self.scope`
        return partition_rec(False, self, symbol, F, mode, lambda v: self.scope.get(v),
                             lambda: o_egp(self, symbol, F, mode))

    def gbp(self, quadrature_rule, domain, blockmap, blocklist):
        rec = {"kind": "group", "bmkey": tuple(tuple(int(i) for i in b) for b in blockmap)}
        try:
            rec["desc"] = group_sx(self, quadrature_rule, domain, blockmap, blocklist)
            rec["state"] = state_sx(self)
        except export.ExportError as ex:
            rec["unexportable"] = str(ex)
        try:  # the real (unscaled) blockmap tuples of every block of the group
            bc = self.ir.expression.integrand[(domain, quadrature_rule)].get("block_contributions", {})
            maps = []
            for bd in blocklist:
                bm = next((k for k, lst in bc.items() if any(bd is y for y in lst)), None)
                maps.append(bm)
            if all(m is not None for m in maps) and maps:
                rec["blockmaps"] = "(" + " ".join(
                    "(" + " ".join("(" + " ".join(str(int(i)) for i in r) + ")" for r in m) + ")" for m in maps) + ")"
        except Exception as ex:  # noqa: BLE001
            rec["blockmaps_error"] = f"{type(ex).__name__}: {ex}"
        try:  # numeric check of the tensor-product hypothesis on every tensor-factorised argument table
            tp = [tensor_table_error(mad.tabledata) + (mad.tabledata.name,) for bd in blocklist for mad in bd.ma_data
                  if mad.tabledata.tensor_factors is not None]
            if tp:
                rec["tp_tables"] = tp
        except Exception as ex:  # noqa: BLE001
            rec["tp_tables_error"] = f"{type(ex).__name__}: {ex}"
        try:
            r = o_gbp(self, quadrature_rule, domain, blockmap, blocklist)
        except Exception as ex:
            rec["real"] = ("raise", _exc_name(ex))
            recs.append(rec)
            raise
        try:
            rec["real"] = ("ok", [stmt_o(s) for s in r[0]], [stmt_o(s) for s in r[1]], state_sx(self))
        except export.ExportError as ex:
            rec["unexportable"] = str(ex)
        if cur:
            cur[-1]["groups"].append(len(recs))
        recs.append(rec)
        return r

    def ebp(self, blockmap, blockdata):
        rec = {"kind": "eblock"}
        try:
            rec["desc"] = eblock_sx(self, blockmap, blockdata)
        except export.ExportError as ex:
            rec["unexportable"] = str(ex)
        try:
            r = o_ebp(self, blockmap, blockdata)
        except Exception as ex:
            rec["real"] = ("raise", _exc_name(ex))
            recs.append(rec)
            raise
        try:
            assert r[0] == []
            rec["real"] = ("ok", [stmt_o(s) for s in r[1]])
        except export.ExportError as ex:
            rec["unexportable"] = str(ex)
        recs.append(rec)
        return r

    def gvp(self, quadrature_rule, domain):
        r = o_gvp(self, quadrature_rule, domain)
        if cur:
            try:
                cur[-1]["defs"] = [stmt_o(s) for s in r[0]]
                cur[-1]["inter0"] = [stmt_o(s) for s in r[1]]
            except export.ExportError as ex:
                cur[-1]["unexportable"] = str(ex)
        return r

    def gdp(self, quadrature_rule, domain):
        r = o_gdp(self, quadrature_rule, domain)
        if cur:
            try:
                cur[-1]["tc"] = [stmt_o(s) for s in r[0]]
                cur[-1]["fw"] = [stmt_o(s) for s in r[1]]
            except export.ExportError as ex:
                cur[-1]["unexportable"] = str(ex)
        return r

    def opt(code, quadrature_rule):
        rec = cur[-1] if cur else None
        if rec is not None and "tc" in rec and "code_in" not in rec:
            try:
                rec["code_in"] = [stmt_o(s) for s in code]
            except export.ExportError as ex:
                rec["unexportable"] = str(ex)
            r = o_opt(code, quadrature_rule)
            try:
                rec["code_out"] = [stmt_o(s) for s in r]
            except export.ExportError as ex:
                rec["unexportable"] = str(ex)
            return r
        return o_opt(code, quadrature_rule)

    def gql(self, quadrature_rule, domain):
        rec = {"kind": "quadloop", "groups": [], "rule": rule_sx(quadrature_rule), "gen": id(self)}
        try:  # what the IR attaches to the modified arguments (for the specification link)
            integrand = self.ir.expression.integrand[(domain, quadrature_rule)]
            rec["Fobj"] = integrand["factorization"]
            rec["entity_type"] = str(self.ir.expression.entity_type)
            tab = []
            for p_, mt in enumerate(integrand["modified_arguments"]):
                tr = rec["Fobj"].nodes[p_]["tr"]
                tab.append(f"({p_} (arg {tref_sx(tr)} {_restr(mt.restriction)}) {int(tr.values.shape[-1])} {int(mt.terminal.number())})")
            rec["argtab"] = "(" + " ".join(tab) + ")"
        except Exception as ex:  # noqa: BLE001
            rec["argtab_error"] = f"{type(ex).__name__}: {ex}"
        if getattr(quadrature_rule, "has_tensor_factors", False):
            rec["tp_rule"] = quadrature_rule
        cur.append(rec)
        try:
            r = o_gql(self, quadrature_rule, domain)
        finally:
            cur.pop()
        try:
            rec["loop"] = [stmt_o(s) for s in r]
        except export.ExportError as ex:
            rec["unexportable"] = str(ex)
        try:  # the accesses `get_var` returns after the partitions; table shapes; contract bounds
            F = rec["Fobj"]
            acc_tab, shapes = [], {}
            for i, attr in F.nodes.items():
                a = self.get_var(quadrature_rule, domain, attr["expression"])
                if a is not None and not isinstance(a, (int, np.integer)):
                    try:
                        acc_tab.append(f"({int(i)} {export.expr(a)})")
                    except export.ExportError:
                        pass
                tr = attr.get("tr")
                if tr is not None and getattr(tr, "values", None) is not None and tr.values.ndim == 4:
                    shapes[tr.name] = tuple(int(d) for d in tr.values.shape)
            rec["access"] = "(" + " ".join(acc_tab) + ")"
            rec["shapes"] = "(" + " ".join(f"({q(n)} ({' '.join(map(str, sh))}))" for n, sh in shapes.items()) + ")"
            rec["bounds"] = _contract_bounds(str(self.ir.expression.entity_type),
                                             str(self.ir.expression.integral_type), domain)
        except Exception as ex:  # noqa: BLE001
            rec["access_error"] = f"{type(ex).__name__}: {ex}"
        recs.append(rec)
        return r

    IG.IntegralGenerator.generate_block_parts, EG.ExpressionGenerator.generate_block_parts = gbp, ebp
    IG.IntegralGenerator.generate_quadrature_loop, IG.IntegralGenerator.generate_varying_partition = gql, gvp
    IG.IntegralGenerator.generate_dofblock_partition, IG.optimize = gdp, opt
    o_aget, o_dget = FFCXBackendAccess.get, FFCXBackendDefinitions.get

    def aget(self, mt, tabledata, quadrature_rule):
        rec = {"kind": "access"}
        try:
            rec["req"] = (f"(gen_access {ctx_sx(self.symbols, self.entity_type, self.integral_type, mt, quadrature_rule)} "
                          f"{mt_sx(mt)} {'none' if tabledata is None else tref_sx(tabledata)})")
            rec["cls"] = type(mt.terminal).__name__
        except export.ExportError as ex:
            rec["unexportable"] = str(ex)
        try:
            r = o_aget(self, mt, tabledata, quadrature_rule)
        except Exception as ex:
            rec["real"] = ("raise", _exc_name(ex))
            recs.append(rec)
            raise
        try:
            rec["real"] = ("ok", [msym_sx(r)])
        except export.ExportError as ex:
            rec["unexportable"] = str(ex)
        recs.append(rec)
        return r

    def dget(self, mt, tabledata, quadrature_rule, access):
        rec = {"kind": "definition"}
        try:
            rec["req"] = (f"(gen_definition {ctx_sx(self.symbols, self.entity_type, self.integral_type, mt, quadrature_rule)} "
                          f"{mt_sx(mt)} {'none' if tabledata is None else tref_sx(tabledata)} {msym_sx(access)})")
            rec["cls"] = type(mt.terminal).__name__
        except export.ExportError as ex:
            rec["unexportable"] = str(ex)
        try:
            r = o_dget(self, mt, tabledata, quadrature_rule, access)
        except Exception as ex:
            rec["real"] = ("raise", _exc_name(ex))
            recs.append(rec)
            raise
        try:
            rec["real"] = ("ok", [stmt_o(r)] if isinstance(r, L.Section) else [stmt_o(x) for x in r])
            rec["section"] = isinstance(r, L.Section)
            if rec["section"] and cur and isinstance(access, L.Symbol):
                cur[-1].setdefault("dnames", [])
                if access.name not in cur[-1]["dnames"]:
                    cur[-1]["dnames"].append(access.name)
        except export.ExportError as ex:
            rec["unexportable"] = str(ex)
        recs.append(rec)
        return r

    FFCXBackendAccess.get, FFCXBackendDefinitions.get = aget, dget
    IG.IntegralGenerator.generate_partition, EG.ExpressionGenerator.generate_partition = igp, egp
    try:
        yield recs
    finally:
        FFCXBackendAccess.get, FFCXBackendDefinitions.get = o_aget, o_dget
        IG.IntegralGenerator.generate_partition, EG.ExpressionGenerator.generate_partition = o_igp, o_egp
        IG.IntegralGenerator.generate_block_parts, EG.ExpressionGenerator.generate_block_parts = o_gbp, o_ebp
        IG.IntegralGenerator.generate_quadrature_loop, IG.IntegralGenerator.generate_varying_partition = o_gql, o_gvp
        IG.IntegralGenerator.generate_dofblock_partition, IG.optimize = o_gdp, o_opt


# ================================================================================= comparison
def _sl(xs):
    return [sexp.loads(x) for x in xs]


def _inc(stats, table, key):
    d = stats.setdefault(table, {})
    d[str(key)] = d.get(str(key), 0) + 1


def _branch(desc):
    """(rank, ttypes, flags) of a group/eblock description: the coverage key."""
    d = sexp.loads(desc)
    if d[0] == "group":
        blocks = d[7]
        tts = sorted({tuple(b[1]) for b in blocks})
        flags = []
        if d[4] == "true":
            flags.append("diagonal")
        if d[2] == "true":
            flags.append("custom")
        if d[1][3] != "none":
            flags.append("tp-rule")
        if any(a[1][7] != "none" for b in blocks for a in b[2]):
            flags.append("tp-table")
        if any(a[1][6] == "true" for b in blocks for a in b[2]):
            flags.append("permuted")
        if len(blocks) > 1:
            flags.append("multi")
        if any(b[7][0] in ("lf", "li", "lc") for b in blocks):
            flags.append("literal-f")
        return ("int", len(d[6]), d[3], tuple(tts), tuple(flags))
    return ("expr", len(d[1]), d[4], (tuple(d[2]),), ("multi",) if len(d[6]) > 1 else ())


def compare_record(chk, driver, rec, origin, stats, wf=True):
    """Run the model on one captured record and compare. Returns True iff it agrees."""
    if rec["kind"] == "facts":
        return True
    if "unexportable" in rec:
        stats["unexportable"] = stats.get("unexportable", 0) + 1
        chk.notes.setdefault("codegen_unexportable", []).append(f"{origin}: {rec['unexportable']}"[:160])
        return True
    kind = rec["kind"]
    ok = True

    def bad(what, model, impl, inp):
        nonlocal ok
        ok = False
        chk.disagree(f"codegen model vs real generator: {what}", {"origin": origin, "input": inp, "model": model, "impl": impl})

    if kind in ("group", "eblock"):
        if kind == "group":
            req = f"(gen_block_parts {rec['desc']} {rec['state']})"
        else:
            req = f"(gen_expr_block {rec['desc']})"
        rep = driver.ask(req)
        real = rec["real"]
        br = _branch(rec["desc"])
        _inc(stats, "branches" if wf else "synthetic_calls", br)
        chk.case(kind=f"codegen_{kind}", key=f"{br}" if real[0] == "ok" else f"{br}:raise:{real[1]}")
        if rep[0] == "error":
            bad("driver error", rep, real[0], req)
        elif real[0] == "raise":
            if rep != ["raise", real[1]]:
                bad(f"{kind}: exception", rep, list(real), req)
        elif rep[0] != "ok":
            bad(f"{kind}: model raises, real code returns", rep, real[1][:1], req)
        elif kind == "group":
            if rep[1] != _sl(real[1]):
                bad("generate_block_parts: quadparts", rep[1], _sl(real[1]), req)
            if rep[2] != _sl(real[2]):
                bad("generate_block_parts: intermediates", rep[2], _sl(real[2]), req)
            if rep[3] != sexp.loads(real[3]):
                bad("generate_block_parts: fw cache after the call", rep[3], sexp.loads(real[3]), req)
            if wf and "tp_tables_error" in rec:
                chk.notes.setdefault("codegen_tp_tables_errors", []).append(f"{origin}: {rec['tp_tables_error']}"[:200])
            if wf and rec.get("tp_tables"):
                _inc(stats, "tensor_tables", "groups")
                for err, scale, name in rec["tp_tables"]:
                    okt = err <= 1e-10 * scale
                    _inc(stats, "tensor_tables", "tables_ok" if okt else "tables_bad")
                    stats["tensor_tables_maxerr"] = max(stats.get("tensor_tables_maxerr", 0.0), err / scale)
                    if not okt:
                        bad("tensor-factorised table is not the tensor product of its factor tables (hypothesis TPTables)",
                            f"max error {err}", name, req[:2000])
            if wf and rec.get("blockmaps"):
                bmr = driver.ask(f"(blockmap_check {rec['desc']} {rec['blockmaps']})")
                _inc(stats, "blockmaps", "arithmetic_progression" if bmr == ["ok", "true"] else "other")
                if bmr != ["ok", "true"] and sexp.loads(rec["desc"])[4] != "true":
                    bad("real blockmap is not offset + block_size*range(ndofs) of the block's table references",
                        bmr, rec["blockmaps"], req[:3000])
            if wf:
                j_ = "(" + " ".join(real[1]) + ")"
                for sd in (chk.seed if hasattr(chk, "seed") else 1, 7919):
                    ex_ = driver.ask(f"(block_exec {rec['desc']} {rec['state']} {j_} {int(sd) % 100000})")
                    if ex_[0] == "skip":
                        _inc(stats, "exec_vs_spec", "no-closed-form")
                        break
                    _inc(stats, "exec_vs_spec", f"{ex_[2]}:{ex_[1]}" if ex_[0] == "ok" else "driver-error")
                    if ex_[0] != "ok" or ex_[1] != "equal":
                        bad("exact execution (Rat) of the real block statements differs from the closed-form specification",
                            ex_[:5], "real statements", req[:3000])
                        break
            if wf:
                w = driver.ask(f"(block_wf {rec['desc']} {rec['state']})")
                flags = {k: v for k, v in w[1:]} if w[0] == "ok" else {}
                for k, v in flags.items():
                    _inc(stats, "side_conditions", f"{k}={v}")
                covered = flags.get("regular") == "true"
                diag = flags.get("diagonal") == "true" and flags.get("names") == "true"
                tens = flags.get("tensor") == "true"
                _inc(stats, "side_conditions", "covered_by_genBlock_spec" if covered else
                     "covered_by_genBlock_diagonal_spec" if diag else
                     "covered_by_genBlock_tensor_spec" if tens else "outside_closed_forms")
                if diag and flags.get("coincident") == "true" and flags.get("injective") == "true":
                    _inc(stats, "side_conditions", "diagonal_of_full_applies")
                if covered and not (flags.get("names") == "true" and flags.get("covers") == "true"):
                    # a block of the regular shape violating no-aliasing / extent: the theorem does not apply
                    chk.disagree("side condition of genBlock_spec fails on a real block",
                                 {"origin": origin, "input": req, "model": flags, "impl": "generated by FFCx"})
                    ok = False
        else:
            if rep[1:] != _sl(real[1]):
                bad("ExpressionGenerator.generate_block_parts: quadparts", rep[1:], _sl(real[1]), req)
    elif kind in ("access", "definition"):
        rep = driver.ask(rec["req"])
        real = rec["real"]
        if rep == ["raise", "Unmodelled"]:
            _inc(stats, "terminal_handlers" if wf else "synthetic_calls", f"{kind}:{rec['cls']}:unmodelled")
            return True
        tag = "section" if rec.get("section") else ("ok" if real[0] == "ok" else f"raise:{real[1]}")
        _inc(stats, "terminal_handlers" if wf else "synthetic_calls", f"{kind}:{rec['cls']}:{tag}")
        chk.case(kind=f"codegen_{kind}", key=f"{kind}:{rec['cls']}:{tag}:{hash(rec['req']) % 10007}" if rec.get("section") else None)
        if rep[0] == "error":
            bad(f"{kind}: driver error", rep, real[0], rec["req"])
        elif real[0] == "raise":
            if rep != ["raise", real[1]]:
                bad(f"{kind}: exception", rep, list(real), rec["req"])
        elif rep[0] != "ok" or rep[1:] != _sl(real[1]):
            bad(f"codegeneration.{kind}: returned " + ("section" if kind == "definition" else "access expression"),
                rep, _sl(real[1]) if real[0] == "ok" else list(real), rec["req"])
    elif kind == "partition":
        scope = " ".join(f"({i} {e})" for i, e in rec["pre"].items())
        req = f"(gen_partition {_b(rec['integral'])} {rec['symbol']} ({' '.join(rec['nodes'])}) ({scope}))"
        rep = driver.ask(req)
        real = rec["real"]
        nops = sum(1 for n in rec["nodes"] if "(operator " in n)
        chk.case(kind="codegen_partition", key=f"partition:{rec['integral']}:{nops}:{len(real[1])}" if nops else None)
        _inc(stats, "partitions", "integral" if rec["integral"] else "expression")
        stats["partition_intermediates"] = stats.get("partition_intermediates", 0) + len(real[1])
        if rep[0] != "ok":
            bad("generate_partition: model raises, real code returns", rep, real[1][:2], req[:4000])
        else:
            if rep[1] != _sl(real[1]):
                bad("generate_partition: intermediates", rep[1], _sl(real[1]), req[:4000])
            if real[1]:
                w = driver.ask(f"(ssa_ok ({' '.join(real[1])}))")
                _inc(stats, "partition_ssa", f"ssa={w[1] if w[0] == 'ok' else w}")
            model_scope = {int(i): e for i, e in rep[2]}
            want = {int(i): sexp.loads(e) for i, e in rec["post"].items()}
            if model_scope != want:
                bad("generate_partition: scope after the call", sorted(model_scope.items())[:6], sorted(want.items())[:6], req[:4000])
    elif kind == "quadloop":
        need = ("defs", "inter0", "tc", "fw", "code_in", "code_out", "loop")
        if not all(k in rec for k in need):
            stats["quadloop_incomplete"] = stats.get("quadloop_incomplete", 0) + 1
            return True
        j = lambda xs: "(" + " ".join(xs) + ")"  # noqa: E731
        req = f"(quad_loop {rec['rule']} {j(rec['defs'])} {j(rec['inter0'])} {j(rec['tc'])} {j(rec['fw'])})"
        rep = driver.ask(req)
        chk.case(kind="codegen_quadloop", key=None)
        if rep[0] != "ok":
            bad("quad_loop: driver", rep, "ok", req[:2000])
        elif rep[1] != _sl(rec["code_in"]):
            bad("generate_quadrature_loop: code handed to optimize", rep[1], _sl(rec["code_in"]), req[:4000])
        req2 = f"(wrap_loop {rec['rule']} {j(rec['code_out'])})"
        rep2 = driver.ask(req2)
        if rep2[0] != "ok" or [rep2[1]] != _sl(rec["loop"]):
            bad("generate_quadrature_loop: loop around the optimised code", rep2, _sl(rec["loop"]), req2[:4000])
        stats["quadloops"] = stats.get("quadloops", 0) + 1
    return ok


def check_groups_fold(chk, driver, recs, origin, stats):
    """`generate_dofblock_partition` = the block calls in order, threading the fw cache (`genGroups`)."""
    for rec in recs:
        if rec["kind"] != "quadloop" or not rec["groups"] or "tc" not in rec:
            continue
        gs = [recs[i] for i in rec["groups"]]
        if any("unexportable" in g or g["real"][0] != "ok" for g in gs):
            continue
        req = f"(gen_groups ({' '.join(g['desc'] for g in gs)}) {gs[0]['state']})"
        rep = driver.ask(req)
        chk.case(kind="codegen_groups", key=None)
        if rep[0] != "ok" or rep[1] != _sl(rec["tc"]) or rep[2] != _sl(rec["fw"]):
            chk.disagree("codegen model vs real generator: generate_dofblock_partition (all groups of a rule)",
                         {"origin": origin, "input": req[:4000], "model": rep[:3], "impl": [rec["tc"], rec["fw"]]})
        stats["group_folds"] = stats.get("group_folds", 0) + 1
        # decidable side conditions of quadLoop_spec / kernel_meets_spec_partial on the whole loop
        w = driver.ask(f"(loop_wf ({' '.join(g['desc'] for g in gs)}) {gs[0]['state']} ({' '.join(rec['fw'])}))")
        flags = {k: v for k, v in w[1:]} if w[0] == "ok" else {"driver": str(w)}
        covered = flags.get("groups") == "true"
        _inc(stats, "loop_side_conditions", "covered_by_quadLoop_spec" if covered else "outside_quadLoop_spec")
        for k, v in flags.items():
            _inc(stats, "loop_side_conditions", f"{k}={v}")
        if "inter0" in rec:
            w2 = driver.ask(f"(prefix_wf ({' '.join(rec.get('dnames', []))}) ({' '.join(rec['fw'])}) ({' '.join(rec['inter0'])}) "
                            f"({' '.join(g['desc'] for g in gs)}) {gs[0]['state']})")
            f2 = {k: v for k, v in w2[1:]} if w2[0] == "ok" else {"driver": str(w2)}
            full = covered and all(f2.get(k) == "true" for k in ("prefix", "ssa", "fwdecls", "fwlinked"))
            _inc(stats, "loop_side_conditions", "covered_by_kernel_meets_spec_defs" if full else "outside_kernel_meets_spec_defs")
            for k in ("prefix", "ssa"):
                _inc(stats, "loop_side_conditions", f"{k}={f2.get(k)}")
        if covered and not (flags.get("fwdecls") == "true" and flags.get("fwlinked") == "true"):
            chk.disagree("side condition of kernel_meets_spec_partial (fw protocol) fails on a real quadrature loop",
                         {"origin": origin, "input": req[:4000], "model": flags, "impl": "generated by FFCx"})


def check_spec_links(chk, driver, recs, origin, stats):
    """The decidable links of `kernel_meets_spec_linked` / `partition_values_partial` on every real rank-2 rule:
    Lean factorises the exported integrand graph S; the blocks' (ma_indices, factor_index) must be the entries of
    the target's dict, their argument tables the tables the IR attaches to the argument nodes of F, the real F the
    model's F, and every node of the partitions the translation of its node of F."""
    from . import ir_checks
    facts = next((r["facts"] for r in recs if r["kind"] == "facts"), [])
    for rec in recs:
        if rec["kind"] != "quadloop" or "Fobj" not in rec or "argtab" not in rec or not rec["groups"]:
            continue
        gs = [recs[i] for i in rec["groups"]]
        if any("unexportable" in g or g["real"][0] != "ok" for g in gs):
            continue
        f = next((x for x in facts if x["F"] is rec["Fobj"]), None)
        if f is None:
            _inc(stats, "spec_link", "no-factorisation-record")
            continue
        if f["rank"] != 2:
            _inc(stats, "spec_link", f"rank{f['rank']}:not-covered")
            continue
        S, F = f["S"], f["F"]
        ex = ir_checks.GraphExport(S)
        targets = [(i, list(v["component"])) for i, v in S.nodes.items() if v.get("target", False)]
        try:
            gS = ex.graph(S, targets)
            gF = ex.graph(F, [])
        except Exception as e:  # noqa: BLE001
            _inc(stats, "spec_link", f"unexportable:{type(e).__name__}")
            continue
        parts = [r for r in recs if r["kind"] == "partition" and r.get("Fobj") is F and "nodes" in r]
        ptxt = "(" + " ".join("(" + " ".join(r["nodes"]) + ")" for r in parts) + ")"
        req = (f"(spec_link {gS} 2 {gF} ({' '.join(g['desc'] for g in gs)}) {gs[0]['state']} {rec['argtab']} "
               f"{q(rec['entity_type'])} {ptxt})")
        rep = driver.ask(req)
        chk.case(kind="codegen_spec_link", key=None)
        if rep[0] != "ok":
            chk.disagree("spec_link: driver error", {"origin": origin, "input": req[:3000], "model": rep, "impl": "ok"})
            continue
        flags = {k: v for k, v in rep[1:]}
        full = all(v == "true" for v in flags.values())
        _inc(stats, "spec_link", "all-links-hold" if full else "some-link-fails")
        for k, v in flags.items():
            if v != "true":
                _inc(stats, "spec_link", f"{k}=false")
        stats.setdefault("spec_link_failures", [])
        if not full and len(stats["spec_link_failures"]) < 6:
            stats["spec_link_failures"].append(f"{origin}: {flags}")
        # the value links: the generated declarations compute the nodes of F, fw = access(factor)*w[iq];
        # the table accesses stay inside the exported shapes (hypotheses of `kernel_meets_spec_checked`)
        if "access" not in rec or "inter0" not in rec or "fw" not in rec:
            _inc(stats, "values_link", "not-exported")
            continue
        # the piecewise temporaries of the whole kernel (the piecewise scope is shared by its rules)
        pw = [st_ for r in recs if r["kind"] == "partition" and r.get("gen") == rec["gen"] and r["integral"]
              and r["symbol"].startswith("sp_") and r.get("real", ("",))[0] == "ok" for st_ in r["real"][1]]
        n_ent, n_perm = rec["bounds"]
        req = (f"(values_link {gF} ({' '.join(g['desc'] for g in gs)}) {gs[0]['state']} {rec['access']} "
               f"({' '.join(pw)}) ({' '.join(rec['inter0'])}) ({' '.join(rec['fw'])}) {rec['shapes']} {n_ent} {n_perm})")
        rep = driver.ask(req)
        chk.case(kind="codegen_values_link", key=None)
        if rep[0] != "ok":
            chk.disagree("values_link: driver error", {"origin": origin, "input": req[:3000], "model": rep, "impl": "ok"})
            continue
        vf = {r_[0]: r_[1:] for r_ in rep[1:]}
        ok_all = all(vf[k] == ["true"] for k in ("values", "extents", "rank2", "closedR"))
        # ALL Boolean hypotheses of `kernel_meets_spec_checked` on this real rule
        gtxt = " ".join(g["desc"] for g in gs)
        w1 = driver.ask(f"(loop_wf ({gtxt}) {gs[0]['state']} ({' '.join(rec['fw'])}))")
        w2 = driver.ask(f"(prefix_wf ({' '.join(rec.get('dnames', []))}) ({' '.join(rec['fw'])}) ({' '.join(rec['inter0'])}) "
                        f"({gtxt}) {gs[0]['state']})")
        names = {}
        for w_ in (w1, w2):
            if w_[0] == "ok":
                names.update({k: v for k, v in w_[1:]})
        missing = [k for k in ("groups", "fwdecls", "fwlinked", "prefix", "ssa") if names.get(k) != "true"]
        if not full:
            missing.append("spec_link")
        if not ok_all:
            missing.append("values_link")
        _inc(stats, "kernel_meets_spec_checked",
             "all-boolean-hypotheses-hold" if not missing else "not-covered:" + ",".join(missing))
        if ok_all:
            _inc(stats, "values_link", "all-hold")
        elif vf["values"] != ["true"] and vf["fws"] == ["true"] and all(vf[k] == ["true"] for k in ("extents", "rank2", "closedR")):
            # the cone of a factor contains nodes outside the algebraic fragment: not covered by the theorem
            _inc(stats, "values_link", "cone-not-covered:" + ",".join(sorted(vf["bad"])))
        else:
            _inc(stats, "values_link", "fails:" + ",".join(k for k in ("values", "fws", "extents", "rank2", "closedR")
                                                           if vf[k] != ["true"]))
            stats.setdefault("values_link_failures", [])
            if len(stats["values_link_failures"]) < 6:
                stats["values_link_failures"].append(f"{origin}: {vf}")


# ================================================================================ real corpus
def extra_entries():
    """Real forms reaching branches the shared corpus does not: diagonal part, sum factorisation."""
    import basix
    import basix.ufl
    from ufl import Coefficient, FunctionSpace, Mesh, TestFunction, TrialFunction, dx, grad, inner

    def tp_space(cell, deg):
        ct = getattr(basix.CellType, cell)
        el = basix.ufl.wrap_element(basix.create_tp_element(basix.ElementFamily.P, ct, deg, basix.LagrangeVariant.gll_warped))
        cel = basix.ufl.blocked_element(
            basix.ufl.wrap_element(basix.create_tp_element(basix.ElementFamily.P, ct, 1, basix.LagrangeVariant.gll_warped)),
            shape=({"quadrilateral": 2, "hexahedron": 3}[cell],))
        m = Mesh(cel)
        return m, FunctionSpace(m, el)

    def tp(cell, deg):
        def b():
            m, V = tp_space(cell, deg)
            u, v = TrialFunction(V), TestFunction(V)
            f = Coefficient(V)
            return [(1 + f * f) * inner(u, v) * dx + f * inner(grad(u), grad(v)) * dx, f * v * dx]
        return b

    def diag_p2():
        m, V = corpus.space("triangle", "P", 2)
        u, v = TrialFunction(V), TestFunction(V)
        f = Coefficient(V)
        return [f * inner(grad(u), grad(v)) * dx + inner(u, v) * dx]

    def diag_vec():
        m, V = corpus.space("triangle", "P", 1, shape=(2,))
        u, v = TrialFunction(V), TestFunction(V)
        return [inner(grad(u), grad(v)) * dx + ufl.div(u) * ufl.div(v) * dx]

    E = corpus.Entry
    return [
        E("cg_tp_quad_2", tp("quadrilateral", 2), tags=("tp",), options={"sum_factorization": True}),
        E("cg_tp_hex_1", tp("hexahedron", 1), tags=("tp",), options={"sum_factorization": True}),
        E("cg_tp_quad_1", tp("quadrilateral", 1), tags=("tp",), options={"sum_factorization": True}),
        E("cg_tp_quad_3", tp("quadrilateral", 3), tags=("tp",), options={"sum_factorization": True}),
        E("cg_diag_p2", diag_p2, tags=("diag",), options={"part": "diagonal"}),
        E("cg_diag_vec", diag_vec, tags=("diag",), options={"part": "diagonal"}),
    ]


def check_tensor_rules(chk, driver, recs, origin, stats):
    """The quadrature rule of a sum-factorised kernel is the tensor product of its 1D factor rules
    (`Ffcx.Quad.tensor2`, exactly over Rat; weights up to one rounding), and every factor is Basix's rule on the
    interval."""
    from fractions import Fraction
    seen = set()
    for rec in recs:
        rule = rec.get("tp_rule") if rec["kind"] == "quadloop" else None
        if rule is None or id(rule) in seen:
            continue
        seen.add(id(rule))
        facs = rule.tensor_factors
        req = "(tensor_rule " + " ".join(
            "(" + " ".join(f"(({' '.join(sexp.rat(c) for c in np.atleast_1d(p))}) {sexp.rat(w)})" for p, w in zip(fp, fw)) + ")"
            for fp, fw in facs) + ")"
        rep = driver.ask(req)
        chk.case(kind="codegen_tensor_rule", key=None)
        ok = rep[0] == "ok" and len(rep) - 1 == len(rule.weights) == len(rule.points)
        if ok:
            for (mp, mw), rp, rw in zip(rep[1:], rule.points, rule.weights):
                if [Fraction(c) for c in mp] != [Fraction(float(c)) for c in np.atleast_1d(rp)]:
                    ok = False
                exact = Fraction(mw)
                if abs(Fraction(float(rw)) - exact) > abs(exact) * Fraction(1, 2 ** 51):
                    ok = False
        if not ok:
            chk.disagree("sum-factorised quadrature rule is not the tensor product of its factor rules (Quad.tensor2)",
                         {"origin": origin, "input": req[:2000], "model": str(rep)[:2000],
                          "impl": [rule.points.tolist(), rule.weights.tolist()]})
            continue
        _inc(stats, "tensor_rules", f"rule==tensor{len(facs)}(factors)")
        for fp, fw in facs:
            n = len(fw)
            found = None
            for d in (2 * n - 1, 2 * n - 2, 2 * n - 3):
                if d < 0:
                    continue
                for qt in (basix.QuadratureType.default, basix.QuadratureType.gauss_jacobi, basix.QuadratureType.gll):
                    try:
                        bp, bw = basix.make_quadrature(basix.CellType.interval, d, rule=qt)
                    except Exception:  # noqa: BLE001
                        continue
                    if bp.shape == np.asarray(fp).reshape(n, -1).shape and np.array_equal(bp, np.asarray(fp).reshape(n, -1)) \
                            and np.array_equal(bw, np.asarray(fw)):
                        found = (d, qt.name)
                        break
                if found:
                    break
            if found:
                _inc(stats, "tensor_rules", f"factor==basix.make_quadrature(interval,{found[1]})")
            else:
                chk.disagree("1D factor of a sum-factorised rule is not a Basix interval rule",
                             {"origin": origin, "input": f"n={n}", "model": "basix.make_quadrature(interval, d)",
                              "impl": [np.asarray(fp).tolist(), np.asarray(fw).tolist()]})


# ================================================================================ full vs diagonal
def diag_forms():
    """Bilinear forms compiled twice (part=full, part=diagonal): scalar, blocked, mixed, interior-facet."""
    import basix.ufl
    from ufl import (Coefficient, FunctionSpace, Mesh, TestFunction, TestFunctions, TrialFunction, TrialFunctions, avg,
                     dS, div, ds, dx, grad, inner, jump)

    def scalar(cell, fam, deg):
        def b():
            m, V = corpus.space(cell, fam, deg)
            u, v, f = TrialFunction(V), TestFunction(V), Coefficient(V)
            return [f * inner(grad(u), grad(v)) * dx + inner(u, v) * dx + u * v * ds]
        return b

    def vector(cell, deg):
        def b():
            m, V = corpus.space(cell, "P", deg, shape=({"triangle": 2, "quadrilateral": 2, "tetrahedron": 3}[cell],))
            u, v = TrialFunction(V), TestFunction(V)
            return [inner(grad(u), grad(v)) * dx + div(u) * div(v) * dx + inner(u, v) * dx]
        return b

    def mixed(cell):
        def b():
            m, _ = corpus.space(cell, "P", 1)
            el = basix.ufl.mixed_element([basix.ufl.element("P", cell, 2, shape=(2,)), basix.ufl.element("P", cell, 1)])
            W = FunctionSpace(m, el)
            (u, p), (v, q_) = TrialFunctions(W), TestFunctions(W)
            return [inner(grad(u), grad(v)) * dx - p * div(v) * dx - q_ * div(u) * dx + p * q_ * dx]
        return b

    def dg(cell):
        def b():
            m, V = corpus.space(cell, "DP" if cell in ("triangle", "tetrahedron") else "DQ", 1)
            u, v = TrialFunction(V), TestFunction(V)
            return [jump(u) * jump(v) * dS + avg(u) * avg(v) * dS + u * v * dx]
        return b

    return [("diag_scalar_p2_tri", scalar("triangle", "P", 2)), ("diag_scalar_q1_quad", scalar("quadrilateral", "Q", 1)),
            ("diag_vector_p1_tri", vector("triangle", 1)), ("diag_vector_p2_tri", vector("triangle", 2)),
            ("diag_vector_p1_tet", vector("tetrahedron", 1)), ("diag_mixed_th_tri", mixed("triangle")),
            ("diag_dg_tri", dg("triangle"))]


def check_diag_pairs(chk, driver):
    """Item: `diagonal_of_full_filtered` on real kernels.  Every bilinear form is compiled with part=full and
    part=diagonal; the groups of the two compilations are paired (same quadrature loop, same scalar blockmap) and
    Lean checks that the diagonal group is the coincident sublist of the full group and that every dropped block has
    disjoint block maps (so it cannot touch the diagonal)."""
    stats = chk.notes.setdefault("codegen", {})
    for name, build in diag_forms():
        both = {}
        for part in ("full", "diagonal"):
            recs, err = capture_entry(corpus.Entry(f"{name}:{part}", build, tags=("diag",), options={"part": part}))
            if err is not None:
                stats.setdefault("skipped", []).append(f"{name}:{part}: {type(err).__name__}: {str(err)[:80]}")
                both = None
                break
            both[part] = recs
        if both is None:
            continue
        qf = [r for r in both["full"] if r["kind"] == "quadloop"]
        qd = [r for r in both["diagonal"] if r["kind"] == "quadloop"]
        if len(qf) != len(qd) or any(a["rule"] != b["rule"] for a, b in zip(qf, qd)):
            chk.disagree("full and diagonal compilations generate different quadrature loops", {"origin": name,
                         "model": [r["rule"] for r in qf], "impl": [r["rule"] for r in qd], "input": name})
            continue
        for lf, ld in zip(qf, qd):
            gd = {both["diagonal"][i]["bmkey"]: both["diagonal"][i] for i in ld["groups"]}
            used = set()
            for i in lf["groups"]:
                gf = both["full"][i]
                if "unexportable" in gf or gf["real"][0] != "ok" or len(gf["bmkey"]) != 2:
                    continue
                d = gd.get(gf["bmkey"])
                if d is not None:
                    used.add(gf["bmkey"])
                req = f"(diag_pair {gf['desc']} {d['desc'] if d is not None and 'desc' in d else 'none'})"
                rep = driver.ask(req)
                chk.case(kind="codegen_diag_pair", key=None)
                fl = {r_[0]: r_[1] for r_ in rep[1:]} if rep[0] == "ok" else {}
                if rep[0] != "ok" or fl.get("sublist") != "true":
                    chk.disagree("diagonal kernel's group is not the coincident sublist of the full kernel's group",
                                 {"origin": name, "input": req[:4000], "model": rep, "impl": "generated by FFCx"})
                    continue
                _inc(stats, "diag_pairing", "groups-paired")
                stats["diag_blocks_kept"] = stats.get("diag_blocks_kept", 0) + int(fl["kept"])
                stats["diag_blocks_dropped"] = stats.get("diag_blocks_dropped", 0) + int(fl["dropped"])
                if d is None:
                    _inc(stats, "diag_pairing", "full-group-without-diagonal-group(all blocks dropped)")
                if int(fl["dropped"]):
                    _inc(stats, "diag_pairing", "with-dropped-blocks")
                _inc(stats, "diag_pairing", "dropped-blocks-disjoint" if fl["disjoint"] == "true" else "DROPPED-BLOCK-OVERLAPS-DIAGONAL")
                _inc(stats, "diag_pairing", "theorem-applies" if fl["pair"] == "true" and fl["injective"] == "true"
                     else "theorem-does-not-apply")
                if fl["disjoint"] != "true":
                    chk.disagree("a block dropped by part=diagonal has overlapping, unequal block maps: diagonal entries are lost",
                                 {"origin": name, "input": req[:4000], "model": rep, "impl": "generated by FFCx"})
            extra = set(gd) - used
            if extra:
                chk.disagree("diagonal kernel has a group the full kernel has not", {"origin": name, "input": str(sorted(extra)),
                                                                                       "model": "none", "impl": "group"})
    return stats


def capture_entry(entry):
    from . import ir_checks
    opts = pipeline.default_options(**entry.options)
    err = None
    with capture() as recs, ir_checks.capture_factorizations() as facts:
        recs.append({"kind": "facts", "facts": facts})
        try:
            _, ir = pipeline.compute(entry.build(), opts)
            pipeline.kernels(ir, opts)
        except BaseException as ex:  # noqa: BLE001  (UFL's ArityMismatch is a BaseException)
            if isinstance(ex, (KeyboardInterrupt, SystemExit)):
                raise
            err = ex
    return recs, err


def check_blocks(chk, driver, entries):
    """Every block-generator call of every kernel of `entries`: model vs real statements, exactly."""
    stats = chk.notes.setdefault("codegen", {})
    for entry in entries:
        recs, err = capture_entry(entry)
        if err is not None:
            stats.setdefault("skipped", []).append(f"{entry.name}: {type(err).__name__}: {str(err)[:80]}")
        for k, rec in enumerate(recs):
            compare_record(chk, driver, rec, f"{entry.name}:{k}", stats)
        check_groups_fold(chk, driver, recs, entry.name, stats)
        check_spec_links(chk, driver, recs, entry.name, stats)
        check_tensor_rules(chk, driver, recs, entry.name, stats)
        stats["real_blocks"] = stats.get("real_blocks", 0) + sum(1 for r in recs if r["kind"] in ("group", "eblock"))
    _finish_stats(stats)
    return stats


def _finish_stats(stats):
    stats.pop("synthetic_calls", None)
    for k in ("branches", "side_conditions", "loop_side_conditions", "partition_ssa", "terminal_handlers", "tensor_tables",
              "blockmaps", "exec_vs_spec", "spec_link", "values_link", "kernel_meets_spec_checked", "diag_pairing", "tensor_rules", "synthetic_branches"):
        if k in stats:
            stats[k] = dict(sorted(stats[k].items()))


# ================================================================================== synthetic
class _FakeUfl:
    """A factor expression: only `_ufl_is_literal_` is read by `get_var`."""

    _ufl_is_literal_ = False

    def __init__(self, k):
        self.k = k

    def __hash__(self):
        return hash(("fake", self.k))

    def __eq__(self, other):
        return isinstance(other, _FakeUfl) and other.k == self.k


_TTYPES = ["fixed", "piecewise", "uniform", "varying", "quadrature", "ones", "zeros"]
_CELL = "synthetic-cell"


def _rand_f(rng, k):
    return rng.choice([
        L.Symbol(f"sv_ab12cd34_{k}", L.DataType.SCALAR), L.Symbol(f"sp_ab12cd34_{k}", L.DataType.REAL),
        L.LiteralFloat(1.0), L.LiteralFloat(2.5), L.LiteralFloat(-1.0), L.LiteralInt(1), L.LiteralInt(3),
        L.Symbol("w", L.DataType.SCALAR)[L.LiteralInt(k)],
        L.Symbol("c", L.DataType.SCALAR)[k + 1],
        L.Product([L.Symbol(f"sv_ab12cd34_{k}", L.DataType.SCALAR), L.LiteralFloat(0.5)]),
        L.Symbol("fw0", L.DataType.SCALAR),
    ])


def _rand_rule(rng, tp):
    if tp:
        dim = rng.choice([2, 3])
        facs = []
        for _ in range(dim):
            n = rng.randrange(1, 4)
            facs.append((np.linspace(0.1, 0.9, n).reshape(n, 1) + rng.random() * 0.01, np.full(n, 1.0 / n)))
        nq = int(np.prod([f[1].size for f in facs]))
        pts = np.array(rng.sample(range(10 ** 6), nq * dim), dtype=float).reshape(nq, dim) / 10 ** 6
        rule = QuadratureRule(pts, np.full(nq, 1.0 / nq), facs)
    else:
        nq = rng.choice([1, 1, 2, 3, 5])
        pts = np.array(rng.sample(range(10 ** 6), nq * 2), dtype=float).reshape(nq, 2) / 10 ** 6
        rule = QuadratureRule(pts, np.full(nq, 1.0 / nq))
    hash(rule)
    return rule


def _rand_table(rng, idx, ndofs, tp_table, nfac, allow_zeros):
    tt = rng.choice(_TTYPES if allow_zeros else _TTYPES[:-1])
    if rng.random() < 0.7:
        tt = rng.choice(["fixed", "piecewise", "uniform", "varying"])
    facs = None
    if tp_table:
        facs = []
        k = nfac
        for i in range(k):
            facs.append(UniqueTableReferenceT(f"FE_TF{idx}_{i}", np.zeros((1, 1, 2, rng.randrange(1, 4))), False, "varying"))
    bs = rng.choice([1, 1, 2, 3])
    off = rng.choice([0, 0, 1, 2, 7])
    return UniqueTableReferenceT(f"FE{idx}_C{rng.randrange(3)}", np.zeros((1, 1, 2, ndofs)), rng.random() < 0.25, tt,
                                 off, bs, facs, None)


def _stub_backend(entity_type, integral_type, names):
    symbols = FFCXBackendSymbols({}, {}, {})
    for n in names:
        symbols.element_tables[n] = L.Symbol(n, dtype=L.DataType.REAL)
    access = FFCXBackendAccess(entity_type, integral_type, symbols, {})
    return types.SimpleNamespace(symbols=symbols, access=access)


def synthetic_group(rng):
    """A random `generate_block_parts` call on a stub IntegralGenerator: returns a thunk running the REAL code."""
    rank = rng.choice([0, 1, 1, 2, 2, 2, 3])
    tp_rule = rng.random() < 0.25
    rule = _rand_rule(rng, tp_rule)
    nfac = len(rule.tensor_factors) if tp_rule else rng.choice([2, 3])
    diagonal = rank == 2 and rng.random() < 0.3
    custom = rng.random() < 0.1
    entity_type = rng.choice(["cell", "facet", "facet", "vertex", "ridge", "cell"] + (["edge"] if rng.random() < 0.1 else []))
    nblocks = rng.choice([1, 1, 2, 3, 4])
    ndofs = [rng.choice([1, 1, 2, 3, 4]) for _ in range(rank)]
    err_mode = rng.random() < 0.2
    blocklist, mts, nodes, scope = [], [], {}, {}
    names = set()
    for k in range(nblocks):
        mads = []
        for i in range(rank):
            tp_table = (tp_rule and rng.random() < 0.85) or (not tp_rule and rng.random() < 0.08)
            nd = ndofs[i] if (not err_mode or rng.random() < 0.8) else ndofs[i] + 1
            td = _rand_table(rng, len(mts), nd, tp_table, nfac, allow_zeros=err_mode)
            names.add(td.name)
            for f in td.tensor_factors or []:
                names.add(f.name)
            mts.append(types.SimpleNamespace(restriction=rng.choice([None, None, "+", "-"])))
            mads.append(ModifiedArgumentDataT(len(mts) - 1, td))
        fi = rng.randrange(0, 4)
        if fi not in nodes:
            nodes[fi] = {"expression": _FakeUfl(fi)}
            scope[nodes[fi]["expression"]] = _rand_f(rng, fi)
        ncomp = 1 if (not err_mode or rng.random() < 0.8) else rng.choice([0, 2])
        ttypes = tuple(m.tabledata.ttype for m in mads)
        blocklist.append(BlockDataT(ttypes, [(fi, c) for c in range(ncomp)], rng.random() < 0.5, tuple(m.tabledata.name for m in mads),
                                    (), err_mode and rng.random() < 0.15, False, tuple(mads), False))
    if diagonal:
        a_shape = [rng.choice([4, 9])] if (not err_mode or rng.random() < 0.7) else [4, 4]
    else:
        a_shape = [rng.choice([3, 8, 12]) for _ in range(rank)]
    blockmap = tuple(tuple(range(n)) for n in ndofs)
    if err_mode and rng.random() < 0.1:
        blocklist = []
    gen = object.__new__(IG.IntegralGenerator)
    gen.ir = types.SimpleNamespace(
        part=TensorPart.diagonal if diagonal else TensorPart.full,
        expression=types.SimpleNamespace(
            tensor_shape=a_shape, integral_type="custom" if custom else "cell", entity_type=entity_type,
            integrand={(_CELL, rule): {"factorization": types.SimpleNamespace(nodes=nodes), "modified_arguments": mts}}))
    gen.backend = _stub_backend(entity_type, "cell", names)
    gen.scopes = {(_CELL, rule): scope, (None, None): {}}
    gen.temp_symbols = {}
    gen.symbol_counters = collections.defaultdict(int)
    if rng.random() < 0.4:  # warm cache: some keys of this rule (and of another one) already defined
        other = _rand_rule(rng, False)
        for fi in rng.sample(range(4), 2):
            for r in (rule, other):
                if rng.random() < 0.6:
                    gen.get_temp_symbol("fw", (r, fi, rng.random() < 0.5))
    return lambda: gen.generate_block_parts(rule, _CELL, blockmap, blocklist)


def synthetic_eblock(rng):
    """A random `ExpressionGenerator.generate_block_parts` call on a stub generator."""
    rank = rng.choice([0, 1, 1, 1, 2])
    err_mode = rng.random() < 0.2
    rule = _rand_rule(rng, False)
    entity_type = rng.choice(["cell", "facet", "vertex"] + (["edge"] if rng.random() < 0.1 else []))
    blockmap = []
    for _ in range(rank):
        n = rng.choice([1, 2, 3, 4])
        off, bs = rng.choice([0, 1, 5]), rng.choice([1, 2, 3])
        bm = [off + bs * i for i in range(n)]
        if n >= 3 and rng.random() < 0.2:
            bm[-1] += 1  # not equally spaced: expand_loop
        blockmap.append(tuple(bm))
    mts, mads, names = [], [], set()
    for i in range(rank):
        td = _rand_table(rng, i, len(blockmap[i]), False, 0, allow_zeros=err_mode)
        names.add(td.name)
        mts.append(types.SimpleNamespace(restriction=rng.choice([None, None, "+", "-"])))
        mads.append(ModifiedArgumentDataT(i, td))
    nfc = rng.choice([1, 1, 2, 3])
    nodes, scope = {}, {}
    fcs = []
    for c in range(nfc):
        fi = rng.randrange(0, 5)
        if fi not in nodes:
            nodes[fi] = {"expression": _FakeUfl(fi)}
            scope[nodes[fi]["expression"]] = _rand_f(rng, fi)
        fcs.append((fi, rng.randrange(0, 3)))
    bd = BlockDataT(tuple(m.tabledata.ttype for m in mads), fcs, False, tuple(m.tabledata.name for m in mads), (),
                    err_mode and rng.random() < 0.2, False, tuple(mads), False)
    gen = object.__new__(EG.ExpressionGenerator)
    key = (_CELL, rule)
    gen.quadrature_rule = key
    gen.ir = types.SimpleNamespace(expression=types.SimpleNamespace(
        shape=rng.choice([(), (3,), (2, 2)]), tensor_shape=[rng.choice([4, 9]) for _ in range(rank)], entity_type=entity_type,
        integrand={key: {"factorization": types.SimpleNamespace(nodes=nodes), "modified_arguments": mts}}))
    gen.backend = _stub_backend(entity_type, "expression", names)
    gen.scope = scope
    return lambda: gen.generate_block_parts(tuple(blockmap), bd)


_SYN_MESHES = {}


def _syn_mesh(cell, deg=1):
    import basix.ufl
    key = (cell, deg)
    if key not in _SYN_MESHES:
        gd = {"interval": 1, "triangle": 2, "quadrilateral": 2, "tetrahedron": 3, "hexahedron": 3, "prism": 3}[cell]
        m = ufl.Mesh(basix.ufl.element("P", cell, deg, shape=(gd,)))
        _SYN_MESHES[key] = (m, ufl.FunctionSpace(m, basix.ufl.element("P", cell, 1)))
    return _SYN_MESHES[key]


def synthetic_terminal(rng):
    """A random `access.get` + `definitions.get` call pair on real backend objects and a stub ModifiedTerminal."""
    import ufl.geometry as G
    cell = rng.choice(["interval", "triangle", "quadrilateral", "tetrahedron", "hexahedron", "prism"])
    m, V = _syn_mesh(cell, rng.choice([1, 1, 2]) if cell != "prism" else 1)
    gdim = m.geometric_dimension
    mk = rng.choice(["Coefficient"] * 4 + ["Jacobian"] * 3 + ["SpatialCoordinate"] * 3 + [
        "Constant", "ReferenceCellVolume", "ReferenceFacetVolume", "ReferenceNormal", "CellFacetJacobian",
        "CellRidgeJacobian", "ReferenceCellEdgeVectors", "ReferenceFacetEdgeVectors", "FacetOrientation",
        "CellOrientation", "CellVertices", "CellEdgeVectors", "FacetArea", "CellCoordinate"])
    try:
        terminal = {"Coefficient": lambda: ufl.Coefficient(V), "Constant": lambda: ufl.Constant(m, shape=(3,))}.get(
            mk, lambda: getattr(G, mk)(m))()
    except Exception:  # noqa: BLE001  (UFL refuses some geometry on some cells)
        mk, terminal = "Jacobian", G.Jacobian(m)
    err = rng.random() < 0.15
    tp = rng.random() < 0.2
    rule = _rand_rule(rng, tp) if rng.random() < 0.9 else 0
    nfac = len(rule.tensor_factors) if (tp and rule) else 2
    nsd = int(m.ufl_coordinate_element()._sub_element.dim)
    ndofs = nsd if (mk in ("Jacobian", "SpatialCoordinate") and not (err and rng.random() < 0.3)) else rng.choice([1, 1, 2, 3, 6])
    td = _rand_table(rng, rng.randrange(5), ndofs, tp and rng.random() < 0.8, nfac, allow_zeros=True)
    if mk in ("Jacobian", "SpatialCoordinate") and not err and td.ttype in ("zeros", "ones"):
        td = td._replace(ttype="varying")
    if rng.random() < 0.15:
        td = td._replace(ttype="ones", values=np.zeros((1, 1, 1, 1)))
    ncomp = rng.choice([0, 1, 2])
    comp = tuple(rng.randrange(0, 3) for _ in range(ncomp))
    mt = types.SimpleNamespace(
        terminal=terminal, expr=terminal, restriction=rng.choice([None, None, "+", "-"]),
        averaged=None if rng.random() < 0.9 else "cell",
        global_derivatives=() if rng.random() < 0.92 else (0,),
        local_derivatives=tuple(rng.randrange(gdim) for _ in range(rng.choice([0, 0, 1, 2]))),
        component=comp, flat_component=rng.randrange(0, 4))
    entity_type = rng.choice(["cell", "facet", "vertex"])
    integral_type = rng.choice(["cell", "exterior_facet", "interior_facet", "expression"] + (["custom"] if rng.random() < 0.15 else []))
    symbols = FFCXBackendSymbols({terminal: rng.randrange(3)} if not (err and rng.random() < 0.2) else {},
                                 {terminal: rng.choice([0, 3, 10])}, {terminal: rng.choice([0, 2])})
    for nme in [td.name] + [f.name for f in (td.tensor_factors or [])]:
        symbols.element_tables[nme] = L.Symbol(nme, dtype=L.DataType.REAL)
    if rng.random() < 0.5:
        symbols.domain_numbers[_syn_mesh("interval")[0]] = 0
    access = FFCXBackendAccess(entity_type, integral_type, symbols, {})
    defs = FFCXBackendDefinitions(entity_type, integral_type, access, {})
    tdarg = None if (mk == "Constant" and rng.random() < 0.7) else td

    def thunk():
        a = access.get(mt, tdarg, rule)
        defs.get(mt, tdarg, rule, a)
    return thunk


def check_synthetic(chk, driver, seed, n):
    """`n` seeded synthetic block descriptions through the real functions and the model."""
    import logging

    stats = chk.notes.setdefault("codegen", {})
    rng = random.Random(seed * 7919 + 17)
    lg = logging.getLogger("ffcx")
    was = lg.disabled
    lg.disabled = True  # `symbols.entity` logs an exception for the unknown entity types we feed it
    try:
        _synthetic_loop(chk, driver, seed, n, rng, stats)
    finally:
        lg.disabled = was
    _finish_stats(stats)
    return stats


def _synthetic_loop(chk, driver, seed, n, rng, stats):
    for k in range(n):
        sub = random.Random(rng.randrange(1 << 60))
        thunk = (synthetic_eblock if k % 4 == 3 else synthetic_terminal if k % 4 == 2 else synthetic_group)(sub)
        with capture() as recs:
            try:
                thunk()
            except Exception:  # noqa: BLE001  recorded by the wrapper
                pass
        for rec in recs:
            if rec["kind"] == "quadloop":
                continue
            compare_record(chk, driver, rec, f"synthetic:{seed}:{k}", stats, wf=False)
            if rec["kind"] in ("access", "definition") and "real" in rec:
                _inc(stats, "synthetic_branches", (rec["kind"], rec.get("cls"), "section" if rec.get("section") else
                                                   ("ok" if rec["real"][0] == "ok" else rec["real"][1])))
            if "desc" in rec:
                br = _branch(rec["desc"]) + (rec["real"][0] if rec["real"][0] == "ok" else rec["real"][1],)
                _inc(stats, "synthetic_branches", br)
        stats["synthetic"] = stats.get("synthetic", 0) + 1


# =================================================================================== runner
class _StandaloneChk:
    """Just enough of `framework.Check` for the stand-alone runner."""

    def __init__(self, seed):
        self.seed, self.tier, self.notes = seed, "quick", {}
        self.cases, self.keys, self.disagreements = 0, set(), []

    def case(self, kind=None, key=None, sample=None, n=1):
        self.cases += n
        if key is not None:
            self.keys.add((kind, key))

    def disagree(self, what, payload):
        self.disagreements.append((what, payload))


def main(argv=None):
    import argparse
    import json
    import os
    import time

    from . import lean

    ap = argparse.ArgumentParser(description=__doc__.split("\n")[0])
    ap.add_argument("--seed", type=int, default=int(os.environ.get("VERIF_SEED", "1")))
    ap.add_argument("--synthetic", type=int, default=400)
    ap.add_argument("--json", action="store_true")
    a = ap.parse_args(argv)
    t0 = time.time()
    chk = _StandaloneChk(a.seed)
    with lean.Driver("driver_codegen") as d:
        check_blocks(chk, d, corpus.fixed() + corpus.expressions() + extra_entries())
        check_diag_pairs(chk, d)
        check_synthetic(chk, d, a.seed, a.synthetic)
    st = chk.notes["codegen"]
    if a.json:
        print(json.dumps(st, indent=1, default=str))
    else:
        print(f"real blocks: {st.get('real_blocks')}  quadrature loops: {st.get('quadloops')}  group folds: {st.get('group_folds')}  "
              f"synthetic: {st.get('synthetic')}  cases: {chk.cases}  distinct: {len(chk.keys)}  ({time.time() - t0:.1f} s)")
        print(f"partitions: {st.get('partitions')}  intermediates: {st.get('partition_intermediates')}")
        for k in ("branches", "side_conditions", "loop_side_conditions", "partition_ssa", "terminal_handlers", "tensor_tables",
                  "blockmaps", "exec_vs_spec", "spec_link", "values_link", "kernel_meets_spec_checked", "diag_pairing", "tensor_rules", "synthetic_branches"):
            print(f"-- {k}")
            for b, c in (st.get(k) or {}).items():
                print(f"   {c:5d}  {b}")
        for s in st.get("skipped", []):
            print("skipped:", s)
    for what, payload in chk.disagreements[:20]:
        print("DISAGREE", what)
        print(json.dumps(payload, default=str)[:3000])
    print(f"disagreements: {len(chk.disagreements)}")
    return 1 if chk.disagreements else 0


if __name__ == "__main__":
    raise SystemExit(main())
