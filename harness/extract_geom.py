"""Regenerate lean/FfcxModel/Generated/RefCells.lean from the working tree of /repo (DESIGN §4.1).

For every cell type: basix geometry/topology (as FFCx's element_interface sees them) and the
*actual outputs* of every table writer of ffcx/codegeneration/geometry.py (through
`geometry.write_table`), as exact rationals (binary64 -> Fraction), plus how each `access.py`
geometry handler indexes its table (obtained by calling the real handler on a probe terminal).

Only Lean *data* is written.  The file is replaced atomically and only when its content changed.

A table writer / access handler that raises is recorded as `none` / `accepted := false` in the
Lean data AND in `FAILURES` (which pair, at which stage, which exception): `harness/props/c02.py`
compares that list with the absences expected on the pinned tree (`EXPECTED_ABSENT`) and reports
any other one — a writer that starts raising, or a probe of this module that no longer fits FFCx's
API, would otherwise silently turn the guarded parts of the `decide` theorems vacuous
(`Ffcx.C02.refgeom_nonvacuous` is the Lean-side guard).
"""
import os
from fractions import Fraction
from pathlib import Path
from types import SimpleNamespace

import basix
import basix.ufl
import numpy as np
import ufl

import ffcx.codegeneration.geometry as geometry
import ffcx.codegeneration.lnodes as L
from ffcx.codegeneration.access import FFCXBackendAccess
from ffcx.codegeneration.symbols import FFCXBackendSymbols

VERIF = Path(__file__).resolve().parent.parent
OUT = VERIF / "lean" / "FfcxModel" / "Generated" / "RefCells.lean"

CELLS = ["point", "interval", "triangle", "quadrilateral", "tetrahedron", "hexahedron", "prism", "pyramid"]

TABLES = [
    "reference_normals", "cell_facet_jacobian", "cell_ridge_jacobian", "reference_cell_volume",
    "reference_facet_volume", "reference_cell_edge_vectors", "reference_facet_edge_vectors",
    "facet_edge_vertices", "facet_orientation",
]

# table name -> (access.py handler name, UFL terminal class name, component used for the probe)
ACCESS = {
    "reference_normals": ("reference_normal", "ReferenceNormal", (0,)),
    "cell_facet_jacobian": ("cell_facet_jacobian", "CellFacetJacobian", (0, 0)),
    "cell_ridge_jacobian": ("cell_ridge_jacobian", "CellRidgeJacobian", (0, 0)),
    "reference_cell_volume": ("reference_cell_volume", "ReferenceCellVolume", ()),
    "reference_facet_volume": ("reference_facet_volume", "ReferenceFacetVolume", ()),
    "reference_cell_edge_vectors": ("reference_cell_edge_vectors", "ReferenceCellEdgeVectors", (0, 0)),
    "reference_facet_edge_vectors": ("reference_facet_edge_vectors", "ReferenceFacetEdgeVectors", (0, 0)),
    "facet_orientation": ("facet_orientation", "FacetOrientation", ()),
}


# (kind, cell, table, stage, exception type, message) of every writer/handler that raised in the last render()
FAILURES: list[tuple[str, str, str, str, str, str]] = []
# notes about the shape of the emitted data (e.g. a nested reference_facet_edge_vectors table that was flattened)
SHAPE_NOTES: list[str] = []

# Absences on the pinned tree: (kind, cell, table) -> (stage, exception type).  "table": geometry.write_table raises;
# "access": the access.py handler (stage "handler") or the construction of the UFL terminal (stage "terminal") raises.
EXPECTED_ABSENT = {
    ("table", "interval", "cell_facet_jacobian"): ("write_table", "RuntimeError"),
    ("table", "interval", "cell_ridge_jacobian"): ("write_table", "RuntimeError"),
    ("table", "interval", "reference_facet_edge_vectors"): ("write_table", "ValueError"),
    ("table", "interval", "facet_edge_vertices"): ("write_table", "ValueError"),
    ("table", "triangle", "cell_ridge_jacobian"): ("write_table", "RuntimeError"),
    ("table", "triangle", "reference_facet_edge_vectors"): ("write_table", "ValueError"),
    ("table", "triangle", "facet_edge_vertices"): ("write_table", "ValueError"),
    ("table", "quadrilateral", "cell_ridge_jacobian"): ("write_table", "RuntimeError"),
    ("table", "quadrilateral", "reference_facet_edge_vectors"): ("write_table", "ValueError"),
    ("table", "quadrilateral", "facet_edge_vertices"): ("write_table", "ValueError"),
    ("table", "prism", "reference_facet_volume"): ("write_table", "ValueError"),
    ("table", "prism", "facet_edge_vertices"): ("write_table", "ValueError"),
    ("table", "pyramid", "reference_facet_volume"): ("write_table", "ValueError"),
    ("table", "pyramid", "facet_edge_vertices"): ("write_table", "ValueError"),
    ("access", "interval", "cell_facet_jacobian"): ("terminal", "ValueError"),
    ("access", "interval", "cell_ridge_jacobian"): ("terminal", "ValueError"),
    ("access", "interval", "reference_cell_edge_vectors"): ("handler", "RuntimeError"),
    ("access", "interval", "reference_facet_edge_vectors"): ("terminal", "ValueError"),
    ("access", "triangle", "cell_ridge_jacobian"): ("handler", "RuntimeError"),
    ("access", "triangle", "reference_facet_edge_vectors"): ("terminal", "ValueError"),
    ("access", "quadrilateral", "cell_ridge_jacobian"): ("handler", "RuntimeError"),
    ("access", "quadrilateral", "reference_facet_edge_vectors"): ("terminal", "ValueError"),
    ("access", "quadrilateral", "facet_orientation"): ("handler", "RuntimeError"),
    ("access", "hexahedron", "facet_orientation"): ("handler", "RuntimeError"),
    **{("access", "prism", t): ("handler", "RuntimeError") for t in (
        "reference_normals", "reference_cell_volume", "reference_facet_volume", "reference_cell_edge_vectors",
        "reference_facet_edge_vectors", "facet_orientation")},
    **{("access", "pyramid", t): ("handler", "RuntimeError") for t in (
        "reference_normals", "cell_ridge_jacobian", "reference_cell_volume", "reference_facet_volume",
        "reference_cell_edge_vectors", "reference_facet_edge_vectors", "facet_orientation")},
}


def unexpected_failures():
    """Failures of the last render() that are not the expected absences of the pinned tree (same pair, same stage,
    same exception type)."""
    out = []
    for kind, cell, table, stage, exc, msg in FAILURES:
        if EXPECTED_ABSENT.get((kind, cell, table)) != (stage, exc):
            out.append({"kind": kind, "cell": cell, "table": table, "stage": stage, "exception": exc, "message": msg,
                        "expected": EXPECTED_ABSENT.get((kind, cell, table))})
    return out


def frac(x) -> Fraction:
    f = Fraction(float(x))
    return f if f != 0 else Fraction(0)


def lrat(x) -> str:
    f = frac(x)
    if f.denominator == 1:
        return str(f.numerator) if f >= 0 else f"({f.numerator})"
    n = str(f.numerator) if f >= 0 else f"({f.numerator})"
    return f"{n}/{f.denominator}"


def lnat(x) -> str:
    return str(int(x))


def llist(xs, f) -> str:
    return "[" + ", ".join(f(x) for x in xs) + "]"


def nested(a, f, depth) -> str:
    if depth == 0:
        return f(a)
    return llist(list(a), lambda y: nested(y, f, depth - 1))


def table_values(name, cell):
    """Output of geometry.write_table, or None when the writer raises."""
    try:
        decl = geometry.write_table(name, cell)
    except Exception as ex:  # noqa: BLE001 - recorded, compared with EXPECTED_ABSENT by c02.py
        FAILURES.append(("table", cell, name, "write_table", type(ex).__name__, str(ex)[:160]))
        return None
    if isinstance(decl, L.ArrayDecl):
        v = np.asarray(decl.values)
        if name == "reference_facet_edge_vectors" and v.ndim == 3:
            # a table nested [facet][edge][component] (the shape a repair of the known finding would emit) is recorded in
            # the flat facet-by-facet layout of the schema; `rfevRow` of FfcxProofs/C02.lean addresses it
            SHAPE_NOTES.append(f"reference_facet_edge_vectors of {cell} is nested {list(v.shape)}: flattened")
            v = v.reshape(v.shape[0] * v.shape[1], v.shape[2])
        return v
    return decl.value.value if isinstance(decl.value, L.LExpr) else decl.value


def _has_entity_index(e) -> bool:
    if isinstance(e, L.ArrayAccess):
        if e.array.name == "entity_local_index":
            return True
        return any(_has_entity_index(i) for i in e.indices)
    for attr in ("lhs", "rhs", "arg"):
        if hasattr(e, attr) and _has_entity_index(getattr(e, attr)):
            return True
    if hasattr(e, "args"):
        return any(_has_entity_index(a) for a in e.args)
    return False


def access_info(table, cell):
    """(accepted, usesEntity, rank) of the access.py handler for `table` on `cell`."""
    hname, tname, comp = ACCESS[table]
    tdim = len(basix.topology(getattr(basix.CellType, cell))) - 1
    stage = "mesh"
    try:
        mesh = ufl.Mesh(basix.ufl.element("P", cell, 1, shape=(max(tdim, 1),)))
        stage = "terminal"
        term = getattr(ufl.geometry, tname)(mesh)
        mt = SimpleNamespace(terminal=term, restriction="-", component=comp, flat_component=0,
                             averaged=None, local_derivatives=(), global_derivatives=())
        stage = "backend"
        acc = FFCXBackendAccess("facet", "interior_facet", FFCXBackendSymbols({}, {}, {}), {})
        stage = "handler"
        e = getattr(acc, hname)(mt, None, None)
    except Exception as ex:  # noqa: BLE001 - recorded, compared with EXPECTED_ABSENT by c02.py
        FAILURES.append(("access", cell, table, stage, type(ex).__name__, str(ex)[:160]))
        return (False, False, 0)
    rank = len(e.indices) if isinstance(e, L.ArrayAccess) else 0
    return (True, _has_entity_index(e), rank)


def opt(v, f) -> str:
    return "none" if v is None else f"some ({f(v)})"


def cell_record(cell) -> str:
    ct = getattr(basix.CellType, cell)
    geom = np.asarray(basix.geometry(ct))
    topo = basix.topology(ct)
    tdim = len(topo) - 1
    if geom.shape[0] == 0:  # basix reports the point with shape (0, 1); it has one vertex, no coordinates
        geom_l = [[]]
    else:
        geom_l = geom.tolist()
    if tdim >= 1:
        ftypes = [basix.cell.sub_entity_type(ct, tdim - 1, i).name for i in range(len(topo[tdim - 1]))]
    else:
        ftypes = []
    vals = {t: (table_values(t, cell) if cell != "point" else None) for t in TABLES}
    acc = []
    for t in ACCESS:
        if cell == "point":
            continue
        a, u, r = access_info(t, cell)
        acc.append(f"{{ table := \"{t}\", accepted := {str(a).lower()}, usesEntity := {str(u).lower()}, rank := {r} }}")
    lines = [
        f"def {cell}Cell : RefCellData where",
        f"  name := \"{cell}\"",
        f"  tdim := {tdim}",
        f"  geometry := {nested(geom_l, lrat, 2)}",
        f"  topology := {nested(topo, lnat, 3)}",
        "  facetTypes := " + llist(ftypes, lambda s: f'"{s}"'),
        f"  volume := {lrat(basix.cell.volume(ct))}",
        "  referenceNormals := " + opt(vals["reference_normals"], lambda v: nested(v, lrat, 2)),
        "  cellFacetJacobian := " + opt(vals["cell_facet_jacobian"], lambda v: nested(v, lrat, 3)),
        "  cellRidgeJacobian := " + opt(vals["cell_ridge_jacobian"], lambda v: nested(v, lrat, 3)),
        "  referenceCellVolume := " + opt(vals["reference_cell_volume"], lrat),
        "  referenceFacetVolume := " + opt(vals["reference_facet_volume"], lrat),
        "  referenceCellEdgeVectors := " + opt(vals["reference_cell_edge_vectors"], lambda v: nested(v, lrat, 2)),
        "  referenceFacetEdgeVectors := " + opt(vals["reference_facet_edge_vectors"], lambda v: nested(v, lrat, 2)),
        "  facetEdgeVertices := " + opt(vals["facet_edge_vertices"], lambda v: nested(v, lnat, 3)),
        "  facetOrientation := " + opt(vals["facet_orientation"], lambda v: nested([int(x) for x in v], lambda i: str(i) if i >= 0 else f"({i})", 1)),
        "  access := [" + (",\n    ".join(acc)) + "]",
    ]
    return "\n".join(lines)


def render() -> str:
    FAILURES.clear()
    SHAPE_NOTES.clear()
    parts = [
        "/-",
        "GENERATED by harness/extract_geom.py from the working tree of /repo -- DO NOT EDIT.",
        "Reference cells: basix geometry/topology and the outputs of ffcx/codegeneration/geometry.py",
        "(`write_table`) as exact rationals; `access` = how ffcx/codegeneration/access.py indexes them.",
        "-/",
        "import FfcxModel.Geometry.RefCell",
        "",
        "namespace Ffcx.Generated",
        "open Ffcx.Geometry",
        "",
    ]
    for c in CELLS:
        parts.append(cell_record(c))
        parts.append("")
    parts.append("def refCells : List RefCellData := [" + ", ".join(f"{c}Cell" for c in CELLS) + "]")
    parts.append("")
    parts.append("end Ffcx.Generated")
    return "\n".join(parts) + "\n"


def regenerate() -> bool:
    """Write the file if (and only if) its content changed. Returns True when rewritten."""
    txt = render()
    if OUT.exists() and OUT.read_text() == txt:
        return False
    OUT.parent.mkdir(parents=True, exist_ok=True)
    tmp = OUT.with_name(f".RefCells.lean.tmp{os.getpid()}")
    tmp.write_text(txt)
    os.replace(tmp, OUT)
    return True


if __name__ == "__main__":
    print("rewritten" if regenerate() else "unchanged", OUT)
