"""Shared JIT compile cache (keyed by a hash of /repo's working tree) and a fork-based pool.

FFCx's own cache key does not cover FFCx's source code, so a persistent cache directory would
serve stale modules after the tree is edited.  The cache directory name therefore contains the
SHA-256 of every file under /repo/ffcx; all checks running on the same tree share compiled modules.
"""
import hashlib
import multiprocessing as mp
import os
import shutil
import time
import traceback
from pathlib import Path

VERIF = Path(__file__).resolve().parent.parent
REPO = Path(os.environ.get("FFCX_REPO", "/repo"))
CACHE_ROOT = VERIF / ".cache" / "jit"

_tree_hash = None


def tree_hash():
    global _tree_hash
    if _tree_hash is None:
        h = hashlib.sha256()
        for f in sorted((REPO / "ffcx").rglob("*")):
            if f.is_file() and f.suffix in (".py", ".h") and "__pycache__" not in f.parts:
                h.update(str(f.relative_to(REPO)).encode())
                h.update(b"\0")
                h.update(f.read_bytes())
                h.update(b"\0")
        _tree_hash = h.hexdigest()[:20]
    return _tree_hash


def cache_dir(tag="default"):
    """Per-tree cache dir; caches of other trees are pruned only when they have not been touched for six hours
    (a concurrent run on another tree, e.g. a seeded shadow tree, may be loading modules from them)."""
    d = CACHE_ROOT / tree_hash() / tag
    if not d.exists():
        d.mkdir(parents=True, exist_ok=True)
        try:
            now = time.time()
            for p in CACHE_ROOT.iterdir():
                if p.is_dir() and p.name != tree_hash() and now - max(q.stat().st_mtime for q in [p, *p.iterdir()]) > 6 * 3600:
                    shutil.rmtree(p, ignore_errors=True)
        except Exception:
            pass
    return d


def _run(fn, arg, q):
    try:
        q.put((arg, "ok", fn(arg)))
    except BaseException as e:  # noqa
        q.put((arg, "exc", f"{type(e).__name__}: {e}\n{traceback.format_exc()[-1500:]}"))


def parallel_map(fn, args, procs=None, timeout=1500, retry=True):
    """Run fn(arg) for each arg in forked workers (closures allowed). Returns {arg: (status, result)}.

    status: "ok" | "exc" | "timeout" | "died".  args must be hashable and picklable (use indices).
    Jobs that timed out or died (machine load, OOM killer) are retried ONCE, one at a time, with a fresh budget,
    so that a loaded machine does not turn into a reported disagreement.
    """
    res = _parallel_map(fn, args, procs, timeout)
    if retry:
        again = [a for a, (st, _) in res.items() if st in ("timeout", "died")]
        if again:
            res.update(_parallel_map(fn, again, 1, max(600, timeout // 2)))
    return res


def _parallel_map(fn, args, procs=None, timeout=1500):
    procs = procs or min(16, os.cpu_count() or 4)
    ctx = mp.get_context("fork")
    q = ctx.Queue()
    pending = list(args)
    running = {}
    results = {}
    t_end = time.time() + timeout
    while pending or running:
        while pending and len(running) < procs:
            a = pending.pop(0)
            p = ctx.Process(target=_run, args=(fn, a, q), daemon=True)
            p.start()
            running[a] = p
        try:
            a, st, res = q.get(timeout=0.5)
            results[a] = (st, res)
            p = running.pop(a, None)
            if p is not None:
                p.join(timeout=5)
        except Exception:
            pass
        for a, p in list(running.items()):
            if not p.is_alive() and a not in results:
                # drain once more in case its result is in flight
                try:
                    while True:
                        b, st, res = q.get(timeout=0.2)
                        results[b] = (st, res)
                        running.pop(b, None)
                except Exception:
                    pass
                if a not in results:
                    results[a] = ("died", f"exit code {p.exitcode}")
                    running.pop(a, None)
        if time.time() > t_end:
            for a, p in running.items():
                p.kill()
                results[a] = ("timeout", None)
            for a in pending:
                results[a] = ("timeout", None)
            break
    return results
