"""C05 — coefficient/constant packing contract and enabled_coefficients are truthful."""
import os

import numpy as np

from .. import cjit, corpus, kernels, layout_checks as L, lean, numeric, pipeline
from .c08 import entity_perm_space, shape_inputs


C05_KERNEL_THEOREMS = [
    "Ffcx.LNodes.unread_irrelevant", "Ffcx.LNodes.reads_data_independent", "Ffcx.LNodes.disabled_irrelevant",
    "Ffcx.LNodes.reads_in_blocks", "Ffcx.LNodes.blockOf_spec", "Ffcx.LNodes.readsAvoidB_eq", "Ffcx.LNodes.coeffAccess_reads",
]


def _entries(chk):
    ents = corpus.fixed() + corpus.expressions()
    if chk.tier == "thorough":
        # demo_HyperElasticity alone needs ~25 min of exact read-set evaluation (two very large cell kernels): it is covered by
        # C01/C08/C19's thorough tiers, not here
        ents += [e for e in corpus.demos() if e.name != "demo_HyperElasticity"] + corpus.generated(chk.seed, 80)
    else:
        ents += corpus.generated(chk.seed, 8)
    return ents


INPUT_ARRAYS = ("w", "c", "coordinate_dofs", "entity_local_index", "quadrature_permutation")
TUPLE_CAP = {"quick": 300, "thorough": 1000}


def tuple_space(chk, c):
    """(entity_local_index, quadrature_permutation) tuples of kernel `c`: ALL of them up to TUPLE_CAP[tier]; above the cap
    (hexahedron / prism interior facets) the reduction C08 uses: every entity tuple at the extreme permutation tuples, every
    permutation tuple at the extreme entity tuples, and a seeded sample of 20."""
    space = entity_perm_space(c)
    full = len(space)
    if full > TUPLE_CAP[chk.tier]:
        es = sorted({s_[0] for s_ in space})
        ps = sorted({s_[1] for s_ in space})
        keep = {(e_, p_) for e_ in es for p_ in (ps[0], ps[-1])} | {(e_, p_) for p_ in ps for e_ in (es[0], es[-1])}
        rs = np.random.default_rng(chk.seed)
        keep |= {space[int(i)] for i in rs.choice(len(space), size=20, replace=False)}
        space = sorted(keep)
        chk.notes.setdefault("reduced_entity_perm_products", []).append(f"{c.name}: {len(space)} of {full}")
    return space


class _ReplyTimeout:
    """reply time limit of harness.lean.Driver.ask (VERIF_DRIVER_TIMEOUT, read per request) for the requests inside the block:
    one execReads run of the largest demo kernel (HyperElasticity, 2744 points) takes > 10 minutes"""

    def __init__(self, seconds):
        self.seconds = seconds

    def __enter__(self):
        self.old = os.environ.get("VERIF_DRIVER_TIMEOUT")
        os.environ["VERIF_DRIVER_TIMEOUT"] = str(max(self.seconds, float(self.old or 0)))

    def __exit__(self, *a):
        if self.old is None:
            os.environ.pop("VERIF_DRIVER_TIMEOUT", None)
        else:
            os.environ["VERIF_DRIVER_TIMEOUT"] = self.old


def _sx(xs):
    return "(" + " ".join(str(x) for x in xs) + ")"


def read_sets(chk, d, ents):
    """Per kernel, through the Lean driver (`driver_layout`, commands of FfcxModel/Driver/ReadOnly.lean):
    `readOnly W k` for every input array W (hypothesis of unread_irrelevant / disabled_irrelevant); for every
    (entity, permutation) tuple `readsAvoidB` (reads of w avoid the blocks of the coefficients flagged disabled) and
    `readsInBlocksB` + `blockOf` (per-read block attribution) with the blocks computed from UFL; read sets of c vs its extent."""
    for e in ents:
        try:
            cases, _, _ = kernels.cases_for_entry(e)
        except Exception as ex:
            chk.notes.setdefault("skipped", []).append(f"{e.name}: {type(ex).__name__}")
            continue
        for c in cases:
            chk.programs += 1
            # ---- readOnly W k, W = the kernel's input arrays
            r = d.ask(f"(readonly {' '.join(INPUT_ARRAYS)} {c.ast_sexp})")
            chk.case("read_only", c.name)
            if r[0] != "ok" or len(r) != 1 + len(INPUT_ARRAYS):
                chk.disagree("readonly command fails on a generated kernel", {"kernel": c.name, "reply": r})
            else:
                bad = [w for w, v in zip(INPUT_ARRAYS, r[1:]) if v != "true"]
                if bad:
                    chk.disagree("a generated kernel is not read-only in an input array (hypothesis `readOnly W k` of "
                                 "unread_irrelevant / disabled_irrelevant fails)", {"kernel": c.name, "arrays": bad})
            # ---- blocks of the contract (from UFL: kernels.py) and the flags of the IR
            width = 2 if (c.kind == "integral" and c.integral_type == "interior_facet") else 1
            if any(n % width for (_, _, n) in c.coef_blocks):
                chk.disagree("coefficient block size is not a multiple of the width", {"kernel": c.name, "blocks": c.coef_blocks})
                continue
            dims = [n // width for (_, _, n) in c.coef_blocks]
            if c.kind == "integral":
                flags = [bool(f) for f in c.ir.enabled_coefficients]
                if len(flags) != len(c.coef_blocks):
                    chk.violation(f"c05:enabled-length:{e.name}", "enabled_coefficients has the wrong length",
                                  {"kernel": c.name, "flags": flags, "blocks": c.coef_blocks})
                    continue
            else:
                flags = [True] * len(dims)  # expression kernels carry no flags: attribution only
            space = tuple_space(chk, c)
            ent0, prm0 = space[0]
            # the reads of c (checked against its extent only; C08 bounds every access for every tuple) are collected for every
            # tuple of small products and for at most ~64 evenly spaced tuples (first and last included) of large ones
            step = max(1, len(space) // 64)
            with_c = [k % step == 0 or k == len(space) - 1 for k in range(len(space))]
            giant = len(c.ast_sexp) > 2_000_000  # HyperElasticity-sized kernels: one execReads run takes minutes
            if giant:
                with_c = [False] * len(space)
                chk.notes.setdefault("c_reads_skipped_giant_kernel", []).append(c.name)
            chunk = max(1, min(128, 40_000_000 // max(1, len(c.ast_sexp))))
            tl = [f"({_sx(ent)} {_sx(prm)} {'true' if wc else 'false'})" for (ent, prm), wc in zip(space, with_c)]
            r, failed = ["ok"], None
            for k0 in range(0, len(tl), chunk):  # ≤ 128 tuples per request (fewer for big ASTs): the driver's reply timeout is per request
                with _ReplyTimeout(3600):
                    rk = d.ask(f"(coefreads {c.ast_sexp} {width} {_sx(dims)} {_sx('true' if f else 'false' for f in flags)} "
                               f"{shape_inputs(c, ent0, prm0)} {' '.join(tl[k0:k0 + chunk])})")
                if rk[0] != "ok" or len(rk) != 1 + len(tl[k0:k0 + chunk]):
                    failed = rk
                    break
                r += rk[1:]
            if failed is not None:
                chk.disagree("read-set run fails", {"kernel": c.name, "reply": failed[:3]})
                continue
            rw, rc, used_lean = set(), set(), set()
            unknown = unsupported = False
            for (ent, prm), t in zip(space, r[1:]):
                chk.case("read_tuple", None)
                if t and t[0] == "err":
                    if t[1:] == ["unsupported", "int array decl"]:
                        # the LNodes semantics has no integer array declarations (demo_CellGeometry: facet_edge_vertices
                        # tables): the kernel is outside the reach of the certificates — counted, not a broken tie
                        unsupported = True
                    else:
                        chk.disagree("read-set run fails", {"kernel": c.name, "entity": ent, "perm": prm, "reply": t})
                    continue
                avoid, inb, used, wr, cr, unk = t
                wr, cr = [int(v) for v in wr], [int(v) for v in cr]
                rw.update(wr)
                rc.update(cr)
                used_lean.update(int(v) for v in used)
                unknown = unknown or unk == "true"
                if inb != "true" and unk != "true":
                    chk.violation(f"c05:w-read-outside:{e.name}", "read of w outside all coefficient blocks (readsInBlocksB fails)",
                                  {"kernel": c.name, "entity": ent, "perm": prm, "reads": wr[:20], "extent": c.sizes["w"]})
                if avoid != "true" and unk != "true" and inb == "true":
                    hit = [j for j, ((_, off, n), f) in enumerate(zip(c.coef_blocks, flags)) if not f and any(off <= k < off + n for k in wr)]
                    if not hit:
                        chk.disagree("readsAvoidB fails but no read lies in a disabled block (model vs harness)", {"kernel": c.name, "reads": wr[:20]})
                    for j in hit:
                        off, n = c.coef_blocks[j][1], c.coef_blocks[j][2]
                        chk.violation(f"c05:disabled-but-read:{e.name}",
                                      f"coefficient {j} is flagged disabled but the kernel reads its block of w (readsAvoidB fails)",
                                      {"kernel": c.name, "coefficient": j, "block": c.coef_blocks[j], "entity": ent, "perm": prm,
                                       "reads_in_block": [k for k in wr if off <= k < off + n][:10]})
            if unsupported:
                chk.hist["read_set:model-unsupported-int-array-decl"] = chk.hist.get("read_set:model-unsupported-int-array-decl", 0) + 1
                chk.notes.setdefault("kernels_outside_the_lnodes_model", []).append(c.name)
                continue
            if unknown:
                chk.disagree("a subscript of w/c could not be evaluated statically", {"kernel": c.name})
            if rc and (min(rc) < 0 or max(rc) >= c.sizes["c"]):
                chk.violation(f"c05:c-read-outside:{e.name}", "read of c outside all constant blocks", {"kernel": c.name, "reads": sorted(rc)[:20]})
            # the model's per-read attribution (blockOf) against the harness' own interval test
            used = [any(off <= k < off + n for k in rw) for (_, off, n) in c.coef_blocks]
            if sorted(used_lean) != [j for j, u in enumerate(used) if u] and all(0 <= k < c.sizes["w"] for k in rw):
                chk.disagree("per-read block attribution (blockOf) vs the blocks computed from UFL",
                             {"kernel": c.name, "model": sorted(used_lean), "harness": used, "blocks": c.coef_blocks})
            if c.kind == "integral":
                chk.case("read_set", f"{c.name}:{''.join('1' if u else '0' for u in used)}",
                         sample={"kernel": c.name, "w_reads": len(rw), "blocks": c.coef_blocks, "enabled": flags, "tuples": len(space)}
                         if len(chk.samples) < 4 else None)
                if any(not f for f in flags):
                    chk.hist["read_set:has-disabled-coefficient"] = chk.hist.get("read_set:has-disabled-coefficient", 0) + 1
            else:
                chk.case("read_set", f"{c.name}:expr")


def poison_search(chk, ents):
    """C kernels: NaN in the storage of disabled coefficients must not change A; enabled flags read back."""
    def work(i):
        e = ents[i]
        out = {"name": e.name, "n": 0, "bad": []}
        rng = np.random.default_rng(chk.seed * 13 + i)
        objs, cases, comp, mod = numeric.build(e, {})
        for c in cases:
            if c.kind != "integral":
                continue
            ko = kernels.compiled_kernel(comp, c)
            ncoef = len(c.coef_blocks)
            flags = [bool(ko.enabled_coefficients[j]) for j in range(ncoef)]
            if flags != [bool(f) for f in c.ir.enabled_coefficients]:
                out["bad"].append({"kernel": c.name, "what": "compiled enabled_coefficients differ from the IR", "compiled": flags})
            for ent, prm in entity_perm_space(c)[:3]:
                inp = numeric.make_data(c, rng, entity=ent, perm=prm)
                A0 = numeric.call_c(mod, ko, c, inp, "float64")
                inp2 = dict(inp)
                w2 = np.array(inp["w"], dtype=float)
                for (j, off, n), f in zip(c.coef_blocks, flags):
                    if not f:
                        w2[off:off + n] = np.nan
                inp2["w"] = w2
                A1 = numeric.call_c(mod, ko, c, inp2, "float64")
                out["n"] += 1
                if not np.array_equal(A0, A1, equal_nan=True):  # out-of-domain math functions of random data give NaN in both runs
                    out["bad"].append({"kernel": c.name, "what": "result depends on the storage of a disabled coefficient", "flags": flags})
                    break
        return out
    res = cjit.parallel_map(work, list(range(len(ents))))
    for i, (st, r) in sorted(res.items()):
        if st != "ok":
            chk.notes.setdefault("errors", []).append(f"{ents[i].name}: {st}: {str(r)[:200]}")
            continue
        chk.case("nan_poison", r["name"], n=max(1, r["n"]))
        for b in r["bad"]:
            chk.violation(f"c05:poison:{r['name']}:{b['what'][:30]}", b["what"], {"entry": r["name"], **b})


def packing_oracle(chk, ents):
    """The values the kernels take from w and c are the ones the contract puts there: every selected form/expression
    against the independent oracle, which reads coefficient j / constant j at the positions the UFCx contract defines."""
    def work(i):
        return numeric.compare_entry(ents[i], {}, seed=chk.seed * 37 + i, reps=2)
    res = cjit.parallel_map(work, list(range(len(ents))))
    for i, (st, r) in sorted(res.items()):
        if st != "ok" or "error" in r:
            chk.notes.setdefault("oracle_errors", []).append(f"{ents[i].name}: {str(r)[:160]}")
            continue
        chk.case("packing_oracle", r["name"], n=max(1, r["compared"]))
        for b in r["bad"]:
            if str(b.get("c_value")) == "nan" and str(b.get("oracle_value")) == "nan":
                # kernel and oracle both give NaN (out-of-domain math function of the random data): nothing to compare
                chk.hist["packing_oracle:both-nan"] = chk.hist.get("packing_oracle:both-nan", 0) + 1
                continue
            chk.violation(f"c05:packing:{r['name']}", f"kernel does not consume w/c in the declared packing: differs from the oracle (rel {b.get('relerr')})",
                          {"entry": r["name"], **b})


def run(chk):
    chk.rule = ("layout: real IR offsets/positions vs the Lean prefix-sum model on corpus + synthetic forms; real index expressions of "
                "symbols.coefficient_dof_access(_blocked) evaluated by the Lean evalI vs coeffAccess; read sets: for every kernel the Lean "
                "driver decides readOnly for the five input arrays and, for every (entity, permutation) tuple up to "
                f"{TUPLE_CAP['quick']} (quick) / {TUPLE_CAP['thorough']} (thorough) per kernel (above: extreme tuples + seeded sample), "
                "readsAvoidB (reads of w avoid the blocks of disabled coefficients) and readsInBlocksB/blockOf (per-read block attribution), "
                "with the blocks computed from UFL and the flags of the IR; distinct = kernel × used-block pattern. "
                "search: C kernels with NaN in disabled coefficients' storage.")
    chk.trusted += ["readOnly / readsAvoidB / readsInBlocksB are evaluated by the (unverified) native driver; the theorems connecting them "
                    "to exec are unread_irrelevant, disabled_irrelevant, reads_in_blocks (readsAvoidB_eq: what the driver evaluates)"]
    chk.lean(L.LAYOUT_MODULE, L.C05_THEOREMS, extra_files=L.LAYOUT_FILES)
    chk.lean("FfcxProofs.C05", C05_KERNEL_THEOREMS,
             extra_files=[L.LEAN / "FfcxModel/LNodes/ReadBlocks.lean", L.LEAN / "FfcxModel/LNodes/Reads.lean", L.LEAN / "FfcxModel/LNodes/ReadOnly.lean",
                          L.LEAN / "FfcxModel/Driver/ReadOnly.lean"])
    with lean.Driver("driver_layout") as d:
        L.check_c05_layout(chk, d)
        ents = _entries(chk)
        read_sets(chk, d, ents)
    sel = [e for e in ents if e.kind == "form"]
    if chk.tier == "quick":
        sel = [e for e in sel if e.name in ("derivative_drop", "subdomains", "laplace_coef_tri_p2", "int_facet_tri", "multi_rule",
                                            "tensor_constant", "tensor_constant_nonsquare", "rhs_tri_p2", "ext_facet_tri", "quadrature_element", "real_element")]
    poison_search(chk, sel)
    packing_oracle(chk, sel + [e for e in ents if e.kind == "expression"][: (4 if chk.tier == "quick" else 100)])
    if chk.tier == "thorough":
        chk.leanchecker([L.LAYOUT_MODULE, "FfcxProofs.C05"])
