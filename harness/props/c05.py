"""C05 — coefficient/constant packing contract and enabled_coefficients are truthful."""
import numpy as np

from .. import cjit, corpus, kernels, layout_checks as L, lean, numeric, pipeline
from .c08 import entity_perm_space, shape_inputs


def _entries(chk):
    ents = corpus.fixed() + corpus.expressions()
    if chk.tier == "thorough":
        ents += corpus.demos() + corpus.generated(chk.seed, 80)
    else:
        ents += corpus.generated(chk.seed, 8)
    return ents


def read_sets(chk, d, ents):
    """Read sets of w and c (Lean, all entity/permutation tuples) vs blocks and enabled flags."""
    for e in ents:
        try:
            cases, _, _ = kernels.cases_for_entry(e)
        except Exception as ex:
            chk.notes.setdefault("skipped", []).append(f"{e.name}: {type(ex).__name__}")
            continue
        for c in cases:
            chk.programs += 1
            rw, rc = set(), set()
            unknown = False
            space = entity_perm_space(c)
            if len(space) > 40 and chk.tier == "quick":
                space = space[::max(1, len(space) // 40)]
            for ent, prm in space:
                for name, acc in (("w", rw), ("c", rc)):
                    r = d.ask(f"(reads {name} {c.ast_sexp} {shape_inputs(c, ent, prm)})")
                    if r[0] != "ok":
                        chk.disagree("read-set run fails", {"kernel": c.name, "reply": r})
                        continue
                    vals = r[1:]
                    if vals and vals[0] == "unknown":
                        unknown = True
                        vals = vals[1:]
                    acc.update(int(v) for v in vals)
            if unknown:
                chk.disagree("a subscript of w/c could not be evaluated statically", {"kernel": c.name})
            # every read lies in the block of some coefficient / constant
            if rw and (min(rw) < 0 or max(rw) >= c.sizes["w"]):
                chk.violation(f"c05:w-read-outside:{e.name}", "read of w outside all coefficient blocks", {"kernel": c.name, "reads": sorted(rw)[:20]})
            if rc and (min(rc) < 0 or max(rc) >= c.sizes["c"]):
                chk.violation(f"c05:c-read-outside:{e.name}", "read of c outside all constant blocks", {"kernel": c.name, "reads": sorted(rc)[:20]})
            if c.kind == "integral":
                flags = list(c.ir.enabled_coefficients)
                used = [any(off <= k < off + n for k in rw) for (_, off, n) in c.coef_blocks]
                chk.case("read_set", f"{c.name}:{''.join('1' if u else '0' for u in used)}",
                         sample={"kernel": c.name, "w_reads": len(rw), "blocks": c.coef_blocks, "enabled": [bool(f) for f in flags]}
                         if len(chk.samples) < 4 else None)
                if len(flags) != len(c.coef_blocks):
                    chk.violation(f"c05:enabled-length:{e.name}", "enabled_coefficients has the wrong length",
                                  {"kernel": c.name, "flags": [bool(f) for f in flags], "blocks": c.coef_blocks})
                    continue
                for j, (f, u) in enumerate(zip(flags, used)):
                    if u and not f:
                        chk.violation(f"c05:disabled-but-read:{e.name}",
                                      f"coefficient {j} is flagged disabled but the kernel reads its block of w",
                                      {"kernel": c.name, "coefficient": j, "block": c.coef_blocks[j],
                                       "reads_in_block": sorted(k for k in rw if c.coef_blocks[j][1] <= k < c.coef_blocks[j][1] + c.coef_blocks[j][2])[:10]})
            else:
                chk.case("read_set", f"{c.name}:expr")


def poison_search(chk, ents):
    """C kernels: NaN in the storage of disabled coefficients must not change A; enabled flags read back."""
    def work(i):
        e = ents[i]
        out = {"name": e.name, "n": 0, "bad": []}
        rng = np.random.default_rng(chk.seed * 13 + i)
        objs, cases, comp, mod = numeric.build(e, {})
        for c in cases:
            if c.kind != "integral":
                continue
            ko = kernels.compiled_kernel(comp, c)
            ncoef = len(c.coef_blocks)
            flags = [bool(ko.enabled_coefficients[j]) for j in range(ncoef)]
            if flags != [bool(f) for f in c.ir.enabled_coefficients]:
                out["bad"].append({"kernel": c.name, "what": "compiled enabled_coefficients differ from the IR", "compiled": flags})
            for ent, prm in entity_perm_space(c)[:3]:
                inp = numeric.make_data(c, rng, entity=ent, perm=prm)
                A0 = numeric.call_c(mod, ko, c, inp, "float64")
                inp2 = dict(inp)
                w2 = np.array(inp["w"], dtype=float)
                for (j, off, n), f in zip(c.coef_blocks, flags):
                    if not f:
                        w2[off:off + n] = np.nan
                inp2["w"] = w2
                A1 = numeric.call_c(mod, ko, c, inp2, "float64")
                out["n"] += 1
                if not np.array_equal(A0, A1):
                    out["bad"].append({"kernel": c.name, "what": "result depends on the storage of a disabled coefficient", "flags": flags})
                    break
        return out
    res = cjit.parallel_map(work, list(range(len(ents))))
    for i, (st, r) in sorted(res.items()):
        if st != "ok":
            chk.notes.setdefault("errors", []).append(f"{ents[i].name}: {st}: {str(r)[:200]}")
            continue
        chk.case("nan_poison", r["name"], n=max(1, r["n"]))
        for b in r["bad"]:
            chk.violation(f"c05:poison:{r['name']}:{b['what'][:30]}", b["what"], {"entry": r["name"], **b})


def packing_oracle(chk, ents):
    """The values the kernels take from w and c are the ones the contract puts there: every selected form/expression
    against the independent oracle, which reads coefficient j / constant j at the positions the UFCx contract defines."""
    def work(i):
        return numeric.compare_entry(ents[i], {}, seed=chk.seed * 37 + i, reps=2)
    res = cjit.parallel_map(work, list(range(len(ents))))
    for i, (st, r) in sorted(res.items()):
        if st != "ok" or "error" in r:
            chk.notes.setdefault("oracle_errors", []).append(f"{ents[i].name}: {str(r)[:160]}")
            continue
        chk.case("packing_oracle", r["name"], n=max(1, r["compared"]))
        for b in r["bad"]:
            chk.violation(f"c05:packing:{r['name']}", f"kernel does not consume w/c in the declared packing: differs from the oracle (rel {b.get('relerr')})",
                          {"entry": r["name"], **b})


def run(chk):
    chk.rule = ("layout: real IR offsets/positions vs the Lean prefix-sum model on corpus + synthetic forms; read sets: for every kernel the Lean "
                "driver computes the indices of w and c read over ALL entity/permutation tuples (both branches of conditionals) and compares "
                "them with the coefficient blocks (from UFL) and enabled_coefficients; distinct = kernel × used-block pattern. "
                "search: C kernels with NaN in disabled coefficients' storage.")
    chk.trusted += ["read sets are computed by the (unverified) driver evaluation of execReads; the noninterference theorem connecting them to exec is unread_irrelevant"]
    chk.lean(L.LAYOUT_MODULE, L.C05_THEOREMS, extra_files=L.LAYOUT_FILES)
    chk.lean("FfcxProofs.C05", ["Ffcx.LNodes.unread_irrelevant", "Ffcx.LNodes.reads_data_independent"])
    with lean.Driver("driver_layout") as d:
        L.check_c05_layout(chk, d)
    ents = _entries(chk)
    with lean.Driver("driver") as d:
        read_sets(chk, d, ents)
    sel = [e for e in ents if e.kind == "form"]
    if chk.tier == "quick":
        sel = [e for e in sel if e.name in ("derivative_drop", "subdomains", "laplace_coef_tri_p2", "int_facet_tri", "multi_rule",
                                            "tensor_constant", "tensor_constant_nonsquare", "rhs_tri_p2", "ext_facet_tri", "quadrature_element", "real_element")]
    poison_search(chk, sel)
    packing_oracle(chk, sel + [e for e in ents if e.kind == "expression"][: (4 if chk.tier == "quick" else 100)])
    if chk.tier == "thorough":
        chk.leanchecker([L.LAYOUT_MODULE, "FfcxProofs.C05"])
