"""C15 — a failed or killed JIT build never poisons later requests or the process.

(a) Lean obligations: FfcxProofs/C15.lean.
(b) Correspondence model vs real `jit.compile_forms` (and, on a subset, `jit.compile_expressions`:
    same protocol, same model) under `harness/sched.py` with fault injection:
    every fail point (code generation; the four phases of the C build; creating the marker's temp
    file; `fd.write`/`fd.close` on it; `os.replace` into place) and every kill point of the builder, each followed by every interleaving of one later request with the builder's remaining
    steps and by a third, late request; earlier-arrived waiters; seeded random schedules with random
    faults.
(c) Failing-input search on the real code with the property's own oracle: the failing request
    raises; `.c` is renamed to `.c.failed`; `logging.getLogger().handlers` and `sys.stdout` are what
    they were before the request; the next request builds afresh and returns correct kernels; after a
    kill every later request either returns correct kernels from a complete module or raises
    TimeoutError after exactly `timeout` polls.  Two search keys stay armed for the (repaired, /repo 101bdbe)
    marker-write defects: a failing request that leaves the ready marker behind while releasing the lock is
    reported under `fail:<cause>:stale-marker-poisons-cache` together with everything that follows from it in
    the same schedule; an import of an incomplete module in a schedule with a failed marker write under
    `fail:markwrite:withdrawn-marker-import-race`.  One run uses the real C compiler (made to fail
    through the CFLAGS environment variable, so that the retry has the same module name).
"""
import logging
import os
import random
import sys

import ffcx.codegeneration.jit as jit
from harness import lean, pipeline, sched
from harness.props import c14

THEOREMS = [
    "Ffcx.Jit.fail_releases_lock",
    "Ffcx.Jit.kill_safe",
    "Ffcx.Jit.marker_after_compile",
    "Ffcx.Jit.globals_restored",
    "Ffcx.Jit.no_poison",
]

B = sched.BUILDER_OPS  # lock gen swap src obj link1 link2 unredir tmpcreate tmpwrite markcheck publish restore find load
FAIL_OPS = ["gen", "src", "obj", "link1", "link2", "tmpcreate", "tmpwrite", "publish"]
# steps the failing request still takes: (tmpremove,) (restore handlers in `finally`,) release
REST = {"gen": 1, "src": 2, "obj": 2, "link1": 2, "link2": 2, "tmpcreate": 2, "tmpwrite": 3, "publish": 3}
INJECTED = (sched.InjectedCodegenError, sched.InjectedCompileError, sched.InjectedMarkerOpenError,
            sched.InjectedMarkerWriteError, sched.InjectedPublishError)
STALE_KEY = "fail:{cause}:stale-marker-poisons-cache"
RACE_KEY = "fail:markwrite:withdrawn-marker-import-race"


def fail_key(op, what):
    """Canonical id of a failing point: all four phases of ffibuilder.compile are one exit of
    `_compile_objects` ("compile raises")."""
    point = "compile-raises" if op in sched.COMPILE_OPS else f"{op}-raises"  # gen / tmpcreate / tmpwrite / publish
    return f"globals:{point}:{what}"


def stale_marker(chk, sc, payload):
    """Root cause: a request RAISED and left the directory with the ready marker present and the lock gone
    (judged by the directory contents at the moment the request raised).  Everything that follows in the
    same schedule - later builders dying with FileExistsError, imports of a `.so` that is being relinked -
    is reported with it, under the one key of the root cause."""
    k = next((k for k, e in enumerate(sc.finish_log) if e[1] == "raised" and e[3].get("marker") and e[3].get("lock") == "absent"), None)
    if k is None:
        return False
    pid, _, exc, fs = sc.finish_log[k]
    cause = {"InjectedMarkerWriteError": "markwrite"}.get(exc, exc)
    later = [[p, kind, e] for p, kind, e, _ in sc.finish_log[k + 1:]]
    partial = [[st.pid, list(st.loaded)] for st in sc.procs if any(x != "complete" for x in st.loaded)]
    nfee = sum(1 for _, kind, e in later if e == "FileExistsError")
    what = (f"jit.{sc.ref.entry}: request {pid} raised {exc} from fd.write/fd.close on the ready marker; <module>.c.cached stays while "
            f"<module>.c is renamed to .c.failed; of {len(later)} later request(s) {nfee} rebuilt everything and died with FileExistsError "
            f"at open(ready_name,'x'), {len(partial)} imported a .so that was being relinked; the cache entry stays poisoned")
    c14.report(chk, STALE_KEY.format(cause=cause), what, dict(payload, observed={
        "directory_when_the_failing_request_raised": fs,
        "later_requests_in_order_of_completion": later,
        "imports_of_an_incomplete_module": partial,
        "final_directory": sc.fs()[0],
        "markwrite_fail_at": sc.patches.markwrite_fail_at,
    }))
    return True


def generic_oracle(chk, sc, schedule, late_pids):
    """Holds for every schedule with any faults."""
    return _generic(chk, sc, schedule)[0]


def _generic(chk, sc, schedule):
    """-> (payload, attributed): attributed = the schedule contains the stale-marker root cause (reported)."""
    payload = {"api": sc.ref.api, "n": sc.n, "timeout": sc.timeout, "schedule": [list(x) for x in schedule], "trace": [list(t) for t in sc.trace]}
    if stale_marker(chk, sc, payload):
        return payload, True
    write_failed = any(t[1] in ("tmpwrite", "markwrite") and t[2] == "raise" for t in sc.trace)
    for st in sc.procs:
        if any(x != "complete" for x in st.loaded):
            if write_failed:
                c14.report(chk, RACE_KEY, f"jit.{sc.ref.entry}: after a failed write of the ready marker request {st.pid} "
                                          f"imported a {st.loaded} module (a marker it had seen was withdrawn / the .so relinked)", payload)
            else:
                c14.report(chk, "load:incomplete-module", f"request {st.pid} imported a {st.loaded} module", payload)
        if not st.finished or st.dead:
            continue
        o = st.outcome
        if o[0] == "done":
            ok, val = sc.ref.check(o[2][0], o[3])
            if not ok:
                c14.report(chk, "kernel:wrong-result", f"request {st.pid} returned a kernel computing {val}", payload)
        elif o[0] == "raised":
            e = o[1]
            if isinstance(e, TimeoutError):
                if st.polls != sc.timeout:
                    c14.report(chk, "timeout:wrong-poll-count", f"request {st.pid}: TimeoutError after {st.polls} polls, timeout={sc.timeout}", payload)
            elif not isinstance(e, INJECTED):
                c14.report(chk, f"later-request:raised:{type(e).__name__}", f"request {st.pid} raised {e!r}", payload)
    got = {st.pid: st.loaded_from[-1] for st in sc.procs if st.finished and not st.dead and st.outcome[0] == "done" and st.loaded_from}
    if len(set(got.values())) > 1:
        c14.report(chk, "module:not-the-same", f"requests returned different modules {got}", payload)
    return payload, False


def make_fail_oracle(op, rel_index):
    """Oracle for: request 0 builds alone, `op` raises, later request 1, late request 2."""

    def oracle(chk, sc, schedule, late_pids):
        payload, attributed = _generic(chk, sc, schedule)
        if attributed:
            return
        payload["fault"] = f"fail at {op}"
        st0 = sc.procs[0]
        if not (st0.finished and st0.outcome[0] == "raised" and isinstance(st0.outcome[1], INJECTED)):
            c14.report(chk, f"fail:{op}:not-raised", f"the failing request ended as {sc.status(0)}", payload)
            return
        # the lock is released: judged by the directory as the failing request left it (not by the gates)
        fs0 = st0.fs_at_finish[0] if st0.fs_at_finish else {}
        if fs0.get("lock") != "absent" or not fs0.get("failed"):
            c14.report(chk, f"fail:{op}:lock-not-released",
                       f"when the failing request raised the directory was {fs0}: <module>.c still there / no <module>.c.failed", payload)
            return
        # the moment request 0 raised (its last step) and what the process looks like right after it
        k = max((i for i, t in enumerate(sc.trace) if t[0] == 0 and t[1] not in ("none", "again", "kill")), default=None)
        if k is None:
            return
        others_building = any(t[0] != 0 and t[1] in ("swap",) for t in sc.trace[:k])
        if not others_building:
            _, _, _, h, s = sc.trace[k]
            if h != "user":
                c14.report(chk, fail_key(op, "handlers"),
                              f"after the request raised ({op} failed) logging.getLogger().handlers is still the capture handler", payload)
            if s != "user":
                c14.report(chk, fail_key(op, "stdout"), f"after the request raised ({op} failed) sys.stdout is still redirected", payload)
        # a request that arrives after the release must build afresh, not wait
        first1 = next((i for i, t in enumerate(sc.trace) if t[0] == 1 and t[1] == "lock"), None)
        if first1 is not None and first1 > k:
            if sc.trace[first1][2] != "ok":
                c14.report(chk, f"fail:{op}:next-request-waits", "the request after the release did not acquire the lock", payload)
            st1 = sc.procs[1]
            if st1.finished and not (st1.outcome[0] == "done" and st1.outcome[1]):
                c14.report(chk, f"fail:{op}:next-request-failed", f"the request after the release ended as {sc.status(1)}", payload)
            st2 = sc.procs[2]
            if st1.finished and st2.finished and not (st2.outcome[0] == "done" and not st2.outcome[1] and st2.compiles == 0):
                c14.report(chk, f"fail:{op}:late-request", f"the late request ended as {sc.status(2)} compiles={st2.compiles}", payload)

    return oracle


def make_retry_oracle(op):
    """Request 0 fails at `op`, raises, and the same process asks again: it must find its globals as
    they were, build afresh and get correct kernels; a later request reuses the module."""

    def oracle(chk, sc, schedule, late_pids):
        payload, attributed = _generic(chk, sc, schedule)
        if attributed:
            return
        payload["fault"] = f"fail at {op}, then the same process asks again"
        st0 = sc.procs[0]
        k = next((i for i, t in enumerate(sc.trace) if t[0] == 0 and t[1] == "again"), None)
        if k is None or not st0.history or st0.history[0][0] != "raised":
            c14.report(chk, f"fail:{op}:not-raised", f"first request ended as {st0.history[:1]}", payload)
            return
        _, _, _, h, s = sc.trace[k]
        if h != "user":
            c14.report(chk, fail_key(op, "handlers"), f"the next request of the same process starts with the capture handler installed ({op} failed)", payload)
        if s != "user":
            c14.report(chk, fail_key(op, "stdout"), f"the next request of the same process starts with sys.stdout redirected ({op} failed)", payload)
        if not (st0.finished and st0.outcome[0] == "done" and st0.outcome[1]):
            c14.report(chk, f"fail:{op}:retry-failed", f"the retry of the same process ended as {sc.status(0)}", payload)
        if sc.trace[-1][3:] != ("user", "user"):
            c14.report(chk, "globals:after-retry", f"globals after the retry: {sc.trace[-1][3:]}", payload)
        st1 = sc.procs[1]
        if st1.finished and not (st1.outcome[0] == "done" and not st1.outcome[1]):
            c14.report(chk, f"fail:{op}:late-request", f"the later request ended as {sc.status(1)}", payload)

    return oracle


def retry_after_timeout_oracle(chk, sc, schedule, late_pids):
    payload, attributed = _generic(chk, sc, schedule)
    if attributed:
        return
    st1 = sc.procs[1]
    if not (st1.history and st1.history[0][0] == "raised" and isinstance(st1.history[0][1], TimeoutError)):
        c14.report(chk, "timeout:not-raised", f"waiter behind a stalled builder ended as {st1.history[:1]}", payload)
    elif not (st1.finished and st1.outcome[0] == "done" and not st1.outcome[1]):
        c14.report(chk, "timeout:retry-failed", f"the retry after the timeout ended as {sc.status(1)}", payload)


def make_kill_oracle(op):
    """Oracle for: request 0 is killed when about to perform `op`; later requests 1 and 2."""

    def oracle(chk, sc, schedule, late_pids):
        payload, attributed = _generic(chk, sc, schedule)
        if attributed:
            return
        payload["fault"] = f"kill before {op}"
        marker_written = B.index(op) > B.index("publish")  # (killed before os.replace: only a stray temp file)
        for pid in (1, 2):
            st = sc.procs[pid]
            if not st.finished:
                c14.report(chk, f"kill:{op}:later-request-hangs", f"request {pid} still at {st.pending} after {sc.timeout + 6} steps", payload)
                continue
            o = st.outcome
            if marker_written:
                if not (o[0] == "done" and not o[1]):
                    c14.report(chk, f"kill:{op}:complete-module-not-reused", f"request {pid} ended as {sc.status(pid)}", payload)
            else:
                if not (o[0] == "raised" and isinstance(o[1], TimeoutError)):
                    c14.report(chk, f"kill:{op}:no-timeout", f"request {pid} ended as {sc.status(pid)} although no marker exists", payload)

    return oracle


def real_compiler_failure(chk, root):
    """No scheduler, no patches: the real C compiler fails, then the same request is repeated."""
    rootlog = logging.getLogger()
    sentinel = logging.NullHandler()
    before_handlers = list(rootlog.handlers)
    rootlog.addHandler(sentinel)
    entry_handlers = list(rootlog.handlers)
    entry_stdout = sys.stdout
    cdir = root / "realfail"
    old_cflags = os.environ.get("CFLAGS")
    info = {
        "mode": "real compiler, CFLAGS=-fno-such-flag-xyz", "form": "P1 mass matrix on an interval (harness.sched.tiny_form)",
        "repro": "cd /verif && CFLAGS=-fno-such-flag-xyz PYTHONPATH=/verif /venv/bin/python -c \"import logging, shutil, tempfile; "
                 "import ffcx.codegeneration.jit as j; from harness import sched; h = logging.NullHandler(); "
                 "logging.getLogger().addHandler(h); d = tempfile.mkdtemp(prefix='ffcxverif_')\ntry: j.compile_forms([sched.tiny_form()], cache_dir=d)\n"
                 "except Exception as e: print(type(e).__name__, logging.getLogger().handlers)\nfinally: shutil.rmtree(d)\"",
    }
    def failing_compile():
        os.environ["CFLAGS"] = "-fno-such-flag-xyz"
        exc = None
        sys.stderr.flush()
        saved_fd2 = os.dup(2)  # the compiler's complaint goes to fd 2 of this process: silence it
        devnull = os.open(os.devnull, os.O_WRONLY)
        try:
            os.dup2(devnull, 2)
            jit.compile_forms([sched.tiny_form()], cache_dir=cdir, timeout=2)
        except Exception as e:  # noqa: BLE001
            exc = e
        finally:
            os.dup2(saved_fd2, 2)
            os.close(saved_fd2)
            os.close(devnull)
            if old_cflags is None:
                os.environ.pop("CFLAGS", None)
            else:
                os.environ["CFLAGS"] = old_cflags
        return exc

    try:
        exc = failing_compile()
        after_handlers = list(rootlog.handlers)
        after_stdout = sys.stdout
        # put the process back before anything else is reported
        sys.stdout = entry_stdout
        rootlog.handlers = list(entry_handlers)
        listing = sorted(os.listdir(cdir)) if cdir.exists() else []
        info.update(exception=type(exc).__name__ if exc else None, listing=listing,
                    handlers_after=[type(h).__name__ for h in after_handlers])
        if exc is None:
            info["note"] = "the compiler did not fail; nothing checked"
            chk.case(kind="real-compiler-failure", key=None, sample=info)
            return
        if isinstance(exc, TimeoutError):
            c14.report(chk, "fail:real-cc:timeout", "a fresh request timed out", info)
        if not any(n.endswith(".c.failed") for n in listing) or any(n.endswith(".c") for n in listing):
            c14.report(chk, "fail:real-cc:lock-not-released", f"directory after the failure: {listing}", info)
        if after_handlers != entry_handlers:
            c14.report(chk, fail_key("obj", "handlers"),
                          "after a failing C compile logging.getLogger().handlers is [StreamHandler(StringIO)] instead of the user's handlers", info)
        if after_stdout is not entry_stdout:
            c14.report(chk, fail_key("obj", "stdout"), "after a failing C compile sys.stdout is still redirected", info)
        # the compiler is still broken and the user tries again: history (a `.c.failed` is already there)
        # must not change the outcome - the request raises and the lock is released again
        exc1 = failing_compile()
        sys.stdout = entry_stdout
        rootlog.handlers = list(entry_handlers)
        listing1 = sorted(os.listdir(cdir)) if cdir.exists() else []
        info.update(second_failure=type(exc1).__name__ if exc1 else None, listing_after_second_failure=listing1)
        if isinstance(exc1, TimeoutError):
            c14.report(chk, "fail:real-cc:timeout", "the request after a failed build timed out instead of building afresh", info)
        elif exc1 is not None and (not any(n.endswith(".c.failed") for n in listing1) or any(n.endswith(".c") for n in listing1)):
            c14.report(chk, "fail:real-cc:lock-not-released", f"directory after the second failure in a row: {listing1}", info)
        # the next request (same module name) must build afresh
        exc2 = None
        try:
            objs, mod, code = jit.compile_forms([sched.tiny_form()], cache_dir=cdir, timeout=2)
        except Exception as e:  # noqa: BLE001
            exc2 = e
        info["retry"] = type(exc2).__name__ if exc2 else "built" if code[0] is not None else "cached"
        if exc2 is not None:
            c14.report(chk, "fail:real-cc:next-request-failed", f"the retry raised {exc2!r}", info)
        else:
            ok, val = sched.kernel_ok(objs[0], mod)
            if not ok or code[0] is None:
                c14.report(chk, "fail:real-cc:next-request-wrong", f"retry built={code[0] is not None} kernel={val}", info)
        if list(rootlog.handlers) != entry_handlers or sys.stdout is not entry_stdout:
            c14.report(chk, "globals:normal-exit", "a successful build changed the root handlers or sys.stdout", info)
        chk.case(kind="real-compiler-failure", key="cflags", sample=info)
    finally:
        sys.stdout = entry_stdout
        rootlog.handlers = before_handlers


def marker_write_fails(n=4, timeout=3):
    """Request 0 builds, `fd.write` on the marker's temp file raises, the temp file is removed, the handlers
    are restored, the lock is renamed; request 1 rebuilds (complete run); requests 2 and 3 arrive afterwards
    and the process of request 0 asks again: all three must reuse the module."""
    return ([(0, "none")] * B.index("tmpwrite") + [(0, "fail")] + [(0, "none")] * REST["tmpwrite"]
            + [(1, "none")] * len(B) + [(2, "none")] * 4 + [(3, "none")] * 4 + [(0, "again")] + [(0, "none")] * 4)


def marker_write_fails_race(n=3, timeout=3):
    """The interleaving of the withdrawn-marker race: request 1 polls while request 0 is between creating and
    publishing the marker; request 0's write fails; request 2 rebuilds up to the half-written `.so`; request 1
    moves on; everybody finishes."""
    return ([(0, "none")] * B.index("tmpwrite") + [(1, "none")] * 2 + [(0, "fail")] + [(0, "none")] * REST["tmpwrite"]
            + [(2, "none")] * (B.index("link1") + 1) + [(1, "none")] * 2 + [(2, "none")] * len(B) + [(1, "none")] * 6)


def recovery_oracle(chk, sc, schedule, late_pids):
    """After a failed marker write: request 0 raised the OSError, left neither marker nor lock nor temp file;
    the next request rebuilt successfully; everybody after it reused the module without compiling."""
    payload, attributed = _generic(chk, sc, schedule)
    if attributed:
        return
    st0 = sc.procs[0]
    first = st0.history[0] if st0.history else st0.outcome
    fs0 = (st0.fs_history[0] if st0.fs_history else st0.fs_at_finish) or ({},)
    if not (first and first[0] == "raised" and isinstance(first[1], sched.InjectedMarkerWriteError)):
        c14.report(chk, "fail:tmpwrite:not-raised", f"the request whose marker write failed ended as {first}", payload)
        return
    d0 = fs0[0]
    if d0.get("lock") != "absent" or not d0.get("failed") or d0.get("tmp"):
        c14.report(chk, "fail:tmpwrite:lock-not-released", f"when the failing request raised the directory was {d0}", payload)
    st1 = sc.procs[1]
    if not (st1.finished and st1.outcome[0] == "done" and st1.outcome[1]):
        c14.report(chk, "fail:tmpwrite:next-request-failed", f"the request after the failed marker write ended as {sc.status(1)}", payload)
    for st in sc.procs[2:] + [st0]:
        if st.finished and not (st.outcome[0] == "done" and not st.outcome[1] and st.compiles == 0):
            c14.report(chk, "fail:tmpwrite:late-request", f"late request {st.pid} ended as {sc.status(st.pid)} compiles={st.compiles}", payload)


def drive(chk, P, d, root, idx, timeouts, full, rng, nrand):
    """All fault schedules on one API (P.ref.api); `full` = every position, else a subset."""
    # -- the marker write fails (the two armed search keys: stale marker, withdrawn-marker import race)
    for at in ("write", "close"):
        P.markwrite_fail_at = at
        c14.run_one(chk, P, d, root, idx, 4, 3, marker_write_fails(), kind="marker-write-fails", key=f"tmpwrite@{at}:recovery",
                    oracle=recovery_oracle)
        idx += 1
        c14.run_one(chk, P, d, root, idx, 3, 3, marker_write_fails_race(), kind="marker-write-fails", key=f"tmpwrite@{at}:race",
                    oracle=generic_oracle)
        idx += 1
        if not full:
            break
    P.markwrite_fail_at = "write"
    for timeout in timeouts:
        K = timeout + 16  # enough steps for any request to finish
        late = c14.completion([2], timeout + 4)
        # -- every fail point x every position of the builder's release among the later request's steps
        for op in FAIL_OPS:
            pre = [(0, "none")] * B.index(op) + [(0, "fail")]
            rest = [(0, "none")] * REST[op]
            for j in (range(K + 1) if full else (0, 4, K)):
                P.markwrite_fail_at = "close" if (op == "tmpwrite" and j % 2) else "write"
                schedule = pre + [(1, "none")] * j + rest + [(1, "none")] * (K - j) + late
                c14.run_one(chk, P, d, root, idx, 3, timeout, schedule, kind="fail-point",
                            key=f"t{timeout}:fail@{op}:release-after-{j}", oracle=make_fail_oracle(op, j))
                idx += 1
            P.markwrite_fail_at = "write"
            if op != "gen":  # the later request moves between (`tmpremove`,) `restore` and `release`
                for j1 in (range(3) if full else (1,)):
                    for j2 in (range(1, 4) if full else (2,)):
                        schedule = (pre + [(1, "none")] * j1 + [(0, "none")] * (REST[op] - 1) + [(1, "none")] * j2 + [(0, "none")]
                                    + [(1, "none")] * K + late)
                        c14.run_one(chk, P, d, root, idx, 3, timeout, schedule, kind="fail-point",
                                    key=f"t{timeout}:fail@{op}:restore-{j1}-release-{j2}", oracle=make_fail_oracle(op, j1))
                        idx += 1
            # the same process asks again after its failed request
            schedule = pre + rest + [(0, "again")] + [(0, "none")] * len(B) + c14.completion([1], timeout + 4)
            c14.run_one(chk, P, d, root, idx, 3, timeout, schedule, kind="retry-after-fail",
                        key=f"t{timeout}:fail@{op}:again", oracle=make_retry_oracle(op))
            idx += 1
            # a waiter that arrived before the failure keeps polling and times out / is served by nobody
            for k0 in (range(1, B.index(op) + 1) if full else (1,)):
                schedule = [(0, "none")] * k0 + [(1, "none")] + [(0, "none")] * (B.index(op) - k0) + [(0, "fail")] + rest
                schedule += c14.completion([1, 2], K)
                c14.run_one(chk, P, d, root, idx, 3, timeout, schedule, kind="fail-point-early-waiter",
                            key=f"t{timeout}:fail@{op}:waiter-after-{k0}", oracle=generic_oracle)
                idx += 1
        # -- every kill point of the builder, one later request, one more
        for op in B[1:]:
            pre = [(0, "none")] * B.index(op) + [(0, "kill")]
            schedule = pre + [(1, "none")] * (timeout + 6) + [(2, "none")] * (timeout + 6)
            c14.run_one(chk, P, d, root, idx, 3, timeout, schedule, kind="kill-point",
                        key=f"t{timeout}:kill@{op}", oracle=make_kill_oracle(op))
            idx += 1
            # the later request is already waiting when the builder dies
            for k0 in (([1, B.index(op)] if B.index(op) > 1 else [1]) if full else [1]):
                schedule = [(0, "none")] * k0 + [(1, "none")] + [(0, "none")] * (B.index(op) - k0) + [(0, "kill")]
                schedule += c14.completion([1, 2], timeout + 6)
                c14.run_one(chk, P, d, root, idx, 3, timeout, schedule, kind="kill-point-early-waiter",
                            key=f"t{timeout}:kill@{op}:waiter-after-{k0}", oracle=generic_oracle)
                idx += 1
        # a waiter times out behind a stalled builder, the builder finishes, the waiter asks again
        schedule = [(0, "none")] + [(1, "none")] * (timeout + 1) + [(0, "none")] * (len(B) - 1) + [(1, "again")] + [(1, "none")] * 5
        c14.run_one(chk, P, d, root, idx, 2, timeout, schedule, kind="retry-after-timeout",
                    key=f"t{timeout}:timeout:again", oracle=retry_after_timeout_oracle)
        idx += 1
        # kill of a waiter / of a request that has not arrived: nobody else is affected
        for pre in ([(0, "none"), (1, "kill")], [(0, "none"), (1, "none"), (1, "kill")], [(0, "none"), (1, "none"), (1, "none"), (1, "kill")]):
            schedule = list(pre) + c14.completion([0, 2], len(B) + 1)
            c14.run_one(chk, P, d, root, idx, 3, timeout, schedule, kind="kill-waiter",
                        key=f"t{timeout}:" + c14.sched_key(pre), oracle=generic_oracle)
            idx += 1
    # -- seeded random schedules with random faults (<= 3 further requests)
    for k in range(nrand):
        n = rng.choice([3, 4])
        timeout = rng.choice([1, 2, 3])
        L = rng.randint(8, 40)
        w = [rng.random() + 0.15 for _ in range(n)]
        pf, pk = rng.choice([(0.1, 0.03), (0.04, 0.06), (0.2, 0.0), (0.0, 0.08)])
        P.markwrite_fail_at = rng.choice(["write", "close"])
        schedule = []
        for _ in range(L):
            p = rng.choices(range(n), weights=w)[0]
            r = rng.random()
            schedule.append((p, "fail" if r < pf else ("kill" if r < pf + pk else ("again" if r < pf + pk + 0.06 else "none"))))
        if rng.random() < 0.6:
            schedule += c14.completion(range(n), timeout + 16)
        faults = [c for _, c in schedule if c != "none"]
        c14.run_one(chk, P, d, root, idx, n, timeout, schedule, kind="random-faults",
                    key=f"n{n}t{timeout}:" + c14.sched_key(schedule) if faults else None, oracle=generic_oracle)
        idx += 1
    P.markwrite_fail_at = "write"
    return idx


def run(chk):
    chk.rule = (
        "a case is one forced schedule with fault choices (fail = the gated operation raises, kill = the request is "
        "abandoned at its gate) of N real jit.compile_forms (kinds '...:expressions': jit.compile_expressions) calls on one "
        "cache directory; distinct = distinct (fault point, schedule); non-trivial = contains at least one fault"
    )
    chk.trusted += [
        "atomicity of open(...,'x'), os.replace, os.path.exists and of each cffi build phase (DESIGN §5)",
        "harness/sched.py fault injection: fail = exception raised at the gate of the real call (for the ready marker: by the "
        "file object open() returned, at fd.write or at fd.close); kill = thread abandoned "
        "(files stay as they are); a partial .so is the first half of the reference .so",
        "threads of one process stand for processes: process-global state is observed while at most one request is building",
    ]
    chk.assumptions += [
        "a killed process leaves every file as written so far (no torn directory entries)",
        "one model process issues its requests one after the other (choice `again`); threads inside one process are not modelled",
    ]
    chk.lean("FfcxProofs.C15", THEOREMS, extra_files=c14.LEAN_FILES)

    thorough = chk.tier == "thorough"
    rng = random.Random(chk.seed * 104729 + 15)
    with pipeline.TmpCache() as root:
        ref = sched.Reference(root)
        ref_e = sched.Reference(root, api="expressions")
        chk.notes["reference_build_s"] = round(ref.build_s, 2)
        # -- the real C compiler fails (first, so that the reported failing input is the unpatched one)
        real_compiler_failure(chk, root)
        idx = 0
        timeouts = [2, 3] if thorough else [2]
        with lean.Driver("driver_jit") as d:
            try:
                with sched.Patches(ref) as P:
                    idx = drive(chk, P, d, root, idx, timeouts, True, rng, 3000 if thorough else 350)
                    chk.notes["real_dlopens"] = P.real_loads
                # -- compile_expressions: same protocol, same model; a subset of the same schedules
                with sched.Patches(ref_e) as P:
                    idx = drive(chk, P, d, root, idx, timeouts[:1], thorough, rng, 300 if thorough else 40)
            except sched.CannotGate as e:
                c14.cannot_gate(chk, e)
            if not sched.patches_intact():
                raise RuntimeError("sched.Patches left jit.py patched")
        if sched.leftover_threads():
            raise RuntimeError(f"leftover worker threads {sched.leftover_threads()}")
    if thorough:
        chk.leanchecker(["FfcxProofs.C15"])


def replay(chk, payload):
    """`./check C15 --replay <file>`: run the recorded schedule(s) again on the real code, same oracles."""
    chk.lean("FfcxProofs.C15", THEOREMS, extra_files=c14.LEAN_FILES)
    with pipeline.TmpCache() as root:
        refs = {}
        with lean.Driver("driver_jit") as d:
            for k, v in enumerate(payload.get("violations", [])):
                pl = v.get("payload") or {}
                if "schedule" not in pl:
                    continue
                api = pl.get("api", "forms")
                if api not in refs:
                    refs[api] = sched.Reference(root, api=api)
                try:
                    with sched.Patches(refs[api]) as P:
                        P.markwrite_fail_at = (pl.get("observed") or {}).get("markwrite_fail_at", "write")
                        c14.run_one(chk, P, d, root, k, pl["n"], pl["timeout"], [tuple(x) for x in pl["schedule"]],
                                    kind="replay", key=v.get("key"), oracle=generic_oracle)
                except sched.CannotGate as e:
                    c14.cannot_gate(chk, e)
