"""C15 — a failed or killed JIT build never poisons later requests or the process.

(a) Lean obligations: FfcxProofs/C15.lean.
(b) Correspondence model vs real `jit.compile_forms` under `harness/sched.py` with fault injection:
    every fail point (code generation; the four phases of the C build) and every kill point of the
    builder, each followed by every interleaving of one later request with the builder's remaining
    steps and by a third, late request; earlier-arrived waiters; seeded random schedules with random
    faults.
(c) Failing-input search on the real code with the property's own oracle: the failing request
    raises; `.c` is renamed to `.c.failed`; `logging.getLogger().handlers` and `sys.stdout` are what
    they were before the request; the next request builds afresh and returns correct kernels; after a
    kill every later request either returns correct kernels from a complete module or raises
    TimeoutError after exactly `timeout` polls.  One run uses the real C compiler (made to fail
    through the CFLAGS environment variable, so that the retry has the same module name).
"""
import logging
import os
import random
import sys

import ffcx.codegeneration.jit as jit
from harness import lean, pipeline, sched
from harness.props import c14

THEOREMS = [
    "Ffcx.Jit.fail_releases_lock",
    "Ffcx.Jit.kill_safe",
    "Ffcx.Jit.marker_after_compile",
    "Ffcx.Jit.globals_restored",
]

B = sched.BUILDER_OPS  # lock gen swap src obj link1 link2 unredir mark restore find load
FAIL_OPS = ["gen", "src", "obj", "link1", "link2"]
INJECTED = (sched.InjectedCodegenError, sched.InjectedCompileError)


def fail_key(op, what):
    """Canonical id of a failing point: all four phases of ffibuilder.compile are one exit of
    `_compile_objects` ("compile raises")."""
    point = "compile-raises" if op in sched.COMPILE_OPS else f"{op}-raises"
    return f"globals:{point}:{what}"


def generic_oracle(chk, sc, schedule, late_pids):
    """Holds for every schedule with any faults."""
    payload = {"n": sc.n, "timeout": sc.timeout, "schedule": [list(x) for x in schedule], "trace": [list(t) for t in sc.trace]}
    for st in sc.procs:
        if any(x != "complete" for x in st.loaded):
            c14.report(chk, "load:incomplete-module", f"request {st.pid} imported a {st.loaded} module", payload)
        if not st.finished or st.dead:
            continue
        o = st.outcome
        if o[0] == "done":
            ok, val = sched.kernel_ok(o[2][0], o[3])
            if not ok:
                c14.report(chk, "kernel:wrong-result", f"request {st.pid} returned a kernel computing {val}", payload)
        elif o[0] == "raised":
            e = o[1]
            if isinstance(e, TimeoutError):
                if st.polls != sc.timeout:
                    c14.report(chk, "timeout:wrong-poll-count", f"request {st.pid}: TimeoutError after {st.polls} polls, timeout={sc.timeout}", payload)
            elif not isinstance(e, INJECTED):
                c14.report(chk, f"later-request:raised:{type(e).__name__}", f"request {st.pid} raised {e!r}", payload)
    return payload


def make_fail_oracle(op, rel_index):
    """Oracle for: request 0 builds alone, `op` raises, later request 1, late request 2."""

    def oracle(chk, sc, schedule, late_pids):
        payload = generic_oracle(chk, sc, schedule, late_pids)
        payload["fault"] = f"fail at {op}"
        st0 = sc.procs[0]
        if not (st0.finished and st0.outcome[0] == "raised" and isinstance(st0.outcome[1], INJECTED)):
            c14.report(chk, f"fail:{op}:not-raised", f"the failing request ended as {sc.status(0)}", payload)
            return
        # the release step of request 0 and what the process looks like right after it
        k = next((i for i, t in enumerate(sc.trace) if t[0] == 0 and t[1] == "release"), None)
        if k is None or sc.trace[k][2] != "ok":
            c14.report(chk, f"fail:{op}:lock-not-released", "no successful os.replace(.c -> .c.failed)", payload)
            return
        others_building = any(t[0] != 0 and t[1] in ("swap",) for t in sc.trace[:k])
        if not others_building:
            _, _, _, h, s = sc.trace[k]
            if h != "user":
                c14.report(chk, fail_key(op, "handlers"),
                              f"after the request raised ({op} failed) logging.getLogger().handlers is still the capture handler", payload)
            if s != "user":
                c14.report(chk, fail_key(op, "stdout"), f"after the request raised ({op} failed) sys.stdout is still redirected", payload)
        # a request that arrives after the release must build afresh, not wait
        first1 = next((i for i, t in enumerate(sc.trace) if t[0] == 1 and t[1] == "lock"), None)
        if first1 is not None and first1 > k:
            if sc.trace[first1][2] != "ok":
                c14.report(chk, f"fail:{op}:next-request-waits", "the request after the release did not acquire the lock", payload)
            st1 = sc.procs[1]
            if st1.finished and not (st1.outcome[0] == "done" and st1.outcome[1]):
                c14.report(chk, f"fail:{op}:next-request-failed", f"the request after the release ended as {sc.status(1)}", payload)
            st2 = sc.procs[2]
            if st1.finished and st2.finished and not (st2.outcome[0] == "done" and not st2.outcome[1] and st2.compiles == 0):
                c14.report(chk, f"fail:{op}:late-request", f"the late request ended as {sc.status(2)} compiles={st2.compiles}", payload)

    return oracle


def make_retry_oracle(op):
    """Request 0 fails at `op`, raises, and the same process asks again: it must find its globals as
    they were, build afresh and get correct kernels; a later request reuses the module."""

    def oracle(chk, sc, schedule, late_pids):
        payload = generic_oracle(chk, sc, schedule, late_pids)
        payload["fault"] = f"fail at {op}, then the same process asks again"
        st0 = sc.procs[0]
        k = next((i for i, t in enumerate(sc.trace) if t[0] == 0 and t[1] == "again"), None)
        if k is None or not st0.history or st0.history[0][0] != "raised":
            c14.report(chk, f"fail:{op}:not-raised", f"first request ended as {st0.history[:1]}", payload)
            return
        _, _, _, h, s = sc.trace[k]
        if h != "user":
            c14.report(chk, fail_key(op, "handlers"), f"the next request of the same process starts with the capture handler installed ({op} failed)", payload)
        if s != "user":
            c14.report(chk, fail_key(op, "stdout"), f"the next request of the same process starts with sys.stdout redirected ({op} failed)", payload)
        if not (st0.finished and st0.outcome[0] == "done" and st0.outcome[1]):
            c14.report(chk, f"fail:{op}:retry-failed", f"the retry of the same process ended as {sc.status(0)}", payload)
        if sc.trace[-1][3:] != ("user", "user"):
            c14.report(chk, "globals:after-retry", f"globals after the retry: {sc.trace[-1][3:]}", payload)
        st1 = sc.procs[1]
        if st1.finished and not (st1.outcome[0] == "done" and not st1.outcome[1]):
            c14.report(chk, f"fail:{op}:late-request", f"the later request ended as {sc.status(1)}", payload)

    return oracle


def retry_after_timeout_oracle(chk, sc, schedule, late_pids):
    payload = generic_oracle(chk, sc, schedule, late_pids)
    st1 = sc.procs[1]
    if not (st1.history and st1.history[0][0] == "raised" and isinstance(st1.history[0][1], TimeoutError)):
        c14.report(chk, "timeout:not-raised", f"waiter behind a stalled builder ended as {st1.history[:1]}", payload)
    elif not (st1.finished and st1.outcome[0] == "done" and not st1.outcome[1]):
        c14.report(chk, "timeout:retry-failed", f"the retry after the timeout ended as {sc.status(1)}", payload)


def make_kill_oracle(op):
    """Oracle for: request 0 is killed when about to perform `op`; later requests 1 and 2."""

    def oracle(chk, sc, schedule, late_pids):
        payload = generic_oracle(chk, sc, schedule, late_pids)
        payload["fault"] = f"kill before {op}"
        marker_written = B.index(op) > B.index("mark")
        for pid in (1, 2):
            st = sc.procs[pid]
            if not st.finished:
                c14.report(chk, f"kill:{op}:later-request-hangs", f"request {pid} still at {st.pending} after {sc.timeout + 6} steps", payload)
                continue
            o = st.outcome
            if marker_written:
                if not (o[0] == "done" and not o[1]):
                    c14.report(chk, f"kill:{op}:complete-module-not-reused", f"request {pid} ended as {sc.status(pid)}", payload)
            else:
                if not (o[0] == "raised" and isinstance(o[1], TimeoutError)):
                    c14.report(chk, f"kill:{op}:no-timeout", f"request {pid} ended as {sc.status(pid)} although no marker exists", payload)

    return oracle


def real_compiler_failure(chk, root):
    """No scheduler, no patches: the real C compiler fails, then the same request is repeated."""
    rootlog = logging.getLogger()
    sentinel = logging.NullHandler()
    before_handlers = list(rootlog.handlers)
    rootlog.addHandler(sentinel)
    entry_handlers = list(rootlog.handlers)
    entry_stdout = sys.stdout
    cdir = root / "realfail"
    old_cflags = os.environ.get("CFLAGS")
    info = {
        "mode": "real compiler, CFLAGS=-fno-such-flag-xyz", "form": "P1 mass matrix on an interval (harness.sched.tiny_form)",
        "repro": "cd /verif && CFLAGS=-fno-such-flag-xyz PYTHONPATH=/verif /venv/bin/python -c \"import logging, shutil, tempfile; "
                 "import ffcx.codegeneration.jit as j; from harness import sched; h = logging.NullHandler(); "
                 "logging.getLogger().addHandler(h); d = tempfile.mkdtemp(prefix='ffcxverif_')\ntry: j.compile_forms([sched.tiny_form()], cache_dir=d)\n"
                 "except Exception as e: print(type(e).__name__, logging.getLogger().handlers)\nfinally: shutil.rmtree(d)\"",
    }
    try:
        os.environ["CFLAGS"] = "-fno-such-flag-xyz"
        exc = None
        sys.stderr.flush()
        saved_fd2 = os.dup(2)  # the compiler's complaint goes to fd 2 of this process: silence it
        devnull = os.open(os.devnull, os.O_WRONLY)
        try:
            os.dup2(devnull, 2)
            jit.compile_forms([sched.tiny_form()], cache_dir=cdir, timeout=2)
        except Exception as e:  # noqa: BLE001
            exc = e
        finally:
            os.dup2(saved_fd2, 2)
            os.close(saved_fd2)
            os.close(devnull)
            if old_cflags is None:
                os.environ.pop("CFLAGS", None)
            else:
                os.environ["CFLAGS"] = old_cflags
        after_handlers = list(rootlog.handlers)
        after_stdout = sys.stdout
        # put the process back before anything else is reported
        sys.stdout = entry_stdout
        rootlog.handlers = list(entry_handlers)
        listing = sorted(os.listdir(cdir)) if cdir.exists() else []
        info.update(exception=type(exc).__name__ if exc else None, listing=listing,
                    handlers_after=[type(h).__name__ for h in after_handlers])
        if exc is None:
            info["note"] = "the compiler did not fail; nothing checked"
            chk.case(kind="real-compiler-failure", key=None, sample=info)
            return
        if isinstance(exc, TimeoutError):
            c14.report(chk, "fail:real-cc:timeout", "a fresh request timed out", info)
        if not any(n.endswith(".c.failed") for n in listing) or any(n.endswith(".c") for n in listing):
            c14.report(chk, "fail:real-cc:lock-not-released", f"directory after the failure: {listing}", info)
        if after_handlers != entry_handlers:
            c14.report(chk, fail_key("obj", "handlers"),
                          "after a failing C compile logging.getLogger().handlers is [StreamHandler(StringIO)] instead of the user's handlers", info)
        if after_stdout is not entry_stdout:
            c14.report(chk, fail_key("obj", "stdout"), "after a failing C compile sys.stdout is still redirected", info)
        # the next request (same module name) must build afresh
        exc2 = None
        try:
            objs, mod, code = jit.compile_forms([sched.tiny_form()], cache_dir=cdir, timeout=2)
        except Exception as e:  # noqa: BLE001
            exc2 = e
        info["retry"] = type(exc2).__name__ if exc2 else "built" if code[0] is not None else "cached"
        if exc2 is not None:
            c14.report(chk, "fail:real-cc:next-request-failed", f"the retry raised {exc2!r}", info)
        else:
            ok, val = sched.kernel_ok(objs[0], mod)
            if not ok or code[0] is None:
                c14.report(chk, "fail:real-cc:next-request-wrong", f"retry built={code[0] is not None} kernel={val}", info)
        if list(rootlog.handlers) != entry_handlers or sys.stdout is not entry_stdout:
            c14.report(chk, "globals:normal-exit", "a successful build changed the root handlers or sys.stdout", info)
        chk.case(kind="real-compiler-failure", key="cflags", sample=info)
    finally:
        sys.stdout = entry_stdout
        rootlog.handlers = before_handlers


def run(chk):
    chk.rule = (
        "a case is one forced schedule with fault choices (fail = the gated operation raises, kill = the request is "
        "abandoned at its gate) of N real jit.compile_forms calls on one cache directory; distinct = distinct "
        "(fault point, schedule); non-trivial = contains at least one fault"
    )
    chk.trusted += [
        "atomicity of open(...,'x'), os.replace, os.path.exists and of each cffi build phase (DESIGN §5)",
        "harness/sched.py fault injection: fail = exception raised at the gate of the real call; kill = thread abandoned "
        "(files stay as they are); a partial .so is the first half of the reference .so",
        "threads of one process stand for processes: process-global state is observed while at most one request is building",
    ]
    chk.assumptions += [
        "a killed process leaves every file as written so far (no torn directory entries)",
        "one model process issues its requests one after the other (choice `again`); threads inside one process are not modelled",
    ]
    chk.lean("FfcxProofs.C15", THEOREMS, extra_files=c14.LEAN_FILES)

    thorough = chk.tier == "thorough"
    rng = random.Random(chk.seed * 104729 + 15)
    with pipeline.TmpCache() as root:
        ref = sched.Reference(root)
        chk.notes["reference_build_s"] = round(ref.build_s, 2)
        # -- the real C compiler fails (first, so that the reported failing input is the unpatched one)
        real_compiler_failure(chk, root)
        idx = 0
        timeouts = [2, 3] if thorough else [2]
        with lean.Driver("driver_jit") as d:
            with sched.Patches(ref) as P:
                for timeout in timeouts:
                    K = timeout + 13  # enough steps for any request to finish
                    late = c14.completion([2], timeout + 4)
                    # -- every fail point x every position of the builder's release among the later request's steps
                    for op in FAIL_OPS:
                        pre = [(0, "none")] * B.index(op) + [(0, "fail")]
                        # what the failing request still does: (restore handlers in `finally`,) release
                        rest = [(0, "none")] * (1 if op == "gen" else 2)
                        for j in range(K + 1):
                            schedule = pre + [(1, "none")] * j + rest + [(1, "none")] * (K - j) + late
                            c14.run_one(chk, P, d, root, idx, 3, timeout, schedule, kind="fail-point",
                                        key=f"t{timeout}:fail@{op}:release-after-{j}", oracle=make_fail_oracle(op, j))
                            idx += 1
                        if op != "gen":  # the later request moves between `restore` and `release`
                            for j1 in range(3):
                                for j2 in range(1, 4):
                                    schedule = (pre + [(1, "none")] * j1 + [(0, "none")] + [(1, "none")] * j2 + [(0, "none")]
                                                + [(1, "none")] * K + late)
                                    c14.run_one(chk, P, d, root, idx, 3, timeout, schedule, kind="fail-point",
                                                key=f"t{timeout}:fail@{op}:restore-{j1}-release-{j2}", oracle=make_fail_oracle(op, j1))
                                    idx += 1
                        # the same process asks again after its failed request
                        schedule = pre + rest + [(0, "again")] + [(0, "none")] * 12 + c14.completion([1], timeout + 4)
                        c14.run_one(chk, P, d, root, idx, 3, timeout, schedule, kind="retry-after-fail",
                                    key=f"t{timeout}:fail@{op}:again", oracle=make_retry_oracle(op))
                        idx += 1
                        # a waiter that arrived before the failure keeps polling and times out / is served by nobody
                        for k0 in range(1, B.index(op) + 1):
                            schedule = [(0, "none")] * k0 + [(1, "none")] + [(0, "none")] * (B.index(op) - k0) + [(0, "fail")] + rest
                            schedule += c14.completion([1, 2], K)
                            c14.run_one(chk, P, d, root, idx, 3, timeout, schedule, kind="fail-point-early-waiter",
                                        key=f"t{timeout}:fail@{op}:waiter-after-{k0}", oracle=generic_oracle)
                            idx += 1
                    # -- every kill point of the builder, one later request, one more
                    for op in B[1:]:
                        pre = [(0, "none")] * B.index(op) + [(0, "kill")]
                        schedule = pre + [(1, "none")] * (timeout + 6) + [(2, "none")] * (timeout + 6)
                        c14.run_one(chk, P, d, root, idx, 3, timeout, schedule, kind="kill-point",
                                    key=f"t{timeout}:kill@{op}", oracle=make_kill_oracle(op))
                        idx += 1
                        # the later request is already waiting when the builder dies
                        for k0 in ([1, B.index(op)] if B.index(op) > 1 else [1]):
                            schedule = [(0, "none")] * k0 + [(1, "none")] + [(0, "none")] * (B.index(op) - k0) + [(0, "kill")]
                            schedule += c14.completion([1, 2], timeout + 6)
                            c14.run_one(chk, P, d, root, idx, 3, timeout, schedule, kind="kill-point-early-waiter",
                                        key=f"t{timeout}:kill@{op}:waiter-after-{k0}", oracle=generic_oracle)
                            idx += 1
                    # a waiter times out behind a stalled builder, the builder finishes, the waiter asks again
                    schedule = [(0, "none")] + [(1, "none")] * (timeout + 1) + [(0, "none")] * 11 + [(1, "again")] + [(1, "none")] * 5
                    c14.run_one(chk, P, d, root, idx, 2, timeout, schedule, kind="retry-after-timeout",
                                key=f"t{timeout}:timeout:again", oracle=retry_after_timeout_oracle)
                    idx += 1
                    # kill of a waiter / of a request that has not arrived: nobody else is affected
                    for pre in ([(0, "none"), (1, "kill")], [(0, "none"), (1, "none"), (1, "kill")], [(0, "none"), (1, "none"), (1, "none"), (1, "kill")]):
                        schedule = list(pre) + c14.completion([0, 2], 13)
                        c14.run_one(chk, P, d, root, idx, 3, timeout, schedule, kind="kill-waiter",
                                    key=f"t{timeout}:" + c14.sched_key(pre), oracle=generic_oracle)
                        idx += 1
                # -- seeded random schedules with random faults (<= 3 further requests)
                nrand = 3000 if thorough else 350
                for k in range(nrand):
                    n = rng.choice([3, 4])
                    timeout = rng.choice([1, 2, 3])
                    L = rng.randint(8, 40)
                    w = [rng.random() + 0.15 for _ in range(n)]
                    pf, pk = rng.choice([(0.1, 0.03), (0.04, 0.06), (0.2, 0.0), (0.0, 0.08)])
                    schedule = []
                    for _ in range(L):
                        p = rng.choices(range(n), weights=w)[0]
                        r = rng.random()
                        schedule.append((p, "fail" if r < pf else ("kill" if r < pf + pk else ("again" if r < pf + pk + 0.06 else "none"))))
                    if rng.random() < 0.6:
                        schedule += c14.completion(range(n), timeout + 13)
                    faults = [c for _, c in schedule if c != "none"]
                    c14.run_one(chk, P, d, root, idx, n, timeout, schedule, kind="random-faults",
                                key=f"n{n}t{timeout}:" + c14.sched_key(schedule) if faults else None, oracle=generic_oracle)
                    idx += 1
                chk.notes["real_dlopens"] = P.real_loads
            if not sched.patches_intact():
                raise RuntimeError("sched.Patches left jit.py patched")
        if sched.leftover_threads():
            raise RuntimeError(f"leftover worker threads {sched.leftover_threads()}")
    if thorough:
        chk.leanchecker(["FfcxProofs.C15"])
