"""C02 — facet and vertex kernels integrate over the indicated entity (DESIGN.md §6 C02).

Parts
 (a) Lean obligations (FfcxProofs.C02) over the reference-cell data regenerated from /repo.
 (b) correspondence model <-> code: map_facet_points / map_edge_points / map_integral_points,
     symbols.entity, the entity axis of the real element tables (captured inside
     build_optimized_tables) against basix tabulation at *model*-mapped points, and the macro
     layout (A blocks, w offsets, coordinate_dofs offsets) observed on compiled kernels against
     the model's index functions.
 (c) failing-input search: compiled C kernels against an independent oracle (numpy + basix only)
     that integrates over the physical sub-entity selected by entity_local_index, for every local
     entity index of every cell type, with distinct data on the two cells of an interior facet.

This module also hosts the geometry/oracle helpers shared with harness/props/c03.py.
"""
import itertools
import math
import random
from fractions import Fraction

import basix
import basix.ufl
import numpy as np
import ufl

from harness import extract_geom, kernels, lean, pipeline, sexp
from harness import corpus as corpus_mod

TDIM = {"point": 0, "interval": 1, "triangle": 2, "quadrilateral": 2, "tetrahedron": 3, "hexahedron": 3,
        "prism": 3, "pyramid": 3}
NUM_CODES = {"point": 1, "interval": 2, "triangle": 6, "quadrilateral": 8}
# ufcx_integral_type
ITYPE = {"cell": 0, "exterior_facet": 1, "interior_facet": 2, "vertex": 3, "ridge": 4}

THEOREMS = [
    "Ffcx.C02.refgeom_nonvacuous", "Ffcx.C02.facet_map_vertices", "Ffcx.C02.facet_map_affine",
    "Ffcx.C02.refgeom_tables", "Ffcx.C02.refgeom_access_partial", "Ffcx.C02.entity_by_restriction",
    "Ffcx.C02.entity_table_read", "Ffcx.C02.macro_layout",
]
# FfcxProofs.C02Known: statements expected to become FALSE when the known finding is repaired upstream
KNOWN_FINDING_KEY = "refgeom:reference_facet_edge_vectors:ignores-facet"
KNOWN_THEOREMS = ["Ffcx.C02.refgeom_access_counterexample"]


# =====================================================================================
#  Independent reference geometry (numpy + basix only — nothing from ffcx below this line
#  until the "FFCx side" section)
# =====================================================================================
def ctype(cell):
    return getattr(basix.CellType, cell)


def ref_geometry(cell):
    g = np.asarray(basix.geometry(ctype(cell)), dtype=float)
    if g.shape[0] == 0:
        g = np.zeros((1, 0))
    return g


def ref_topology(cell):
    return basix.topology(ctype(cell))


def facet_type(cell, f):
    return basix.cell.sub_entity_type(ctype(cell), TDIM[cell] - 1, f).name


def num_facets(cell):
    return len(ref_topology(cell)[TDIM[cell] - 1])


def ref_entity_map(cell, dim, ent, Xe):
    """Points of the reference entity -> points of the reference cell (v0 + sum (v_j - v0) X_j)."""
    g = ref_geometry(cell)
    vs = [g[i] for i in ref_topology(cell)[dim][ent]]
    Xe = np.asarray(Xe, dtype=float)
    Xe = Xe.reshape(Xe.shape[0], 0) if dim == 0 else Xe.reshape(-1, dim)
    out = np.tile(vs[0], (Xe.shape[0], 1))
    for j in range(dim):
        out = out + np.outer(Xe[:, j], vs[j + 1] - vs[0])
    return out


def facet_edge_matrix(cell, f):
    """d(ref cell point)/d(ref facet point): tdim x (tdim-1)."""
    g = ref_geometry(cell)
    td = TDIM[cell]
    vs = [g[i] for i in ref_topology(cell)[td - 1][f]]
    return np.array([vs[j + 1] - vs[0] for j in range(td - 1)]).T.reshape(td, td - 1)


_COORD_EL = {}


def coord_element(cell, gdeg=1):
    if (cell, gdeg) not in _COORD_EL:
        # the scalar element of the coordinate element FFCx sees for mesh(cell, gdeg)
        _COORD_EL[(cell, gdeg)] = basix.ufl.element("P", cell, gdeg).basix_element
    return _COORD_EL[(cell, gdeg)]


def ref_outward_normal(cell, f):
    """Outward normal of facet f of the reference cell (not normalised), from basix geometry only."""
    g = ref_geometry(cell)
    td = TDIM[cell]
    fv = ref_topology(cell)[td - 1][f]
    P = g[fv]
    if td == 1:
        return P[0] - g.mean(axis=0)
    T = (P[1:] - P[0])[: td - 1]
    _, _, vt = np.linalg.svd(T)
    n = vt[-1]
    if np.dot(n, P.mean(axis=0) - g.mean(axis=0)) < 0:
        n = -n
    return n


class PhysCell:
    """A physical cell: coordinates V (nnodes x gdim, gdim = tdim) of the nodes of the degree-`gdeg` Lagrange coordinate
    element (gdeg = 1: the vertices).  `affine` tells whether x(X) is an affine map; the non-affine cells (bilinear
    quadrilaterals, P2 triangles with curved edges) use Newton's method for `inverse` and point-wise normals."""

    def __init__(self, cell, V, gdeg=1):
        self.cell = cell
        self.V = np.asarray(V, dtype=float)
        self.tdim = TDIM[cell]
        self.gdeg = gdeg
        self.nodes = ref_geometry(cell) if gdeg == 1 else np.asarray(coord_element(cell, gdeg).points, dtype=float)
        g = self.nodes
        # affine part (least squares; exact for the affine cells)
        A = np.hstack([g, np.ones((g.shape[0], 1))])
        M, res, *_ = np.linalg.lstsq(A, self.V, rcond=None)
        self.B = M[:-1].T  # gdim x tdim
        self.b = M[-1]
        self.affine = np.allclose(A @ M, self.V, atol=1e-12)

    def x(self, X):
        X = np.asarray(X, dtype=float).reshape(-1, self.tdim)
        tab = coord_element(self.cell, self.gdeg).tabulate(0, X)[0, :, :, 0]
        return tab @ self.V

    def J(self, X):
        X = np.asarray(X, dtype=float).reshape(-1, self.tdim)
        tab = coord_element(self.cell, self.gdeg).tabulate(1, X)  # [1+tdim, npts, ndof, 1]
        # J[p, i, j] = d x_i / d X_j
        return np.einsum("jpk,ki->pij", tab[1:, :, :, 0], self.V)

    def inverse(self, x):
        x = np.asarray(x, dtype=float).reshape(-1, self.V.shape[1])
        X = np.linalg.solve(self.B, (x - self.b).T).T
        if self.affine:
            return X
        for _ in range(50):  # Newton from the affine guess
            r = self.x(X) - x
            if float(np.abs(r).max()) < 1e-15:
                break
            X = X - np.einsum("pij,pj->pi", np.linalg.inv(self.J(X)), r)
        if float(np.abs(self.x(X) - x).max()) > 1e-12:
            raise RuntimeError("Newton inverse of a non-affine cell did not converge")
        g = ref_geometry(self.cell)
        if np.any(X < g.min(axis=0) - 1e-9) or np.any(X > g.max(axis=0) + 1e-9):
            raise RuntimeError("Newton inverse of a non-affine cell left the reference cell")
        return X

    def centroid(self):
        return self.V[: ref_geometry(self.cell).shape[0]].mean(axis=0)

    def coordinate_dofs(self):
        out = np.zeros((self.V.shape[0], 3))
        out[:, : self.V.shape[1]] = self.V
        return out

    def facet_param(self, f, Xf):
        return self.x(ref_entity_map(self.cell, self.tdim - 1, f, Xf))

    def facet_scale(self, f, Xf):
        """sqrt(det(Jf^T Jf)) of the facet parametrisation at reference facet points Xf."""
        if self.tdim == 1:
            return np.ones(len(np.atleast_2d(Xf)))
        X = ref_entity_map(self.cell, self.tdim - 1, f, Xf)
        E = facet_edge_matrix(self.cell, f)
        Jf = np.einsum("pij,jk->pik", self.J(X), E)
        G = np.einsum("pik,pil->pkl", Jf, Jf)
        return np.sqrt(np.linalg.det(G))

    def outward_normal(self, f):
        """Unit normal of physical facet f pointing away from the cell (affine cells)."""
        fv = ref_topology(self.cell)[self.tdim - 1][f]
        P = self.V[fv]
        c = self.centroid()
        if self.tdim == 1:
            d = P[0] - c
            return d / np.linalg.norm(d)
        T = (P[1:] - P[0])[: self.tdim - 1]
        # null space of the tangents
        _, _, vt = np.linalg.svd(T)
        n = vt[-1]
        if np.dot(n, P.mean(axis=0) - c) < 0:
            n = -n
        return n / np.linalg.norm(n)

    def outward_normals_at(self, f, Xcell):
        """Unit outward normals of facet f at the reference-cell points Xcell (any geometry): J^{-T} n_ref, normalised."""
        nref = ref_outward_normal(self.cell, f)
        Jinv = np.linalg.inv(self.J(Xcell))
        n = np.einsum("pji,j->pi", Jinv, nref)
        return n / np.linalg.norm(n, axis=1)[:, None]

    def volume(self):
        assert self.affine
        return abs(np.linalg.det(self.B)) * float(basix.cell.volume(ctype(self.cell)))

    def facet_area(self, f):
        assert self.affine
        ft = facet_type(self.cell, f)
        refvol = 1.0 if ft == "point" else float(basix.cell.volume(ctype(ft)))
        Xf = np.zeros((1, self.tdim - 1)) + 0.25
        return refvol * float(self.facet_scale(f, Xf)[0])


def perm_np(ftype, N, pts):
    """The documented meaning of a permutation code: N//2 rotations, then N%2 reflections."""
    pts = np.array(pts, dtype=float)
    rot, ref = N // 2, N % 2
    if ftype == "point":
        return pts
    if ftype == "interval":
        for _ in range(ref):
            pts = 1 - pts
        return pts
    for _ in range(rot):
        if ftype == "triangle":
            pts = np.stack([pts[:, 1], 1 - pts[:, 0] - pts[:, 1]], axis=1)
        else:
            pts = np.stack([pts[:, 1], 1 - pts[:, 0]], axis=1)
    for _ in range(ref):
        pts = np.stack([pts[:, 1], pts[:, 0]], axis=1)
    return pts


TEST_POINTS = {
    "point": np.zeros((1, 0)),
    "interval": np.array([[0.13], [0.41], [0.77]]),
    "triangle": np.array([[0.11, 0.23], [0.57, 0.19], [0.2, 0.66]]),
    "quadrilateral": np.array([[0.11, 0.23], [0.81, 0.37], [0.3, 0.9]]),
}


def aligning_codes(ftype, phi, psi_pts, tol=1e-9):
    """All codes N with phi(perm_N(T)) == psi(T) on the generic test points T."""
    T = TEST_POINTS[ftype]
    scale = max(1.0, float(np.abs(psi_pts).max()))
    return [N for N in range(NUM_CODES[ftype]) if np.allclose(phi(perm_np(ftype, N, T)), psi_pts, atol=tol * scale, rtol=0)]


def facet_symmetries(ftype):
    """Vertex permutations tau of the reference facet induced by affine maps."""
    if ftype == "point":
        return [(0,)]
    if ftype == "interval":
        return [(0, 1), (1, 0)]
    if ftype == "triangle":
        return list(itertools.permutations(range(3)))
    g = ref_geometry("quadrilateral")
    out = []
    for p in itertools.permutations(range(4)):
        a, b, c = g[p[0]], g[p[1]], g[p[2]]
        if np.allclose(a + (b - a) + (c - a), g[p[3]]):
            out.append(p)
    return out


def cell_symmetries(cell):
    """Vertex renumberings pi (local vertex i of the renumbered cell = old vertex pi[i]) under
    which the cell is still a valid cell of the same shape: all of S_n for simplices, the maps induced by
    affine symmetries of the reference cell otherwise."""
    g = ref_geometry(cell)
    n = g.shape[0]
    if cell in ("interval", "triangle", "tetrahedron"):
        return list(itertools.permutations(range(n)))
    td = TDIM[cell]
    out = []
    A = np.hstack([g, np.ones((n, 1))])
    # choose images of an affinely independent vertex set: v0 and its `td` neighbours along axes
    base = [0] + [int(np.argmax((g == np.eye(td)[k]).all(axis=1))) for k in range(td)]
    for img in itertools.permutations(range(n), td + 1):
        src = np.hstack([g[base], np.ones((td + 1, 1))])
        dst = g[list(img)]
        try:
            M = np.linalg.solve(src, dst)
        except np.linalg.LinAlgError:
            continue
        Y = A @ M
        pi = []
        for y in Y:
            k = np.where(np.all(np.abs(g - y) < 1e-12, axis=1))[0]
            if len(k) != 1:
                pi = None
                break
            pi.append(int(k[0]))
        if pi is not None and sorted(pi) == list(range(n)):
            out.append(tuple(pi))
    return sorted(set(out))


def dyadic(rng, shape, lo=-8, hi=8, den=32.0):
    return rng.integers(lo, hi + 1, size=shape) / den


def random_affine_cell(cell, rng):
    """Random non-degenerate affine image of the reference cell (dyadic vertex coordinates);
    one in four has a negative Jacobian determinant (as unordered simplices have in real meshes)."""
    td = TDIM[cell]
    g = ref_geometry(cell)
    while True:
        B = np.eye(td) + dyadic(rng, (td, td), -10, 10, 32.0)
        if abs(np.linalg.det(B)) > 0.3:
            break
    if td > 1 and rng.integers(0, 4) == 0:
        B = B[:, [1, 0, *range(2, td)]]
    b = dyadic(rng, (td,), -16, 16, 16.0)
    return PhysCell(cell, g @ B.T + b)


def neighbour_cell(cp, ep, cell_m, em, tau, rng):
    """An affine cell of type `cell_m` whose local facet `em` is the facet `ep` of `cp`, glued so that
    facet-local vertex k of '-' is facet-local vertex tau[k] of '+', lying on the other side."""
    td = cp.tdim
    fvp = ref_topology(cp.cell)[td - 1][ep]
    fvm = ref_topology(cell_m)[td - 1][em]
    P = cp.V[fvp]
    g = ref_geometry(cell_m)
    src = [g[fvm[k]] for k in range(td)]  # td affinely independent facet vertices
    dst = [P[tau[k]] for k in range(td)]
    off = [i for i in range(g.shape[0]) if i not in fvm][0]
    fc = P.mean(axis=0)
    opp = fc - (0.75 + 0.25 * rng.integers(0, 3)) * (cp.centroid() - fc)
    if td > 1:
        opp = opp + dyadic(rng, (), -4, 4, 32.0) * (P[1] - P[0])
    src.append(g[off])
    dst.append(opp)
    S = np.hstack([np.array(src), np.ones((td + 1, 1))])
    M = np.linalg.solve(S, np.array(dst))
    V = np.hstack([g, np.ones((g.shape[0], 1))]) @ M
    cm = PhysCell(cell_m, V)
    n = cp.outward_normal(ep)
    assert np.dot(cm.centroid() - fc, n) > 1e-6, "neighbour on the wrong side"
    assert abs(np.linalg.det(cm.B)) > 1e-3
    assert np.allclose(np.sort(cm.V[fvm], axis=0), np.sort(P, axis=0), atol=1e-12), "facets do not coincide"
    return cm


# ------------------------------------------------------------------- elements / oracle
class El:
    """A (non-blocked) basix.ufl element with its physical push-forward on affine cells."""

    def __init__(self, family, cell, degree, **kw):
        self.family, self.cell, self.degree = family, cell, degree
        self.ufl = basix.ufl.element(family, cell, degree, **kw)
        self.b = self.ufl.basix_element
        self.dim = int(self.b.dim)
        self.map = self.b.map_type.name

    def tab(self, pc, X, grads=False):
        """Physical basis values [npts, ndof, vs] (and gradients [npts, ndof, gdim] for scalars)."""
        X = np.asarray(X, dtype=float).reshape(-1, pc.tdim)
        t = self.b.tabulate(1 if grads else 0, X)  # [nd, npts, ndof, vs]
        J = pc.J(X)
        if self.map == "identity":
            vals = t[0]
        elif self.map == "covariantPiola":
            Jinv = np.linalg.inv(J)
            vals = np.einsum("pji,pdj->pdi", Jinv, t[0])
        elif self.map == "contravariantPiola":
            det = np.linalg.det(J)
            vals = np.einsum("pij,pdj->pdi", J, t[0]) / det[:, None, None]
        else:
            raise NotImplementedError(self.map)
        if not grads:
            return vals
        assert self.map == "identity" and t.shape[3] == 1
        Jinv = np.linalg.inv(J)
        g = np.einsum("jpd,pji->pdi", t[1:, :, :, 0], Jinv)
        return vals, g


def facet_quadrature(ftype, degree):
    if ftype == "point":
        return np.zeros((1, 0)), np.ones(1)
    X, w = basix.make_quadrature(ctype(ftype), degree)
    return np.asarray(X), np.asarray(w)


class Pt:
    """Evaluation context of the oracle at one integration point."""

    def __init__(self, setup, q):
        self.s = setup
        self.q = q

    def _side(self, r):
        return 1 if r == "-" else 0

    def _pad(self, el, r, block):
        s = self.s
        if s.width == 1:
            return block
        out = np.zeros((2 * el.dim,) + block.shape[1:])
        k = self._side(r)
        out[k * el.dim:(k + 1) * el.dim] = block
        return out

    def basis(self, el, r=None):
        return self._pad(el, r, self.s.tabs[(id(el), self._side(r))][0][self.q])

    def gbasis(self, el, r=None):
        return self._pad(el, r, self.s.tabs[(id(el), self._side(r))][1][self.q])

    def v(self, r=None):
        return self.basis(self.s.test, r)[..., 0] if self.s.test.b.value_size == 1 else self.basis(self.s.test, r)

    def u(self, r=None):
        return self.basis(self.s.trial, r)[..., 0] if self.s.trial.b.value_size == 1 else self.basis(self.s.trial, r)

    def gv(self, r=None):
        return self.gbasis(self.s.test, r)

    def gu(self, r=None):
        return self.gbasis(self.s.trial, r)

    def f(self, k, r=None):
        el = self.s.coefs[k]
        vals = self.s.tabs[(id(el), self._side(r))][0][self.q]  # [ndof, vs]
        w = self.s.w[k][self._side(r)]
        out = np.einsum("d,dv->v", w, vals)
        return out[0] if out.shape[0] == 1 else out

    def gf(self, k, r=None):
        el = self.s.coefs[k]
        g = self.s.tabs[(id(el), self._side(r))][1][self.q]  # [ndof, gdim]
        return self.s.w[k][self._side(r)] @ g

    def n(self, r=None):
        nn = self.s.normals[self._side(r)]
        return nn if (nn is None or nn.ndim == 1) else nn[self.q]  # per-point normals on non-affine cells

    def x(self):
        return self.s.xq[self.q]

    def area(self):
        return self.s.area

    def vol(self, r=None):
        return self.s.cells[self._side(r)].volume()

    def facet_edge_lengths(self, r=None):
        """physical lengths of the edges of the integration facet, seen from side r"""
        k = self._side(r)
        c = self.s.cells[k]
        topo = ref_topology(c.cell)
        fv = set(topo[c.tdim - 1][self.s.entities[k]])
        return [float(np.linalg.norm(c.V[e[1]] - c.V[e[0]])) for e in topo[1] if set(e) <= fv]


class OracleSetup:
    """Everything the oracle needs for one (geometry, entity) configuration."""

    def __init__(self, itype, cells, entities, test=None, trial=None, coefs=(), w=(), qdeg=8, grads=True):
        self.itype = itype
        self.cells = cells
        self.entities = entities
        self.width = 2 if itype == "interior_facet" else 1
        self.test, self.trial, self.coefs, self.w = test, trial, list(coefs), list(w)
        cp = cells[0]
        td = cp.tdim
        if itype == "vertex":
            Xc = [ref_geometry(cp.cell)[entities[0]].reshape(1, td)]
            self.wq = np.ones(1)
            self.scale = np.ones(1)
            self.xq = cp.x(Xc[0])
            self.normals = [None]
            self.area = None
        else:
            ft = facet_type(cp.cell, entities[0])
            Xf, wq = facet_quadrature(ft, qdeg)
            self.wq = wq
            Xp = ref_entity_map(cp.cell, td - 1, entities[0], Xf)
            self.xq = cp.x(Xp)
            self.scale = cp.facet_scale(entities[0], Xf)
            Xc = [Xp]
            if self.width == 2:
                Xc.append(cells[1].inverse(self.xq))
            if all(c.affine for c in cells):
                self.normals = [c.outward_normal(e) for c, e in zip(cells, entities)]
                self.area = cp.facet_area(entities[0])
            else:
                # non-affine geometry (bilinear quadrilaterals, P2 triangles): normals vary along the facet; FacetArea /
                # CellVolume are not available to the integrands of these cases (UFL supports them on affine cells only)
                self.normals = [c.outward_normals_at(e, Xr) for c, e, Xr in zip(cells, entities, Xc)]
                self.area = None
        self.Xc = Xc
        self.tabs = {}
        for el in {id(e): e for e in [test, trial, *coefs] if e is not None}.values():
            for k in range(self.width):
                if el.map == "identity" and el.b.value_size == 1 and grads:
                    self.tabs[(id(el), k)] = el.tab(cells[k], Xc[k], grads=True)
                else:
                    self.tabs[(id(el), k)] = (el.tab(cells[k], Xc[k]), None)

    def integrate(self, fn):
        total = None
        for q in range(len(self.wq)):
            val = np.asarray(fn(Pt(self, q)), dtype=float) * (self.wq[q] * self.scale[q])
            total = val if total is None else total + val
        return total


# =====================================================================================
#  FFCx side: compiled kernels
# =====================================================================================
def integrals_of(form, itype):
    o = form.form_integral_offsets
    k = ITYPE[itype]
    return [form.form_integrals[i] for i in range(o[k], o[k + 1])]


def call(mod, integral, A_size, w, x, entity, perm):
    A = np.zeros(A_size)
    w = np.ascontiguousarray(w, dtype=np.float64)
    if w.size == 0:
        w = np.zeros(1)
    c = np.zeros(1)
    x = np.ascontiguousarray(x, dtype=np.float64).reshape(-1)
    pipeline.call_kernel(mod, integral, "float64", A, w, c, x, entity=list(entity) or [0], perm=list(perm) or [0])
    return A


def pack_w(wlist, width):
    """w[coefficient][restriction][dof]"""
    parts = []
    for wk in wlist:
        for r in range(width):
            parts.append(np.asarray(wk[r], dtype=float))
    return np.concatenate(parts) if parts else np.zeros(0)


def mesh(cell, gdeg=1):
    return ufl.Mesh(basix.ufl.element("P", cell, gdeg, shape=(TDIM[cell],)))


class FormCase:
    """A UFL form together with its independent numpy meaning.  `geom`: "affine" (degree-1 affine cells), "q1"
    (non-affine bilinear quadrilaterals) or "p2" (triangles with a degree-2 coordinate element, curved edges); the
    non-affine cases fix the quadrature degree `qdeg` in the form and use the same basix rule in the oracle (their
    integrands are rational, so no rule is exact)."""

    def __init__(self, name, cell, itype, build, geom="affine", qdeg=8):
        self.name, self.cell, self.itype, self.build = name, cell, itype, build
        self.geom, self.qdeg = geom, qdeg
        self.gdeg = 2 if geom == "p2" else 1

    def make(self):
        m = mesh(self.cell, self.gdeg)
        d = self.build(m)
        self.form = d["form"]
        self.test = d.get("test")
        self.trial = d.get("trial")
        self.coefs = d.get("coefs", [])
        self.fn = d["fn"]
        self.tags = d.get("tags", ())
        # coefficients of the oracle that actually occur in the form (FFCx packs only those, in count order)
        uc = d.get("ufl_coefs")
        present = set(self.form.coefficients())
        self.present = list(range(len(self.coefs))) if uc is None else [k for k, c in enumerate(uc) if c in present]
        return self.form

    def a_shape(self):
        width = 2 if self.itype == "interior_facet" else 1
        s = []
        if self.test is not None:
            s.append(width * self.test.dim)
        if self.trial is not None:
            s.append(width * self.trial.dim)
        return tuple(s)


def lag(cell, deg):
    fam = "Q" if cell in ("quadrilateral", "hexahedron") else "P"
    return El(fam, cell, deg)


def _jump(a, b):
    return a - b


def c02_cases(tier):
    """(FormCase list).  Each integrand is written twice: in UFL and as a numpy closure over `Pt`."""
    from ufl import (CellVolume, Coefficient, FacetArea, FacetNormal, FunctionSpace, TestFunction,
                     TrialFunction, avg, dP, dS, ds, grad, inner, jump)
    cases = []
    simplices = ("interval", "triangle", "tetrahedron")
    deg = {"interval": 2, "triangle": 2, "quadrilateral": 2, "tetrahedron": 2, "hexahedron": 1, "prism": 1}
    if tier != "quick":
        deg["hexahedron"] = 2
        deg["prism"] = 2
    for cell in ("interval", "triangle", "quadrilateral", "tetrahedron", "hexahedron", "prism"):
        d = deg[cell]

        def ext_bilinear(m, cell=cell, d=d):
            e = lag(cell, d)
            V = FunctionSpace(m, e.ufl)
            u, v, f = TrialFunction(V), TestFunction(V), Coefficient(V)
            if cell == "prism":  # FacetNormal is not supported on prisms (access.reference_normal)
                return dict(form=f * u * v * ds, test=e, trial=e, coefs=[e],
                            fn=lambda P: P.f(0) * np.outer(P.v(), P.u()))
            n = FacetNormal(m)
            return dict(form=f * u * v * ds + inner(grad(u), n) * v * ds, test=e, trial=e, coefs=[e],
                        fn=lambda P: P.f(0) * np.outer(P.v(), P.u()) + np.outer(P.v(), P.gu() @ P.n()))
        cases.append(FormCase(f"ext_bilinear_{cell}", cell, "exterior_facet", ext_bilinear))

        def vertex_lin(m, cell=cell, d=d):
            e = lag(cell, d)
            V = FunctionSpace(m, e.ufl)
            v, f = TestFunction(V), Coefficient(V)
            return dict(form=f * v * dP, test=e, coefs=[e], fn=lambda P: P.f(0) * P.v())
        cases.append(FormCase(f"vertex_lin_{cell}", cell, "vertex", vertex_lin))

        if cell in simplices:
            def ext_geom(m, cell=cell, d=d):
                e = lag(cell, d)
                V = FunctionSpace(m, e.ufl)
                v, f = TestFunction(V), Coefficient(V)
                n = FacetNormal(m)
                return dict(form=FacetArea(m) * f * v * ds + n[0] * inner(grad(f), n) * v * ds
                            + CellVolume(m) * v * ds, test=e, coefs=[e],
                            fn=lambda P: (P.area() * P.f(0) + P.n()[0] * (P.gf(0) @ P.n()) + P.vol()) * P.v())
            cases.append(FormCase(f"ext_geom_{cell}", cell, "exterior_facet", ext_geom))

        if cell in ("tetrahedron", "hexahedron"):
            def ext_edgelen(m, cell=cell):
                from ufl import MaxFacetEdgeLength, MinFacetEdgeLength
                e = lag(cell, 1)
                V = FunctionSpace(m, e.ufl)
                v = TestFunction(V)
                return dict(form=MinFacetEdgeLength(m) * v * ds + 2 * MaxFacetEdgeLength(m) * v * ds, test=e,
                            fn=lambda P: (min(P.facet_edge_lengths()) + 2 * max(P.facet_edge_lengths())) * P.v())
            cases.append(FormCase(f"ext_edgelen_{cell}", cell, "exterior_facet", ext_edgelen))

            def int_edgelen(m, cell=cell):
                from ufl import MaxFacetEdgeLength, MinFacetEdgeLength
                e = lag(cell, 1)
                V = FunctionSpace(m, e.ufl)
                v = TestFunction(V)
                return dict(form=MinFacetEdgeLength(m)("-") * v("+") * dS + MaxFacetEdgeLength(m)("+") * v("-") * dS,
                            test=e,
                            fn=lambda P: min(P.facet_edge_lengths("-")) * P.v("+") + max(P.facet_edge_lengths("+")) * P.v("-"))
            cases.append(FormCase(f"int_edgelen_{cell}", cell, "interior_facet", int_edgelen))

        if cell == "prism":
            continue  # interior-facet integrals on prisms are rejected by FFCx (UnboundLocalError)

        def int_bilinear(m, cell=cell, d=d):
            e = lag(cell, d)
            V = FunctionSpace(m, e.ufl)
            u, v = TrialFunction(V), TestFunction(V)
            n = FacetNormal(m)
            return dict(
                form=jump(u) * avg(v) * dS + inner(avg(grad(u)), n("+")) * jump(v) * dS + 3 * u("-") * v("+") * dS,
                test=e, trial=e,
                fn=lambda P: np.outer(0.5 * (P.v("+") + P.v("-")), P.u("+") - P.u("-"))
                + np.outer(P.v("+") - P.v("-"), 0.5 * (P.gu("+") + P.gu("-")) @ P.n("+"))
                + 3 * np.outer(P.v("+"), P.u("-")))
        cases.append(FormCase(f"int_bilinear_{cell}", cell, "interior_facet", int_bilinear))

        def int_linear(m, cell=cell, d=d):
            e = lag(cell, d)
            e1 = lag(cell, 1)
            V, W = FunctionSpace(m, e.ufl), FunctionSpace(m, e1.ufl)
            f, g, v = Coefficient(V), Coefficient(W), TestFunction(W)
            n = FacetNormal(m)
            form = f("+") * g("-") * v("-") * dS + inner(jump(grad(f)), n("-")) * v("+") * dS + avg(g) * v("+") * dS
            fn = lambda P: (P.f(0, "+") * P.f(1, "-") * P.v("-")  # noqa: E731
                            + ((P.gf(0, "+") - P.gf(0, "-")) @ P.n("-")) * P.v("+")
                            + 0.5 * (P.f(1, "+") + P.f(1, "-")) * P.v("+"))
            return dict(form=form, test=e1, coefs=[e, e1], fn=fn)
        cases.append(FormCase(f"int_linear_{cell}", cell, "interior_facet", int_linear))

        if cell in simplices:
            def int_functional(m, cell=cell, d=d):
                e = lag(cell, d)
                e1 = lag(cell, 1)
                V, W = FunctionSpace(m, e.ufl), FunctionSpace(m, e1.ufl)
                f, g = Coefficient(V), Coefficient(W)
                n = FacetNormal(m)
                form = (f("-") * g("+") * dS + CellVolume(m)("-") * f("+") * dS
                        + FacetArea(m)("+") * n("-")[0] * g("-") * dS)
                fn = lambda P: np.array(P.f(0, "-") * P.f(1, "+") + P.vol("-") * P.f(0, "+")  # noqa: E731
                                        + P.area() * P.n("-")[0] * P.f(1, "-"))
                return dict(form=form, coefs=[e, e1], fn=fn)
            cases.append(FormCase(f"int_functional_{cell}", cell, "interior_facet", int_functional))
    return cases


def nonaffine_cases():
    """Facet forms on NON-AFFINE geometry: bilinear (Q1) quadrilaterals with non-parallel edges and triangles with a
    degree-2 coordinate element (curved edges).  Jacobians, facet scale factors and normals vary along the facet; the
    integrands are rational, so the form fixes the quadrature degree and the oracle uses the same basix rule."""
    from ufl import Coefficient, FacetNormal, FunctionSpace, TestFunction, TrialFunction, avg, dS, ds, grad, inner, jump
    cases = []
    qd = 4
    for cell, geom, d in (("quadrilateral", "q1", 2), ("triangle", "p2", 2)):
        def ext_bilinear(m, cell=cell, d=d):
            e = lag(cell, d)
            V = FunctionSpace(m, e.ufl)
            u, v, f = TrialFunction(V), TestFunction(V), Coefficient(V)
            n = FacetNormal(m)
            return dict(form=f * u * v * ds(degree=qd) + inner(grad(u), n) * v * ds(degree=qd) + n[0] * f * v * u * ds(degree=qd),
                        test=e, trial=e, coefs=[e],
                        fn=lambda P: P.f(0) * np.outer(P.v(), P.u()) + np.outer(P.v(), P.gu() @ P.n())
                        + P.n()[0] * P.f(0) * np.outer(P.v(), P.u()))
        cases.append(FormCase(f"ext_bilinear_{geom}_{cell}", cell, "exterior_facet", ext_bilinear, geom=geom, qdeg=qd))

        def int_bilinear(m, cell=cell, d=d):
            e = lag(cell, d)
            V = FunctionSpace(m, e.ufl)
            u, v = TrialFunction(V), TestFunction(V)
            n = FacetNormal(m)
            return dict(
                form=jump(u) * avg(v) * dS(degree=qd) + inner(avg(grad(u)), n("+")) * jump(v) * dS(degree=qd)
                + 3 * u("-") * v("+") * dS(degree=qd),
                test=e, trial=e,
                fn=lambda P: np.outer(0.5 * (P.v("+") + P.v("-")), P.u("+") - P.u("-"))
                + np.outer(P.v("+") - P.v("-"), 0.5 * (P.gu("+") + P.gu("-")) @ P.n("+"))
                + 3 * np.outer(P.v("+"), P.u("-")))
        cases.append(FormCase(f"int_bilinear_{geom}_{cell}", cell, "interior_facet", int_bilinear, geom=geom, qdeg=qd))

        def int_linear(m, cell=cell, d=d):
            e = lag(cell, d)
            e1 = lag(cell, 1)
            V, W = FunctionSpace(m, e.ufl), FunctionSpace(m, e1.ufl)
            f, g, v = Coefficient(V), Coefficient(W), TestFunction(W)
            n = FacetNormal(m)
            form = (f("+") * g("-") * v("-") * dS(degree=qd) + inner(jump(grad(f)), n("-")) * v("+") * dS(degree=qd)
                    + n("-")[1] * avg(g) * v("+") * dS(degree=qd))
            fn = lambda P: (P.f(0, "+") * P.f(1, "-") * P.v("-")  # noqa: E731
                            + ((P.gf(0, "+") - P.gf(0, "-")) @ P.n("-")) * P.v("+")
                            + P.n("-")[1] * 0.5 * (P.f(1, "+") + P.f(1, "-")) * P.v("+"))
            return dict(form=form, test=e1, coefs=[e, e1], fn=fn)
        cases.append(FormCase(f"int_linear_{geom}_{cell}", cell, "interior_facet", int_linear, geom=geom, qdeg=qd))
    return cases


def generated_cases(seed, n):
    """Seeded random facet forms (thorough tier): sums of 2-3 terms `c * S * Arg` where S is a scalar factor of
    coefficients/normals with random restrictions and Arg an argument factor; each term is built in UFL and as a
    numpy closure at the same time.  Names carry the seed and index so that they replay."""
    from ufl import Coefficient, FacetNormal, FunctionSpace, TestFunction, TrialFunction, dS, ds, grad, inner
    out = []
    for i in range(n):
        pr = random.Random(seed * 7919 + i)
        cell = pr.choice(["interval", "triangle", "quadrilateral", "tetrahedron", "hexahedron"])
        itype = pr.choice(["exterior_facet", "interior_facet", "interior_facet"])
        rank = pr.choice([0, 1, 1, 2])
        deg = 1 if cell == "hexahedron" else pr.choice([1, 2])
        nterms = pr.choice([2, 3])
        spec = []
        for _ in range(nterms):
            spec.append(dict(c=pr.choice([0.5, -1.0, 2.0, 1.5, -0.25]), s=pr.randrange(6), a=pr.randrange(2),
                             r=[pr.choice("+-") for _ in range(4)]))

        def build(m, cell=cell, itype=itype, rank=rank, deg=deg, spec=spec):
            e, e1 = lag(cell, deg), lag(cell, 1)
            V, W = FunctionSpace(m, e.ufl), FunctionSpace(m, e1.ufl)
            u, v, f, g = TrialFunction(V), TestFunction(V), Coefficient(V), Coefficient(W)
            n = FacetNormal(m)
            interior = itype == "interior_facet"

            def R(x, r):
                return x(r) if interior else x

            def rr(r):
                return r if interior else None
            form = None
            fns = []
            for t in spec:
                r0, r1, r2, r3 = t["r"]
                k = t["s"]
                if k == 0:
                    S, fs = R(f, r0), (lambda P, r0=r0: P.f(0, rr(r0)))
                elif k == 1:
                    S, fs = R(g, r0), (lambda P, r0=r0: P.f(1, rr(r0)))
                elif k == 2:
                    S, fs = R(f, r0) * R(g, r1), (lambda P, r0=r0, r1=r1: P.f(0, rr(r0)) * P.f(1, rr(r1)))
                elif k == 3:
                    S = inner(R(grad(f), r0), R(n, r1))
                    fs = lambda P, r0=r0, r1=r1: P.gf(0, rr(r0)) @ P.n(rr(r1))  # noqa: E731
                elif k == 4:
                    S, fs = R(n, r0)[0] * R(g, r1), (lambda P, r0=r0, r1=r1: P.n(rr(r0))[0] * P.f(1, rr(r1)))
                else:
                    S = R(f, r0) * R(f, r1)
                    fs = lambda P, r0=r0, r1=r1: P.f(0, rr(r0)) * P.f(0, rr(r1))  # noqa: E731
                if rank == 0:
                    Arg, fa = 1.0, (lambda P: np.array(1.0))
                elif rank == 1:
                    if t["a"] == 0:
                        Arg, fa = R(v, r2), (lambda P, r2=r2: P.v(rr(r2)))
                    else:
                        Arg = inner(R(grad(v), r2), R(n, r3))
                        fa = lambda P, r2=r2, r3=r3: P.gv(rr(r2)) @ P.n(rr(r3))  # noqa: E731
                else:
                    if t["a"] == 0:
                        Arg = R(u, r2) * R(v, r3)
                        fa = lambda P, r2=r2, r3=r3: np.outer(P.v(rr(r3)), P.u(rr(r2)))  # noqa: E731
                    else:
                        Arg = inner(R(grad(u), r2), R(n, r2)) * R(v, r3)
                        fa = lambda P, r2=r2, r3=r3: np.outer(P.v(rr(r3)), P.gu(rr(r2)) @ P.n(rr(r2)))  # noqa: E731
                term = t["c"] * S * Arg * (dS if interior else ds)
                form = term if form is None else form + term
                fns.append(lambda P, c=t["c"], fs=fs, fa=fa: c * fs(P) * fa(P))
            return dict(form=form, test=e if rank >= 1 else None, trial=e if rank == 2 else None, coefs=[e, e1],
                        ufl_coefs=[f, g], fn=lambda P: sum(fn(P) for fn in fns))
        out.append(FormCase(f"gen_{seed}_{i}_{cell}_{itype}_r{rank}", cell, itype, build))
    return out


def entity_configs(case, rng, tier):
    """All local entity indices (pairs for interior facets) the search visits for `case`."""
    cell = case.cell
    td = TDIM[cell]
    if case.itype == "vertex":
        return [(v,) for v in range(ref_geometry(cell).shape[0])]
    nf = num_facets(cell)
    if case.itype == "exterior_facet":
        return [(f,) for f in range(nf)]
    pairs = [(a, b) for a in range(nf) for b in range(nf)]
    if tier == "quick" and td == 3:
        # every index on both sides, every ordered difference once
        shift = int(rng.integers(0, nf))
        pairs = [(a, (a + s + shift) % nf) for a in range(nf) for s in (0, 1)]
    return pairs


class HarnessGeometryError(Exception):
    """The harness' own geometry construction failed (not a statement about FFCx)."""


def _edge_nodes_p2(cell):
    """node index (>= nverts) of the P2 coordinate element sitting on each edge of the reference cell"""
    g = ref_geometry(cell)
    pts = np.asarray(coord_element(cell, 2).points, dtype=float)
    out = {}
    for e, (a, b) in enumerate(ref_topology(cell)[1]):
        k = np.where(np.all(np.abs(pts - 0.5 * (g[a] + g[b])) < 1e-12, axis=1))[0]
        if len(k) != 1:
            raise HarnessGeometryError(f"no unique P2 node on edge {e} of {cell}")
        out[e] = int(k[0])
    return out


def _untangled(out, pc):
    """det J of the non-affine cell keeps the sign of the affine cell it was made from and at least 30% of its size at the
    vertices, edge midpoints and centroid (a tangled or nearly degenerate cell is a harness artefact, not an input)."""
    g = ref_geometry(pc.cell)
    X = np.vstack([g, [0.5 * (g[a] + g[b]) for a, b in ref_topology(pc.cell)[1]], g.mean(axis=0)[None, :]])
    d0 = float(np.linalg.det(pc.B))
    return bool(np.all(np.linalg.det(out.J(X)) * np.sign(d0) > 0.3 * abs(d0)))


def promote(pc, geom, rng, keep_facet=None, shared=None):
    """Non-affine version of the affine cell `pc`: "q1" moves the vertices that are not on facet `keep_facet` (a bilinear
    quadrilateral with straight edges), "p2" adds the edge-midpoint nodes of the degree-2 coordinate element and moves them
    off the chords (curved edges); `shared` = (node index, position) fixes the node on the facet shared with the other cell.
    Perturbations are relative to the cell size; tangled results are redrawn with a smaller amplitude."""
    if geom == "affine":
        return pc
    cell, td = pc.cell, pc.tdim
    fixed = set(ref_topology(cell)[td - 1][keep_facet]) if keep_facet is not None else set()
    size = abs(float(np.linalg.det(pc.B))) ** (1.0 / td)
    for attempt in range(12):
        amp = size / (8.0 * (1 + attempt))
        if geom == "q1":
            V = pc.V.copy()
            for i in range(V.shape[0]):
                if i not in fixed:
                    V[i] += amp * dyadic(rng, (td,), -8, 8, 8.0)
            out = PhysCell(cell, V)
        elif geom == "p2":
            nodes = np.asarray(coord_element(cell, 2).points, dtype=float)
            V = pc.x(nodes)
            nv = ref_geometry(cell).shape[0]
            for i in range(nv, V.shape[0]):
                V[i] += amp * dyadic(rng, (td,), -8, 8, 8.0)
            if shared is not None:
                V[shared[0]] = shared[1]
            out = PhysCell(cell, V, gdeg=2)
        else:
            raise HarnessGeometryError(f"unknown geometry kind {geom}")
        if not out.affine and _untangled(out, pc):
            return out
    raise HarnessGeometryError(f"could not build an untangled non-affine {geom} {cell}")


def make_cells(case, ents, rng):
    """Random geometry for one entity configuration: the cell(s) and, for interior facets, the pair of codes (a random
    code on '+', the geometrically aligned one on '-')."""
    cell = case.cell
    width = 2 if case.itype == "interior_facet" else 1
    cp = random_affine_cell(cell, rng)
    if width == 1:
        return [promote(cp, case.geom, rng)], []
    ft = facet_type(cell, ents[0])
    syms = facet_symmetries(ft)
    tau = syms[int(rng.integers(0, len(syms)))]
    try:
        cm = neighbour_cell(cp, ents[0], cell, ents[1], tau, rng)
    except AssertionError as ex:
        raise HarnessGeometryError(f"neighbour_cell: {ex}") from ex
    if case.geom == "q1":
        cp = promote(cp, "q1", rng, keep_facet=ents[0])
        cm = promote(cm, "q1", rng, keep_facet=ents[1])
    elif case.geom == "p2":
        # the node on the shared (curved) edge is common to both cells: displaced relative to the smaller cell
        en = _edge_nodes_p2(cell)
        mid = cp.x(np.asarray(coord_element(cell, 2).points, dtype=float))[en[ents[0]]]
        base = min(abs(float(np.linalg.det(c.B))) ** (1.0 / cp.tdim) for c in (cp, cm))
        for attempt in range(8):
            pos = mid + base / (8.0 * (1 + attempt)) * dyadic(rng, (cp.tdim,), -8, 8, 8.0)
            try:
                cp2 = promote(cp, "p2", rng, keep_facet=ents[0], shared=(en[ents[0]], pos))
                cm2 = promote(cm, "p2", rng, keep_facet=ents[1], shared=(en[ents[1]], pos))
                break
            except HarnessGeometryError:
                continue
        else:
            raise HarnessGeometryError("could not build an untangled pair of P2 triangles sharing a curved edge")
        cp, cm = cp2, cm2
    Np = int(rng.integers(0, NUM_CODES[ft]))
    psi = cp.facet_param(ents[0], perm_np(ft, Np, TEST_POINTS[ft]))
    cands = aligning_codes(ft, lambda X: cm.facet_param(ents[1], X), psi)
    if len(cands) != 1:
        raise HarnessGeometryError(f"align:{ft}:no-unique-code: {len(cands)} permutation codes align the facet points "
                                   f"(expected exactly 1; candidates {cands})")
    return [cp, cm], [Np, cands[0]]


def run_case(chk, case, form, mod, rng, tier, ncfg_hist):
    """Compare the compiled kernel(s) of `case` with the oracle on every entity configuration."""
    cell = case.cell
    shape = case.a_shape()
    asize = int(np.prod(shape)) if shape else 1
    width = 2 if case.itype == "interior_facet" else 1
    integrals = integrals_of(form, case.itype)
    worst = 0.0
    for ents in entity_configs(case, rng, tier):
        try:
            cells, perm = make_cells(case, ents, rng)
            w = [[dyadic(rng, (el.dim,), -32, 32, 16.0) for _ in range(width)] for el in case.coefs]
            setup = OracleSetup(case.itype, cells, ents, case.test, case.trial, case.coefs, w, qdeg=case.qdeg)
            ref = np.asarray(setup.integrate(case.fn), dtype=float).reshape(-1)
        except (HarnessGeometryError, AssertionError, RuntimeError, np.linalg.LinAlgError) as ex:
            # a failure of the harness' own geometry / oracle is a broken tie, never a failing input of FFCx
            chk.disagree("harness geometry/oracle could not be set up (no statement about the kernel)",
                         {"case": case.name, "entities": list(ents), "error": f"{type(ex).__name__}: {str(ex)[:300]}"})
            continue
        # kernel: pick the integral whose domain matches the facet type (prism has two)
        integral = integrals[0]
        if len(integrals) > 1:
            ft = facet_type(cell, ents[0])
            integral = [k for k in integrals if int(k.domain) == int(ctype(ft))][0]
        x = np.concatenate([c.coordinate_dofs().reshape(-1) for c in cells])
        wk = pack_w([w[k] for k in case.present], width)
        A = call(mod, integral, asize, wk, x, ents, perm)
        scale = max(1.0, float(np.abs(ref).max()), float(np.abs(A).max()))
        err = float(np.abs(A - ref).max()) / scale
        worst = max(worst, err)
        key = f"{case.name}:{'/'.join(map(str, ents))}"
        chk.case(kind="oracle" if case.geom == "affine" else "oracle_nonaffine",
                 key=key if np.abs(ref).max() > 1e-12 else None,
                 sample={"case": case.name, "entities": list(ents), "perm": perm, "rel_err": err}
                 if (width == 2 and ents[0] != ents[1] and rng.integers(0, 8) == 0) else None)
        ncfg_hist[cell] = ncfg_hist.get(cell, 0) + 1
        if not (err <= 1e-10):
            chk.violation(
                key=f"oracle:{case.name}",
                what=f"kernel {case.name} differs from the integral over entity {ents} (rel err {err:.3e})",
                payload={"case": case.name, "cell": cell, "integral_type": case.itype, "entities": list(ents),
                         "perm": perm, "coordinate_dofs": x.tolist(), "w": wk.tolist(),
                         "kernel_A": A.tolist(), "oracle_A": ref.tolist(), "seed": chk.seed})
    return worst


# =====================================================================================
#  Correspondence
# =====================================================================================
def _pts_sexp(P):
    return "(" + " ".join("(" + " ".join(sexp.rat(float(x)) for x in p) + ")" for p in P) + ")"


def _parse_pts(r):
    return [[Fraction(a) for a in p] for p in r]


def corr_entity_maps(chk, d, rng):
    """element_interface.map_facet_points / map_edge_points / representationutils.map_integral_points
    against the Lean model, exact on dyadic points."""
    from ffcx.element_interface import map_edge_points, map_facet_points
    from ffcx.ir.representationutils import map_integral_points
    for cell in ("interval", "triangle", "quadrilateral", "tetrahedron", "hexahedron", "prism", "pyramid"):
        td = TDIM[cell]
        topo = ref_topology(cell)
        for f in range(len(topo[td - 1])):
            P = dyadic(rng, (4, td - 1), 0, 64, 64.0)
            real = np.asarray(map_facet_points(P, f, cell), dtype=float).reshape(len(P), -1)
            model = _parse_pts(d.ask(f"(mapfacet {cell} {f} {_pts_sexp(P)})"))
            ok = [[Fraction(float(x)) for x in row] for row in real] == model
            chk.case(kind="map_facet_points", key=f"{cell}:{f}")
            if not ok:
                chk.disagree("map_facet_points", {"cell": cell, "facet": f, "points": P.tolist(),
                                                  "impl": real.tolist(), "model": [[str(a) for a in p] for p in model]})
        if td == 3:
            for e in range(len(topo[1])):
                P = dyadic(rng, (3, 1), 0, 64, 64.0)
                real = np.asarray(map_edge_points(P, e, cell), dtype=float).reshape(len(P), -1)
                model = _parse_pts(d.ask(f"(mapedge {cell} {e} {_pts_sexp(P)})"))
                chk.case(kind="map_edge_points", key=f"{cell}:{e}")
                if [[Fraction(float(x)) for x in row] for row in real] != model:
                    chk.disagree("map_edge_points", {"cell": cell, "edge": e, "points": P.tolist(),
                                                     "impl": real.tolist(), "model": [[str(a) for a in p] for p in model]})
        # map_integral_points dispatch
        ucell = ufl.Cell(cell)
        for itype, kind, dim in (("exterior_facet", "facet", td - 1), ("vertex", "vertex", 0), ("ridge", "ridge", td - 2)):
            if dim < 0:
                continue
            nent = len(topo[dim])
            for ent in range(nent):
                pdim = dim
                P = dyadic(rng, (2, pdim), 0, 64, 64.0) if pdim > 0 else np.zeros((1, 0))
                try:
                    real = np.asarray(map_integral_points(P, itype, ucell, ent), dtype=float).reshape(-1, td)
                except Exception as ex:  # noqa: BLE001
                    chk.disagree("map_integral_points raises", {"cell": cell, "itype": itype, "entity": ent, "error": repr(ex)})
                    continue
                model = _parse_pts(d.ask(f"(mapintegral {cell} {kind} {ent} {_pts_sexp(P)})"))
                chk.case(kind="map_integral_points", key=f"{cell}:{itype}:{ent}")
                if [[Fraction(float(x)) for x in row] for row in real] != model:
                    chk.disagree("map_integral_points", {"cell": cell, "itype": itype, "entity": ent, "points": P.tolist(),
                                                         "impl": real.tolist(), "model": [[str(a) for a in p] for p in model]})


def corr_entity_selection(chk, d):
    import ffcx.codegeneration.lnodes as L
    from ffcx.codegeneration.symbols import FFCXBackendSymbols
    sy = FFCXBackendSymbols({}, {}, {})
    for et in ("cell", "facet", "vertex", "ridge"):
        for r, rn in (("+", "plus"), ("-", "minus"), (None, "none")):
            e = sy.entity(et, r)
            if isinstance(e, L.LiteralInt):
                impl = str(int(e.value))
            elif isinstance(e, L.ArrayAccess) and e.array.name == "entity_local_index":
                impl = ["eli", str(int(e.indices[0].value))]
            else:
                impl = repr(e)
            model = d.ask(f"(entity {et} {rn})")
            chk.case(kind="entity", key=f"{et}:{rn}")
            if impl != model:
                chk.disagree("symbols.entity", {"entity_type": et, "restriction": r, "impl": impl, "model": model})


class TableCapture:
    """Record every uncompressed table built by build_optimized_tables together with the arguments of
    the get_ffcx_table_values calls that produced its permutation rows."""

    def __init__(self):
        self.records = []

    def __enter__(self):
        import ffcx.ir.elementtables as et
        self.et = et
        self.orig_get = et.get_ffcx_table_values
        self.orig_clamp = et.clamp_table_small_numbers
        self.orig_build = et.build_optimized_tables
        self.pending = []
        self.rule_points = None
        cap = self

        def get(points, cell, integral_type, element, avg, entity_type, derivative_counts, flat_component, codim):
            res = cap.orig_get(points, cell, integral_type, element, avg, entity_type, derivative_counts,
                               flat_component, codim)
            cap.pending.append(dict(points=np.array(points, dtype=float), cell=cell.cellname,
                                    integral_type=integral_type, element=element, avg=avg, entity_type=entity_type,
                                    derivs=tuple(derivative_counts), fc=flat_component, codim=codim))
            return res

        def clamp(table, rtol=et.default_rtol, atol=et.default_atol, numbers=(-1.0, 0.0, 1.0)):
            arr = np.array(table, dtype=float)
            if cap.pending:
                cap.records.append(dict(rows=cap.pending, array=arr, rule_points=cap.rule_points))
                cap.pending = []
            return cap.orig_clamp(table, rtol=rtol, atol=atol, numbers=numbers)

        def build(quadrature_rule, *a, **kw):
            cap.rule_points = np.array(quadrature_rule.points, dtype=float)
            cap.pending = []
            return cap.orig_build(quadrature_rule, *a, **kw)

        et.get_ffcx_table_values = get
        et.clamp_table_small_numbers = clamp
        et.build_optimized_tables = build
        # ffcx.ir.integral imported the name directly
        import ffcx.ir.integral as integral
        self.integral = integral
        self.orig_build_ref = integral.build_optimized_tables
        integral.build_optimized_tables = build
        return self

    def __exit__(self, *a):
        self.et.get_ffcx_table_values = self.orig_get
        self.et.clamp_table_small_numbers = self.orig_clamp
        self.et.build_optimized_tables = self.orig_build
        self.integral.build_optimized_tables = self.orig_build_ref


def _model_points(d, cmd):
    return np.array([[float(Fraction(a)) for a in p] for p in d.ask(cmd)], dtype=float)


def check_tables(chk, d, records, what, perm_only=False):
    """Every captured table against basix tabulation at the *model's* points:
    row N <- model permutation code N of the rule points; entity e <- model entity map."""
    from ffcx.element_interface import basix_index
    nchecked = 0
    for rec in records:
        rows, arr = rec["rows"], rec["array"]
        r0 = rows[0]
        if r0["avg"] in ("cell", "facet"):
            continue
        itype = r0["integral_type"]
        cell = r0["cell"]
        td = TDIM[cell]
        if itype not in ("exterior_facet", "interior_facet", "vertex") or r0["codim"] != 0:
            continue
        if arr.shape[0] != len(rows):
            chk.disagree(f"{what}: rows of the stacked table != number of permutation calls",
                         {"cell": cell, "shape": list(arr.shape), "calls": len(rows)})
            continue
        base = rec["rule_points"]
        # (prism: the same reference points are mapped to every facet whatever its type, by the code and by
        # the model alike, so all entities are compared)
        ft = "point" if itype == "vertex" else facet_type(cell, 0)
        if len(rows) > 1:
            model_rows = [tuple(r) for r in d.ask(f"(rows {ft})")]
            if len(model_rows) != len(rows):
                chk.disagree(f"{what}: number of permutation rows", {"cell": cell, "facet_type": ft,
                                                                      "impl": len(rows), "model": len(model_rows)})
                continue
        el = r0["element"]
        comp_el, _off, _stride = el.get_component_element(r0["fc"])
        nd = sum(r0["derivs"])
        didx = basix_index(r0["derivs"])
        for N, row in enumerate(rows):
            # (1) the points this row was tabulated at == model permutation of the rule points
            if len(rows) > 1 and base.shape[1] > 0:
                mp = _model_points(d, f"(permcode {ft} {N} {_pts_sexp(base)})")
                perr = float(np.abs(mp - row["points"].reshape(mp.shape)).max())
                chk.case(kind="perm_row_points", key=f"{cell}:{ft}:{N}")
                if perr > 1e-14:
                    chk.disagree(f"{what}: points of permutation row", {"cell": cell, "row": N, "err": perr,
                                                                         "impl": row["points"].tolist(), "model": mp.tolist()})
                    continue
            else:
                mp = base
            if perm_only:
                continue
            # (2) entity axis: entity e of the table == tabulation at model-mapped points
            nent = arr.shape[1]
            for e in range(nent):
                if itype == "vertex":
                    X = _model_points(d, f"(mapintegral {cell} vertex {e} (()))")
                elif td == 1:
                    X = _model_points(d, f"(mapintegral {cell} facet {e} (()))")
                else:
                    X = _model_points(d, f"(mapfacet {cell} {e} {_pts_sexp(mp)})")
                tab = comp_el.tabulate(nd, X)[didx]
                got = arr[N, e]
                if tab.shape != got.shape:
                    chk.disagree(f"{what}: table block shape", {"cell": cell, "impl": list(got.shape), "model": list(tab.shape)})
                    continue
                err = float(np.abs(tab - got).max())
                scale = max(1.0, float(np.abs(tab).max()))
                nchecked += 1
                chk.case(kind="table_entity", key=f"{cell}:{itype}:{repr(el)[:48]}:{r0['derivs']}:{r0['fc']}:{N}:{e}")
                if err > 1e-12 * scale:
                    chk.disagree(f"{what}: entity axis / permutation row of a real table",
                                 {"cell": cell, "integral_type": itype, "row": N, "entity": e, "err": err})
    return nchecked


def corr_tables(chk, d, forms_by_name):
    """Run the real IR stage on facet/vertex forms and compare every table with the model."""
    total = 0
    for name, forms in forms_by_name:
        with TableCapture() as cap:
            try:
                pipeline.compute(forms)
            except Exception as ex:  # noqa: BLE001
                chk.notes.setdefault("table_capture_skipped", []).append(f"{name}: {type(ex).__name__}")
                continue
        chk.programs += 1
        total += check_tables(chk, d, cap.records, f"tables of {name}")
    chk.notes["table_blocks_compared"] = total


def corr_ir_offsets(chk, d, forms_by_name):
    """Offsets present in the real IR of interior-facet integrals vs the model: the '-' table offset of an
    argument/coefficient of a scalar element is the element dimension (`aIndex1 n 1 0`), coefficient k starts at
    `wIndex dims k 0 0`."""
    for name, forms in forms_by_name:
        try:
            _, ir = pipeline.compute(forms)
        except Exception:  # noqa: BLE001
            continue
        for iir in ir.integrals:
            ex = iir.expression
            if ex.integral_type != "interior_facet":
                continue
            coefs = sorted(ex.coefficient_offsets.items(), key=lambda kv: kv[1])
            dims = [int(c.ufl_function_space().ufl_element().dim) for c, _ in coefs]
            for k, (c, off) in enumerate(coefs):
                model = int(d.ask(f"(windex ({' '.join(map(str, dims))}) {k} 0 0)"))
                chk.case(kind="ir_w_offset", key=f"{name}:{k}")
                if model != int(off):
                    chk.disagree("coefficient offset in w", {"form": name, "coefficient": k, "dims": dims,
                                                             "impl": int(off), "model": model})
            for (_dom, _rule), integrand in ex.integrand.items():
                F = integrand["factorization"]
                for _i, nd in F.nodes.items():
                    mt, tr = nd.get("mt"), nd.get("tr")
                    if mt is None or tr is None or not isinstance(mt.terminal, ufl.classes.FormArgument):
                        continue
                    el = mt.terminal.ufl_function_space().ufl_element()
                    if tr.offset is None or tr.block_size is None:
                        continue
                    r = 1 if mt.restriction == "-" else 0
                    if tr.block_size == 1 and el.reference_value_size == 1:
                        model = int(d.ask(f"(aindex1 {int(el.dim)} {r} 0)"))
                        chk.case(kind="ir_dof_offset", key=f"{name}:{type(mt.terminal).__name__}:{mt.restriction}:{int(el.dim)}")
                        if model != int(tr.offset):
                            chk.disagree("'-' dof offset of a table reference", {"form": name, "restriction": mt.restriction,
                                                                                 "element_dim": int(el.dim),
                                                                                 "impl": int(tr.offset), "model": model})
                        continue
                    # blocked / vector-valued / mixed elements: column ic of the table is dof `offset + block_size*ic` of the
                    # macro element; the dof it must be is found independently by matching the component element's basis
                    # function against the tabulation of the FULL element (basix only)
                    ncols = int(tr.values.shape[3])
                    for ic in sorted({0, ncols - 1}):
                        j = _full_element_dof(el, mt, ic)
                        if j is None:
                            chk.notes["ir_dof_offset_blocked_skipped"] = chk.notes.get("ir_dof_offset_blocked_skipped", 0) + 1
                            continue
                        model = int(d.ask(f"(aindex1 {int(el.dim)} {r} {j})"))
                        impl = int(tr.offset) + int(tr.block_size) * ic
                        chk.case(kind="ir_dof_offset_blocked",
                                 key=f"{name}:{type(mt.terminal).__name__}:{mt.restriction}:{int(el.dim)}:{tr.block_size}:{int(tr.offset)}:{ic}")
                        if model != impl:
                            chk.disagree("dof of a table column (block_size > 1 / vector-valued element)",
                                         {"form": name, "restriction": mt.restriction, "element_dim": int(el.dim),
                                          "offset": int(tr.offset), "block_size": int(tr.block_size), "column": ic,
                                          "impl": impl, "model": model, "full_element_dof": j})


_DOF_PROBE_POINTS = {1: np.array([[0.13], [0.71]]), 2: np.array([[0.11, 0.23], [0.57, 0.19], [0.2, 0.66]]),
                     3: np.array([[0.11, 0.23, 0.17], [0.47, 0.19, 0.08], [0.2, 0.36, 0.3]])}


def _leaf_dof(el, fc, derivs, ic):
    """Blocked / vector-valued leaf element: the basis function j of the FULL element whose reference component `fc` is
    column `ic` of the component element — by comparing basix tabulations on generic points (None: no unique match)."""
    from ffcx.element_interface import basix_index
    td = el.cell.topological_dimension
    X = _DOF_PROBE_POINTS[td]
    nd = sum(derivs)
    comp_el, _off, _stride = el.get_component_element(fc)
    col = np.asarray(comp_el.tabulate(nd, X))[basix_index(derivs)][:, ic]
    full = np.asarray(el.tabulate(nd, X))[basix_index(derivs)]  # [npts, value_size, ndofs]
    if full.ndim == 2:
        full = full[:, None, :]
    if float(np.abs(col).max()) < 1e-12:
        return None
    hits = [j for j in range(full.shape[2]) if np.allclose(full[:, fc, j], col, atol=1e-12)]
    return hits[0] if len(hits) == 1 else None


def _full_element_dof(el, mt, ic):
    """Index of the dof of element `el` that column `ic` of the table of modified terminal `mt` belongs to, derived without
    FFCx's (offset, stride): mixed elements are the concatenation of their sub-elements (dims and reference value sizes
    from basix.ufl), a blocked / vector-valued leaf is resolved by `_leaf_dof` (basix tabulation of the full leaf)."""
    from ffcx.ir.elementtables import get_modified_terminal_element
    try:
        res = get_modified_terminal_element(mt)
        if not res:
            return None
        element, avg, derivs, fc = res
        if avg or element != el:
            return None
        base = 0
        cur = el
        while type(cur).__name__ == "_MixedElement":
            for sub in cur.sub_elements:
                vs = int(sub.reference_value_size)
                if fc < vs:
                    cur = sub
                    break
                fc -= vs
                base += int(sub.dim)
            else:
                return None
        j = _leaf_dof(cur, fc, derivs, ic)
        return None if j is None else base + j
    except Exception:  # noqa: BLE001 - basix cannot tabulate this element: nothing independent to compare with
        return None


def extra_corr_forms():
    """Interior/exterior-facet forms with blocked, tensor-valued, vector-valued (Piola) and mixed elements — for the table
    and dof-offset correspondences only (the closure oracle of c02_cases is scalar-valued; the generic oracle pass
    `oracle_corpus` covers values of such forms)."""
    from ufl import FacetNormal, FunctionSpace, TestFunction, TrialFunction, avg, dS, ds, inner, jump
    out = []

    def add(name, cell, el, rank2=True, exterior=False):
        m = mesh(cell)
        V = FunctionSpace(m, el)
        u, v = TrialFunction(V), TestFunction(V)
        n = FacetNormal(m)
        if exterior:
            a = inner(u, v) * ds
        else:
            a = inner(jump(u), jump(v)) * dS + inner(avg(u), v("-")) * dS + n("+")[0] * inner(u("-"), v("+")) * dS
        out.append((name, [a]))
    add("xc_vecP1_tri", "triangle", basix.ufl.element("P", "triangle", 1, shape=(2,)))
    add("xc_vecP2_tet", "tetrahedron", basix.ufl.element("P", "tetrahedron", 2, shape=(3,)))
    add("xc_tensorP1_tri", "triangle", basix.ufl.element("P", "triangle", 1, shape=(2, 2)))
    add("xc_vecQ1_quad", "quadrilateral", basix.ufl.element("Q", "quadrilateral", 1, shape=(2,)))
    add("xc_n1curl_tet", "tetrahedron", basix.ufl.element("N1curl", "tetrahedron", 1))
    add("xc_rt_tri", "triangle", basix.ufl.element("RT", "triangle", 1))
    add("xc_mixed_tri", "triangle", basix.ufl.mixed_element([basix.ufl.element("P", "triangle", 2, shape=(2,)),
                                                              basix.ufl.element("P", "triangle", 1)]))
    add("xc_vecP2_tri_ext", "triangle", basix.ufl.element("P", "triangle", 2, shape=(2,)), exterior=True)
    return out


def eval_index(e, env):
    """Value of an LNodes index expression under `env` (symbol -> int, array name -> list of int)."""
    import ffcx.codegeneration.lnodes as L
    if isinstance(e, (int, np.integer)):
        return int(e)
    if isinstance(e, L.LiteralInt):
        return int(e.value)
    if isinstance(e, L.Symbol):
        return env[e.name]
    if isinstance(e, L.MultiIndex):
        return eval_index(e.global_index, env)
    if isinstance(e, L.ArrayAccess):
        return env[e.array.name][eval_index(e.indices[0], env)]
    if isinstance(e, L.Sum):
        return sum(eval_index(a, env) for a in e.args)
    if isinstance(e, L.Product):
        out = 1
        for a in e.args:
            out *= eval_index(a, env)
        return out
    if isinstance(e, (L.Add, L.Mul)):
        x, y = eval_index(e.lhs, env), eval_index(e.rhs, env)
        return x + y if isinstance(e, L.Add) else x * y
    raise TypeError(type(e))


def scan_ast_tables(ast):
    """(declared tables, accesses) of a generated kernel AST: name -> numpy array of every `ArrayDecl` with values, and the
    set of (name, exported first index, exported second index, third index is the literal 0) of every 4-subscript access."""
    import ffcx.codegeneration.lnodes as L
    from harness import export
    decls, accesses = {}, set()

    def ex(e):
        if isinstance(e, L.ArrayAccess):
            if len(e.indices) == 4:
                i2 = e.indices[2]
                accesses.add((e.array.name, export.expr(e.indices[0]), export.expr(e.indices[1]),
                              isinstance(i2, L.LiteralInt) and int(i2.value) == 0))
            for i in e.indices:
                ex(i)
            return
        if isinstance(e, L.MultiIndex):
            for y in e.symbols:
                ex(y)
            ex(e.global_index)
            return
        for a in ("lhs", "rhs", "arg", "condition", "true", "false"):
            if hasattr(e, a) and isinstance(getattr(e, a), L.LExpr):
                ex(getattr(e, a))
        if hasattr(e, "args"):
            for a in e.args:
                if isinstance(a, L.LExpr):
                    ex(a)

    def st(x):
        if isinstance(x, list):
            for y in x:
                st(y)
        elif type(x) is L.Statement:
            st(x.expr)
        elif isinstance(x, (L.Assign, L.AssignAdd)):
            ex(x.lhs)
            ex(x.rhs)
        elif isinstance(x, L.VariableDecl):
            if isinstance(x.value, L.LExpr):
                ex(x.value)
        elif isinstance(x, L.ArrayDecl):
            if x.values is not None:
                try:
                    decls[x.symbol.name] = np.asarray(x.values, dtype=float)
                except (TypeError, ValueError):
                    pass  # an array of expressions (not a table)
        elif isinstance(x, L.ForRange):
            ex(x.begin)
            ex(x.end)
            st(x.body.statements)
        elif isinstance(x, L.StatementList):
            st(x.statements)
        elif isinstance(x, L.Section):
            st(x.declarations)
            st(x.statements)

    st(ast)
    return decls, accesses


def corr_real_table_reads(chk, d, forms_by_name, rng, per_table, max_work):
    """`tableRead (modelTable …)` of the Lean model against the REAL generated tables read through the REAL index
    expressions, value by value.

    For every kernel of the given forms (exterior/interior facet, vertex) and every modified terminal with an emitted
    table: the real array is the `ArrayDecl` of the generated AST; the real subscripts are what
    `FFCXBackendAccess.table_access(tr, entity_type, restriction, iq, ic)` returns for the real table reference `tr`
    (they must also occur in the AST), evaluated for seeded (quadrature_permutation, entity_local_index, iq, ic).
    The model side: the driver builds `buildTable` (model permutation of the rule points, model reference-entity map,
    basis functions = basix tabulation of the component element looked up BY CELL POINT) and reads it through
    `tableRead` (= `entityRow` + `tableSubscripts` + `Table.get`) with the flags of `tr`."""
    import ffcx.codegeneration.lnodes as L
    from ffcx.codegeneration.backend import FFCXBackend
    from ffcx.element_interface import basix_index
    from ffcx.ir.elementtables import get_modified_terminal_element
    from harness import export
    options = pipeline.default_options()
    stats = {"tables": 0, "reads": 0, "skipped_big": 0, "not_emitted": 0, "kernels": 0}
    kind_of = {"exterior_facet": "facet", "interior_facet": "facet", "vertex": "vertex"}
    for name, forms in forms_by_name:
        try:
            _, ir = pipeline.compute(forms, options)
            ks = pipeline.kernels(ir, options)
        except Exception as ex:  # noqa: BLE001 - rejected forms are C19's subject
            chk.notes.setdefault("table_reads_skipped", []).append(f"{name}: {type(ex).__name__}")
            continue
        for k in ks:
            if k.kind != "integral":
                continue
            ex_ir = k.ir.expression
            itype = ex_ir.integral_type
            if itype not in kind_of:
                continue
            stats["kernels"] += 1
            decls, accesses = scan_ast_tables(k.ast)
            backend = FFCXBackend(k.ir, options)
            seen = set()
            for (dom, rule), integrand in ex_ir.integrand.items():
                if dom != k.domain:
                    continue
                X = np.asarray(rule.points, dtype=float)
                npts = X.shape[0]
                for node in integrand["factorization"].nodes.values():
                    mt, tr = node.get("mt"), node.get("tr")
                    if mt is None or tr is None or tr.tensor_factors is not None:
                        continue
                    if tr.ttype in ("zeros", "ones", "quadrature") or tr.name not in decls:
                        stats["not_emitted"] += 1
                        continue
                    res = get_modified_terminal_element(mt)
                    if not res:
                        continue
                    element, avg, derivs, fc = res
                    cell = ufl.domain.extract_unique_domain(mt.terminal).ufl_cell().cellname
                    if avg or cell not in TDIM or element.cell.topological_dimension != TDIM[cell] or cell == "prism":
                        continue
                    key = (tr.name, mt.restriction, tr.is_permuted, tr.is_uniform, tr.is_piecewise, tuple(derivs), fc,
                           repr(element), rule.id())
                    if key in seen:
                        continue
                    seen.add(key)
                    td = TDIM[cell]
                    ft = facet_type(cell, 0) if (itype == "interior_facet" and td >= 2) else "point"
                    nent = len(ref_topology(cell)[td - 1 if kind_of[itype] == "facet" else 0])
                    comp_el, _off, _stride = element.get_component_element(fc)
                    nd, didx = sum(derivs), basix_index(derivs)
                    arr = decls[tr.name]
                    ndof = int(arr.shape[3])
                    if NUM_CODES[ft] * nent * npts * (ndof + NUM_CODES[ft] * nent * npts) > max_work:
                        stats["skipped_big"] += 1
                        continue
                    Xs = _pts_sexp(X) if X.shape[1] > 0 else "(" + " ".join("()" for _ in range(npts)) + ")"
                    P = d.ask(f"(tablepoints {ft} {cell} {kind_of[itype]} {nent} {Xs})")
                    vals = []
                    for row in P:
                        vrow = []
                        for ent in row:
                            pts = np.array([[float(Fraction(a)) for a in p] for p in ent], dtype=float).reshape(len(ent), td)
                            vrow.append(np.asarray(comp_el.tabulate(nd, pts))[didx])  # [q][dof]
                        vals.append(vrow)
                    if vals[0][0].shape != (npts, ndof):
                        chk.disagree("real table reads: shape of the component tabulation vs the generated table",
                                     {"form": name, "table": tr.name, "tabulated": list(vals[0][0].shape),
                                      "generated": list(arr.shape)})
                        continue
                    vtxt = "(" + " ".join("(" + " ".join("(" + " ".join("(" + " ".join(sexp.rat(float(v)) for v in dd) + ")"
                                                                          for dd in q) + ")" for q in e) + ")" for e in vals) + ")"
                    # the real subscripts
                    backend.symbols.element_tables[tr.name] = L.Symbol(tr.name, dtype=L.DataType.REAL)
                    iq = L.MultiIndex([L.Symbol("iq", dtype=L.DataType.INT)], [npts])
                    ic = L.MultiIndex([L.Symbol("ic", dtype=L.DataType.INT)], [ndof])
                    expr, _ = backend.access.table_access(tr, ex_ir.entity_type, mt.restriction, iq, ic)
                    idx = list(expr.indices)
                    i2zero = isinstance(idx[2], L.LiteralInt) and int(idx[2].value) == 0
                    sig = (tr.name, export.expr(idx[0]), export.expr(idx[1]), i2zero)
                    if sig not in accesses:
                        chk.disagree("real table reads: subscripts of access.table_access do not occur in the generated AST",
                                     {"form": name, "kernel": k.name, "table": tr.name, "subscripts": list(sig[1:]),
                                      "ast_accesses": sorted(a[1:] for a in accesses if a[0] == tr.name)[:6]})
                        continue
                    ncodes = NUM_CODES[ft]
                    reads = [((ncodes - 1, ncodes - 1), (nent - 1, nent - 1), npts - 1, ndof - 1)]
                    for _ in range(per_table - 1):
                        reads.append(((int(rng.integers(0, ncodes)), int(rng.integers(0, ncodes))),
                                      (int(rng.integers(0, nent)), int(rng.integers(0, nent))),
                                      int(rng.integers(0, npts)), int(rng.integers(0, ndof))))
                    b = lambda x: "true" if x else "false"  # noqa: E731
                    rn = {"+": "plus", "-": "minus", None: "none"}[mt.restriction]
                    rtxt = " ".join(f"({b(tr.is_permuted)} {b(tr.is_uniform)} {b(tr.is_piecewise)} {rn} ({qp[0]} {qp[1]}) "
                                    f"({el[0]} {el[1]}) {q} {dof})" for qp, el, q, dof in reads)
                    model = d.ask(f"(tablereads {ft} {cell} {kind_of[itype]} {nent} {ndof} {Xs} {vtxt} {ex_ir.entity_type} "
                                  f"({rtxt}))")
                    stats["tables"] += 1
                    for (qp, el, q, dof), mv in zip(reads, model):
                        env = {"quadrature_permutation": list(qp), "entity_local_index": list(el), "iq": q, "ic": dof}
                        try:
                            ii = [eval_index(i, env) for i in idx]
                            real = float(arr[ii[0], ii[1], ii[2], ii[3]])
                        except (IndexError, KeyError, TypeError) as ex2:
                            chk.disagree("real table reads: the real subscripts leave the generated table",
                                         {"form": name, "table": tr.name, "shape": list(arr.shape), "env": env,
                                          "error": repr(ex2)})
                            continue
                        mv = float(Fraction(mv))
                        stats["reads"] += 1
                        chk.case(kind="real_table_read",
                                 key=f"{cell}:{itype}:{mt.restriction}:{b(tr.is_permuted)}{b(tr.is_uniform)}{b(tr.is_piecewise)}:"
                                     f"{repr(element)[:40]}:{derivs}:{fc}:{qp}:{el}:{q}:{dof}")
                        tol = 1e-9 * max(1.0, abs(mv))
                        clamped = real in (-1.0, 0.0, 1.0) and abs(mv - real) <= 1e-9 + 1e-6 * abs(real)
                        if not (abs(real - mv) <= tol or clamped):
                            chk.disagree("tableRead (modelTable …) vs the real generated table read through the real subscripts",
                                         {"form": name, "kernel": k.name, "table": tr.name, "cell": cell,
                                          "integral_type": itype, "restriction": mt.restriction,
                                          "flags": [tr.is_permuted, tr.is_uniform, tr.is_piecewise],
                                          "quadrature_permutation": list(qp), "entity_local_index": list(el), "iq": q,
                                          "ic": dof, "real_subscripts": ii, "impl": real, "model": mv})
    chk.notes["real_table_reads"] = stats


def corr_layout(chk, d, rng):
    """Macro layout observed on compiled kernels vs the model's index functions:
    u(ru)*v(rv)*dS touches exactly the (rv, ru) block of A; a functional of f_k(r) is sensitive to
    exactly w[k][r][·]; CellVolume(r) is sensitive to exactly coordinate_dofs[r][·][<gdim]."""
    from ufl import CellVolume, Coefficient, FacetArea, FunctionSpace, TestFunction, TrialFunction, dS
    cell = "triangle"
    m = mesh(cell)
    e2, e1 = lag(cell, 2), lag(cell, 1)
    V2, V1 = FunctionSpace(m, e2.ufl), FunctionSpace(m, e1.ufl)
    u, v = TrialFunction(V1), TestFunction(V2)
    f, g = Coefficient(V2), Coefficient(V1)
    forms, meta = [], []
    for ru in "+-":
        for rv in "+-":
            forms.append(u(ru) * v(rv) * dS)
            meta.append(("A", rv, ru))
    for k, co in enumerate((f, g)):
        for r in "+-":
            # both coefficients always present so that offsets are those of a two-coefficient form
            forms.append(co(r) * co(r) * dS + 1e-300 * f("+") * g("+") * dS)
            meta.append(("w", k, r))
    for r in "+-":
        # ∫ CellVolume(r)/FacetArea dS = CellVolume(r): depends on the coordinates of side r only
        forms.append(CellVolume(m)(r) / FacetArea(m)("+") * dS)
        meta.append(("x", r))
    n, mm = e2.dim, e1.dim
    dims = [e2.dim, e1.dim]
    cp = random_affine_cell(cell, rng)
    cm = neighbour_cell(cp, 0, cell, 1, (0, 1), rng)
    psi = cp.facet_param(0, TEST_POINTS["interval"])
    cands = aligning_codes("interval", lambda X: cm.facet_param(1, X), psi)
    if len(cands) != 1:
        raise HarnessGeometryError(f"align:interval:no-unique-code (candidates {cands})")
    Nm = cands[0]
    x0 = np.concatenate([cp.coordinate_dofs().reshape(-1), cm.coordinate_dofs().reshape(-1)])
    with pipeline.TmpCache() as cache:
        res, mod, _ = pipeline.jit_forms(forms, cache)
        chk.programs += len(forms)
        for form, mt in zip(res, meta):
            integral = integrals_of(form, "interior_facet")[0]
            if mt[0] == "A":
                A = call(mod, integral, 4 * n * mm, np.zeros(0), x0, (0, 1), (0, Nm))
                impl = sorted(int(i) for i in np.nonzero(np.abs(A) > 1e-14)[0])
                ri, rj = "+-".index(mt[1]), "+-".index(mt[2])
                model = sorted(int(d.ask(f"(aindex {n} {mm} {ri} {rj} {i} {j})")) for i in range(n) for j in range(mm))
                # P2 x P1 facet mass: entries of dofs not on the facet vanish; the touched set must lie in the block
                ok = set(impl) <= set(model) and len(impl) > 0
                chk.case(kind="layout_A", key=f"{mt[1]}{mt[2]}")
                if not ok:
                    chk.disagree("macro layout of A", {"restrictions": mt[1:], "impl_nonzero": impl, "model_block": model})
            elif mt[0] == "w":
                k, r = mt[1], "+-".index(mt[2])
                wbase = dyadic(rng, (2 * sum(dims),), 8, 40, 16.0)
                base = call(mod, integral, 1, wbase, x0, (0, 1), (0, Nm))[0]
                sens = []
                for idx in range(2 * sum(dims)):
                    w2 = wbase.copy()
                    w2[idx] += 1.0
                    if abs(call(mod, integral, 1, w2, x0, (0, 1), (0, Nm))[0] - base) > 1e-9:
                        sens.append(idx)
                model = sorted(int(d.ask(f"(windex ({' '.join(map(str, dims))}) {k} {r} {i})")) for i in range(dims[k]))
                chk.case(kind="layout_w", key=f"{k}{mt[2]}")
                # dofs whose basis function vanishes on the facet are insensitive: impl ⊆ model block, non-empty,
                if not (set(sens) <= set(model) and len(sens) > 0):
                    chk.disagree("macro layout of w", {"coefficient": k, "restriction": mt[2], "impl_sensitive": sens, "model_block": model})
            else:
                r = "+-".index(mt[1])
                base = call(mod, integral, 1, np.zeros(0), x0, (0, 1), (0, Nm))[0]
                sens = []
                for idx in range(len(x0)):
                    x2 = x0.copy()
                    x2[idx] += 0.125
                    if abs(call(mod, integral, 1, np.zeros(0), x2, (0, 1), (0, Nm))[0] - base) > 1e-9:
                        sens.append(idx)
                nodes = 3
                # the third component is padding (gdim = 2): never read
                model = sorted(int(d.ask(f"(xindex {nodes} {r} {nd} {c})")) for nd in range(nodes) for c in range(2))
                chk.case(kind="layout_x", key=mt[1])
                # a coordinate to which the quantity happens to be insensitive on this random cell (an exactly zero entry of the
                # affine map) must not alarm: touched set ⊆ block, more than half of the block, nothing outside
                if not (set(sens) <= set(model) and 2 * len(sens) > len(model)):
                    chk.disagree("macro layout of coordinate_dofs", {"restriction": mt[1], "impl_sensitive": sens, "model_block": model})


# =====================================================================================
#  Reference-facet-edge-vector probe (known finding; Lean witness refgeom_access_counterexample)
# =====================================================================================
def probe_rfev(chk, rng):
    """ufl.geometry.ReferenceFacetEdgeVectors on every facet of a tetrahedron against basix geometry."""
    from ufl import FunctionSpace, TestFunction, ds
    cell = "tetrahedron"
    m = mesh(cell)
    e = lag(cell, 1)
    v = TestFunction(FunctionSpace(m, e.ufl))
    rfev = ufl.geometry.ReferenceFacetEdgeVectors(m)
    comps = [(1, 0), (1, 2), (2, 1)]
    forms = [rfev[a, b] * v * ds for a, b in comps]
    g = ref_geometry(cell)
    topo = ref_topology(cell)
    tri_edges = ref_topology("triangle")[1]
    cp = random_affine_cell(cell, rng)
    bad = []
    with pipeline.TmpCache() as cache:
        try:
            res, mod, _ = pipeline.jit_forms(forms, cache)
        except Exception as ex:  # noqa: BLE001
            chk.notes["rfev_probe"] = f"rejected: {type(ex).__name__}"
            return None
        chk.programs += len(forms)
        for form, (a, b) in zip(res, comps):
            integral = integrals_of(form, "exterior_facet")[0]
            for f in range(4):
                A = call(mod, integral, e.dim, np.zeros(0), cp.coordinate_dofs().reshape(-1), (f,), ())
                fv = topo[2][f]
                i, j = tri_edges[a]
                expect_val = (g[fv[j]] - g[fv[i]])[b]
                setup = OracleSetup("exterior_facet", [cp], (f,), test=e)
                ref = setup.integrate(lambda P: expect_val * P.v())
                err = float(np.abs(A - ref).max()) / max(1.0, float(np.abs(ref).max()))
                chk.case(kind="rfev", key=f"{a}{b}:{f}")
                if err > 1e-10:
                    bad.append({"component": [a, b], "facet": f, "expected_value": float(expect_val), "kernel_A": A.tolist(),
                                "oracle_A": np.asarray(ref).tolist()})
    if bad:
        chk.violation(
            key=KNOWN_FINDING_KEY,
            what="ReferenceFacetEdgeVectors evaluates to facet 0's edge vectors on every facet "
                 "(access.reference_facet_edge_vectors indexes the flattened table without the facet)",
            payload={"ufl": "ufl.geometry.ReferenceFacetEdgeVectors(mesh)[a, b] * v * ds, P1 tetrahedron",
                     "coordinate_dofs": cp.coordinate_dofs().reshape(-1).tolist(), "failures": bad[:6],
                     "lean": "Ffcx.C02.refgeom_access_counterexample (FfcxProofs.C02Known)"})
    return bool(bad)


# =====================================================================================
def corpus_facet_forms():
    out = []
    for e in corpus_mod.fixed():
        if set(e.tags) & {"facet", "interior", "vertex"}:
            out.append(e)
    return out


def oracle_corpus(chk):
    """Every facet/vertex form of the shared corpus (mixed, blocked, Piola-mapped, quadrature elements, cell-size
    quantities, several rules) against the generic oracle (harness/oracle.py) for EVERY local entity index
    (pair) — the forms the closures of c02_cases cannot express."""
    from .. import cjit, numeric
    ents = corpus_facet_forms()
    if chk.tier == "quick":
        keep = ("int_facet_mixed", "int_facet_cellsize_tri", "int_facet_cellsize_tet", "int_facet_tri", "int_facet_tet",
                "ext_facet_tet", "vertex_tri", "one_sided_dS", "prism", "geometry_tri", "int_facet_two_rules_a", "int_facet_hex")
        ents = [e for e in ents if e.name in keep]

    def work(i):
        return numeric.compare_entry(ents[i], {}, seed=chk.seed * 31 + i, reps=1, all_entities=True,
                                     kinds=("exterior_facet", "interior_facet", "vertex"))
    res = cjit.parallel_map(work, list(range(len(ents))))
    for i, (st, r) in sorted(res.items()):
        if st != "ok" or "error" in r:
            chk.notes.setdefault("oracle_corpus_errors", []).append(f"{ents[i].name}: {str(r)[:200]}")
            continue
        chk.case("oracle_corpus", r["name"], n=max(1, r["compared"]),
                 sample={"entry": r["name"], "compared": r["compared"], "max_rel": r["maxrel"]} if i < 2 else None)
        for b in r["bad"]:
            chk.violation(f"c02:oracle:{r['name']}:{b.get('integral_type', '?')}",
                          f"{b.get('integral_type')} kernel of {r['name']} differs from the oracle at local entity {b.get('entity')} (rel {b.get('relerr')})",
                          {"entry": r["name"], **b})


def lean_obligations(chk):
    """FfcxProofs.C02 (+ table_access_spec of C03) and, separately, FfcxProofs.C02Known: the statements that are expected
    to turn false when the known finding is repaired upstream.  Returns (c02_ok, known_ok)."""
    L = lean.LEAN
    c02_ok = chk.lean("FfcxProofs.C02", THEOREMS, extra_files=[
        L / "FfcxProofs/Lemmas/Geom.lean", L / "FfcxModel/Geometry/RefCell.lean", L / "FfcxModel/IR/Perm.lean",
        L / "FfcxModel/Geometry/TableRead.lean", L / "FfcxModel/Generated/RefCells.lean"])
    # value read = basis function at the entity map of the permuted point
    chk.lean("FfcxProofs.C03", ["Ffcx.C03.table_access_spec", "Ffcx.C03.table_access_spec_noperm"],
             extra_files=[L / "FfcxProofs/Lemmas/GeomIndep.lean"])
    known_ok = chk.lean("FfcxProofs.C02Known", KNOWN_THEOREMS)
    return c02_ok, known_ok


def known_finding_obligation(chk, c02_ok, known_ok, reproduced):
    """Make a flipped `FfcxProofs.C02Known` say what it means.  `reproduced`: the compiled-kernel probe still shows the
    defect (True), no longer shows it (False), or could not run (None)."""
    chk.notes["known_finding_model"] = {"module_builds": bool(known_ok), "kernel_probe_reproduces": reproduced}
    if known_ok:
        if reproduced is False:
            chk.disagree("known finding reproduces in the model (FfcxProofs.C02Known builds) but not on the compiled kernel",
                         {"key": KNOWN_FINDING_KEY, "hint": "update known_findings.jsonl / the probe"})
        return
    if not c02_ok:
        return  # FfcxProofs.C02 itself is broken: C02Known (which imports it) says nothing on its own
    msg = (f"known finding no longer reproduces in the model: update known_findings.jsonl ({KNOWN_FINDING_KEY}; "
           f"FfcxProofs.C02Known / {', '.join(KNOWN_THEOREMS)} is false on the regenerated reference tables"
           + ("; the compiled-kernel probe no longer shows the defect either" if reproduced is False else
              "; the compiled-kernel probe STILL shows the defect" if reproduced else "") + ")")
    for b in chk.broken:
        if b.get("kind") == "lean-build" and b.get("module") == "FfcxProofs.C02Known":
            b["what"] = msg
    print(f"[C02] {msg}")


def check_extraction(chk):
    """An unexpected `none` table / rejected access handler in the regenerated data (a writer that starts raising, or a
    probe of extract_geom.py that no longer fits FFCx) would silently turn guarded parts of the `decide` theorems vacuous."""
    for f in extract_geom.unexpected_failures():
        chk.disagree("extract_geom: a geometry table / access handler is unexpectedly absent", f)
    seen = {(k, c, t) for k, c, t, *_ in extract_geom.FAILURES}
    gone = sorted(" ".join(k) for k in extract_geom.EXPECTED_ABSENT if k not in seen)
    if gone:
        chk.notes["extract_geom_now_present"] = gone  # new support upstream: not an alarm
    chk.notes["extract_geom_absent"] = len(extract_geom.FAILURES)
    if extract_geom.SHAPE_NOTES:
        chk.notes["extract_geom_shape_notes"] = list(extract_geom.SHAPE_NOTES)
    for c in extract_geom.CELLS[1:]:
        chk.case(kind="extract_tables", key=c, n=len(extract_geom.TABLES) + len(extract_geom.ACCESS))


def run(chk):
    rng = np.random.default_rng(1000 + chk.seed)
    random.seed(chk.seed)
    quick = chk.tier == "quick"
    chk.rule = ("search: one case per (form, local entity index [pair]) on a fresh random geometry with random dyadic "
                "coefficients, distinct on the two cells — `oracle`: affine cells, every entity (pair; 3D quick: every index on "
                "both sides, two partner offsets), `oracle_nonaffine`: bilinear quadrilaterals and P2 triangles, every entity "
                "pair; distinct non-trivial = oracle value non-zero; correspondence: one case per (cell, entity) map, (entity "
                "type, restriction), (table, permutation row, entity) block, layout block, and `real_table_read`: one case per "
                "seeded (real table, restriction, quadrature_permutation, entity_local_index, point, dof) "
                f"({8 if quick else 24} reads per table incl. the all-maximal tuple)")
    chk.trusted += [
        "harness/extract_geom.py (basix/FFCx tables -> exact rationals in Generated/RefCells.lean)",
        "the independent oracle in harness/props/c02.py (numpy + basix tabulation/quadrature; affine cells, bilinear "
        "quadrilaterals, P2 triangles)",
        "basix reference geometry, topology, tabulation and quadrature taken as given",
    ]
    chk.assumptions += [
        "search geometries: affine images of the reference cells (parallelotopes for quadrilateral/hexahedron) with degree-1 "
        "coordinate elements, plus non-affine bilinear quadrilaterals and triangles with a degree-2 coordinate element "
        "(fixed quadrature degree, same basix rule in kernel and oracle); gdim = tdim; Lagrange P1/P2 (Q1/Q2) integrands",
        "interior-facet integrals on prisms are rejected by FFCx (UnboundLocalError in build_optimized_tables) and "
        "FacetNormal on prisms is rejected by access.reference_normal: not searched (rejections are C19's subject)",
        "floating point: kernels are compared with the oracle to relative 1e-10 (scaled by max(1, |A|))",
    ]
    # (a) obligations over regenerated tables
    chk.notes["refcells_rewritten"] = extract_geom.regenerate()
    check_extraction(chk)
    c02_ok, known_ok = lean_obligations(chk)
    chk.exhaustive = True  # the finite reference-cell tables are covered completely by `decide`

    # (b) correspondence
    with lean.Driver("driver_geom") as d:
        corr_entity_maps(chk, d, rng)
        corr_entity_selection(chk, d)
        names = [(e.name, e) for e in corpus_facet_forms()]
        forms_by_name = []
        for nm, e in names:
            try:
                forms_by_name.append((nm, e.build()))
            except Exception as ex:  # noqa: BLE001
                chk.notes.setdefault("corpus_build_failed", []).append(f"{nm}: {type(ex).__name__}")
        forms_by_name += extra_corr_forms()
        cases = c02_cases(chk.tier) + nonaffine_cases()
        ngen = 24 if quick else 96
        cases += generated_cases(chk.seed, ngen)
        read_forms = list(forms_by_name)
        gen_reads = 0
        for c in cases:
            forms_by_name.append((c.name, [c.make()]))
            if c.name.startswith("gen_"):
                if quick and gen_reads >= 6:
                    continue  # quick tier: the first 6 seeded generated forms take part in the real-table-read tie
                gen_reads += 1
            read_forms.append(forms_by_name[-1])
        corr_tables(chk, d, forms_by_name)
        corr_ir_offsets(chk, d, forms_by_name)
        corr_real_table_reads(chk, d, read_forms, rng, per_table=8 if quick else 24,
                              max_work=3_000_000 if quick else 40_000_000)
        try:
            corr_layout(chk, d, rng)
        except (HarnessGeometryError, AssertionError, IndexError, RuntimeError) as ex:
            chk.disagree("macro-layout probe could not be set up / compiled",
                         {"error": f"{type(ex).__name__}: {str(ex)[:300]}"})

    # (c) search
    hist = {}
    worst = {}
    with pipeline.TmpCache() as cache:
        forms = [c.make() for c in cases]
        try:
            compiled, mod, _ = pipeline.jit_forms(forms, cache)
            units = [(c, f, mod) for c, f in zip(cases, compiled)]
        except Exception as ex:  # noqa: BLE001 - a rejected form must not hide the others
            chk.notes["batch_compile_failed"] = f"{type(ex).__name__}: {str(ex)[:200]}"
            units = []
            for c in cases:
                try:
                    (f1,), m1, _ = pipeline.jit_forms([c.make()], cache)
                    units.append((c, f1, m1))
                except Exception as ex1:  # noqa: BLE001
                    chk.notes.setdefault("rejected_forms", []).append(f"{c.name}: {type(ex1).__name__}")
                    if not c.name.startswith("gen_"):
                        # the fixed forms are accepted on the pinned tree: losing one silently would shrink the search
                        chk.disagree("a fixed facet form of the search no longer compiles",
                                     {"case": c.name, "error": f"{type(ex1).__name__}: {str(ex1)[:300]}"})
        chk.programs += len(units)
        reps = 2 if quick else 8
        for c, form, m in units:
            for _ in range(reps if not c.name.startswith("gen_") else 2):
                w = run_case(chk, c, form, m, rng, chk.tier, hist)
                worst[c.name] = max(worst.get(c.name, 0.0), w)
    chk.notes["oracle_configs_per_cell"] = hist
    chk.notes["oracle_worst_rel_err"] = {k: float(f"{v:.3e}") for k, v in worst.items()}
    reproduced = probe_rfev(chk, rng)
    known_finding_obligation(chk, c02_ok, known_ok, reproduced)
    oracle_corpus(chk)
    if not quick:
        chk.leanchecker(["FfcxProofs.Lemmas.Geom", "FfcxProofs.C02", "FfcxProofs.C02Known"])
