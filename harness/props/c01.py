"""C01 — cell-integral kernels compute the form's element tensor."""
import numpy as np

from .. import cjit, codegen_checks, corpus, ir_checks, kernels, lean, numeric, pipeline

THEOREMS_C08 = ["Ffcx.LNodes.subscript_in_extent", "Ffcx.LNodes.flatten_inj"]
THEOREMS_C17 = ["Ffcx.LNodes.global_index_value", "Ffcx.LNodes.float_product_sound"]
THEOREMS_C07 = ["Ffcx.LNodes.call_adds"]


def _entries(chk):
    ents = [e for e in corpus.fixed() if "cell" in e.tags]
    if chk.tier == "thorough":
        ents += corpus.demos() + corpus.generated(chk.seed, 120)
    else:
        ents += corpus.generated(chk.seed, 16)
    return ents


def sem_vs_c(chk, ents):
    """Tie of the Lean semantics to compiled C: exec(real AST) over Float vs the C kernel."""
    rng = np.random.default_rng(chk.seed)
    with lean.Driver("driver") as d:
        for e in ents:
            if str(getattr(e, "options", {}).get("scalar_type", "float64")) != "float64":
                continue  # the Float driver models the float64 kernels only (e.g. the complex-mode demo)
            try:
                objs, cases, comp, mod = numeric.build(e, {})
            except Exception as ex:
                chk.notes.setdefault("skipped", []).append(f"{e.name}: {type(ex).__name__}: {str(ex)[:80]}")
                continue
            for c in cases:
                if c.integral_type != "cell":
                    continue
                inp = numeric.make_data(c, rng)
                try:
                    ko = kernels.compiled_kernel(comp, c)
                except LookupError:
                    continue
                A = numeric.call_c(mod, ko, c, inp, "float64")
                st, B = kernels.lean_exec(d, c, inp, "float")
                chk.case("sem_vs_c", c.name)
                if st != "ok":
                    chk.disagree("Lean exec fails on a kernel the C compiler runs", {"kernel": c.name, "reply": B})
                    continue
                B = B[:len(A)]
                if np.isnan(B).any():
                    continue  # math function without a Float model (erf, bessel)
                scale = max(1.0, float(np.abs(A).max()))
                if float(np.abs(A - B).max()) > 1e-11 * scale:
                    chk.disagree("LNodes semantics (Lean, Float) vs compiled C kernel",
                                 {"kernel": c.name, "maxdiff": float(np.abs(A - B).max())})


def run(chk):
    chk.rule = ("cell kernels of the corpus (fixed forms covering arity 0/1/2, scalar/blocked/symmetric/mixed/enriched/Piola/quadrature "
                "elements, affine/non-affine/manifold geometry + seeded generated forms) compiled to C and compared with the independent "
                "oracle (UFL lowering with the oracle's own flags + NumPy interpreter + Basix) on random non-degenerate cells and data, "
                "rel. tol 1e-10; distinct = kernel. Tie: Lean Float execution of every exported AST vs the C kernel.")
    chk.trusted += ["harness/oracle.py; UFL's symbolic lowering and Basix tabulation/quadrature are shared between FFCx and the oracle (taken as given)",
                    "floating-point rounding: comparisons at rel. tol 1e-10 (float64)",
                    "kernel_meets_spec_partial: the code before the tensor computation (access.py / definitions.py: coefficient and geometry "
                    "definitions) is assumed to establish the fw defining values (hypothesis hpart); table values = basis functions is C02/C03's subject"]
    chk.assumptions += ["CellOrientation ≡ 1 (FFCx's convention; the UFCx kernel has no argument for it)"]
    chk.lean("FfcxProofs.C08", THEOREMS_C08)
    chk.lean("FfcxProofs.C17", THEOREMS_C17)
    chk.lean("FfcxProofs.C07", THEOREMS_C07)
    chk.lean(ir_checks.IR_MODULE, ir_checks.TABLE_THEOREMS + ir_checks.FACTORIZE_THEOREMS, extra_files=ir_checks.IR_FILES)
    ents = _entries(chk)
    # IR-level cores: real tables and real scalar graphs / factorisations vs the Lean models
    ir_ents = [e for e in corpus.fixed() + corpus.expressions()] + (corpus.generated(chk.seed, 40) if chk.tier == "thorough" else [])
    with lean.Driver("driver_ir") as d:
        ir_checks.check_tables(chk, d, ir_ents, 1e-6, 1e-9)
        ir_checks.check_factorization(chk, d, ir_ents)
        ir_checks.check_factorization_probes(chk, d)
    # Lean transcription of the block / quadrature-loop / partition generators: exact structural correspondence with the
    # real generator calls (intercepted), side conditions of genBlock_spec / quadLoop_spec evaluated per real block
    chk.lean(codegen_checks.CODEGEN_MODULE, codegen_checks.CODEGEN_THEOREMS, extra_files=codegen_checks.CODEGEN_FILES)
    chk.lean(codegen_checks.PARTITION_MODULE, codegen_checks.PARTITION_THEOREMS, extra_files=codegen_checks.PARTITION_FILES)
    chk.lean(codegen_checks.DEFS_MODULE, codegen_checks.DEFS_THEOREMS, extra_files=codegen_checks.DEFS_FILES)
    # independent specification quadSpec = Σ_q w_q · val(integrand graph) and kernel_meets_spec(_checked): translation validation of the
    # real partition against the real IR graph (spec_link / values_link), Bool checks proved sound, exact exec-vs-spec over Rat
    chk.lean(codegen_checks.SPEC_MODULE, codegen_checks.SPEC_THEOREMS, extra_files=codegen_checks.SPEC_FILES)
    with lean.Driver("driver_codegen") as d:
        codegen_checks.check_blocks(chk, d, ir_ents + codegen_checks.extra_entries())
        codegen_checks.check_synthetic(chk, d, chk.seed, 400 if chk.tier == "quick" else 5000)
    opts = [{}]
    if chk.tier == "thorough":
        opts += [{"scalar_type": "float32"}, {"scalar_type": "complex128"}]
    jobs = [(i, j) for i in range(len(ents)) for j in range(len(opts))]

    def work(job):
        i, j = job
        return numeric.compare_entry(ents[i], opts[j], seed=chk.seed * 1009 + i, reps=2 if chk.tier == "thorough" else 1,
                                     kinds=("cell",))
    res = cjit.parallel_map(work, jobs)
    for job, (st, r) in sorted(res.items()):
        e = ents[job[0]]
        if st != "ok":
            chk.notes.setdefault("worker_errors", []).append(f"{e.name}: {st}: {str(r)[:160]}")
            continue
        if "error" in r:
            # a form the current tree rejects/crashes on: C19's business unless it is a corpus regression
            chk.notes.setdefault("build_errors", []).append(f"{e.name}: {r['error'][:160]}")
            continue
        chk.programs += r["cases"]
        chk.case("oracle_compare", e.name if r["compared"] else None, n=max(r["compared"], 1),
                 sample={"entry": e.name, "kernels": r["cases"], "compared": r["compared"], "max_rel_err": r["maxrel"]}
                 if len(chk.samples) < 6 else None)
        for u in r["unsupported"][:3]:
            chk.notes.setdefault("oracle_unsupported", []).append(u)
        for b in r["bad"]:
            key = "multi-rule-shared-piecewise-scope" if ("multi_rule" in e.name) else f"{e.name}"
            chk.violation(f"c01:{key}", f"cell kernel differs from the oracle (rel err {b.get('relerr')})", {"entry": e.name, "options": opts[job[1]], **b})
    sem_vs_c(chk, [e for e in ents if "generated" not in e.tags][:12] if chk.tier == "quick" else ents[:60])
    if chk.tier == "thorough":
        chk.leanchecker(["FfcxProofs.C07", "FfcxProofs.C08", "FfcxProofs.C17"])
