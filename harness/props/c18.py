"""C18 — the numba backend computes the same tensors as the C backend."""
import ast
import math
import types

import numpy as np

import ffcx.codegeneration.common as common
import ffcx.codegeneration.lnodes as L
import ffcx.codegeneration.numba.formatter as nfmt
import ffcx.compiler

from .. import cjit, corpus, kernels, layout_checks as LC, lean, numeric, pipeline


class _Carray:
    """Stand-in for numba.carray in plain-Python execution: a bounds-checked view of EXACTLY the
    declared extent (a declared extent smaller than what the kernel touches raises IndexError)."""

    @staticmethod
    def carray(buf, shape):
        n = int(np.prod(shape)) if not isinstance(shape, int) else int(shape)
        # an over-declared extent has no behavioural effect (carray is an unchecked view); an under-declared
        # one makes the kernel read outside its own view, which the slice below turns into an IndexError
        return buf[:min(n, buf.size)]


def load_numba_module(src):
    """exec the generated module with numba.carray shimmed; returns the module namespace."""
    ast.parse(src)  # must be valid Python
    ns = {"__name__": "ffcx_numba_generated"}
    import sys
    fake = types.ModuleType("numba")
    fake.carray = _Carray.carray
    saved = sys.modules.get("numba")
    sys.modules["numba"] = fake
    try:
        exec(compile(src, "<ffcx numba>", "exec"), ns)
    finally:
        if saved is not None:
            sys.modules["numba"] = saved
        else:
            sys.modules.pop("numba", None)
    return ns


def function_table(chk):
    """Every math-function handler name the AST can carry maps, in the numba formatter, to an existing callable
    applied to its arguments (complete finite table from source)."""
    import ufl
    x = L.Symbol("x", L.DataType.REAL)
    y = L.Symbol("y", L.DataType.REAL)
    f = nfmt.Formatter("float64")
    two = {"atan2", "min_value", "max_value", "power", "bessel_j", "bessel_y"}
    for cls, fn in L._ufl_call_lookup.items():
        if fn is not L._math_function or cls is ufl.mathfunctions.MathFunction:
            continue
        n = cls._ufl_handler_name_
        if n in ("conj", "real", "imag"):
            args = [L.Symbol("z", L.DataType.SCALAR)]
        else:
            args = [x, y] if n in two else [x]
        txt = f(L.MathFunction(n, args))
        chk.case("numba_function_table", n, sample={"handler": n, "emitted": txt} if len(chk.samples) < 3 else None)
        ok = True
        why = ""
        try:
            tree = ast.parse(txt, mode="eval").body
            if not isinstance(tree, ast.Call):
                ok, why = False, "not a call expression: the arguments are dropped"
            else:
                # the names a generated module really has: the import lines of the numba file template
                import ffcx.codegeneration.numba.file_template as ft
                env = {"x": 0.5, "y": 0.25, "z": 0.5 + 0.25j}
                tmpl = next(v for v in vars(ft).values() if isinstance(v, str) and "import numpy as np" in v)
                for line in tmpl.splitlines():
                    if line.startswith(("import ", "from ")) and "numba" not in line:
                        exec(line, env)
                eval(compile(ast.Expression(tree), "<fn>", "eval"), env)
        except (AttributeError, NameError, SyntaxError) as ex:
            ok, why = False, f"{type(ex).__name__}: {ex}"
        except Exception:
            pass  # domain errors etc. are fine: the callable exists
        if not ok:
            chk.violation(f"c18:numba-function:{n}", f"numba formatter emits `{txt}` for math function `{n}`: {why}",
                          {"handler": n, "emitted": txt, "why": why})


def carray_sizes(chk, ents):
    """declared numba.carray extents vs the UFCx contract extents (from UFL/Basix)."""
    for e in ents:
        try:
            cases, _, _ = kernels.cases_for_entry(e)
        except Exception:
            continue
        for c in cases:
            s = common.tensor_sizes(c.ir)
            decl = {"A": int(s.A), "w": int(s.w), "c": int(s.c), "coordinate_dofs": int(s.coords)}
            chk.case("carray_sizes", f"{c.name}:{c.integral_type}")
            for k in ("A", "w", "c", "coordinate_dofs"):
                # a declared extent may be larger than needed only if the contract provides it; smaller ⇒ reads fail
                if decl[k] < c.sizes[k]:
                    chk.violation(f"c18:carray-extent:{k}:{c.integral_type}",
                                  f"numba.carray extent of {k} is {decl[k]} but the UFCx contract extent is {c.sizes[k]} ({c.integral_type})",
                                  {"kernel": c.name, "declared": decl, "contract": c.sizes})


def kernels_vs_c(chk, ents, st="float64", one_process=False):
    cplx = st.startswith("complex")
    npdt = {"float64": np.float64, "float32": np.float32, "complex128": np.complex128, "complex64": np.complex64}[st]
    opts = {} if st == "float64" else {"scalar_type": st}

    def work(i):
        e = ents[i]
        out = {"name": e.name + ("" if st == "float64" else f":{st}"), "n": 0, "bad": [], "maxrel": 0.0}
        rng = np.random.default_rng(chk.seed * 19 + i)
        objs, cases, comp, mod = numeric.build(e, opts)
        objs2 = e.build()
        src = ffcx.compiler.compile_ufl_objects(objs2, options=pipeline.default_options(language="numba", **opts), namespace="vf")[0][0]
        try:
            ns = load_numba_module(src)
        except SyntaxError as ex:
            out["bad"].append({"what": f"generated numba module is not valid Python: {ex}", "line": (src.splitlines()[ex.lineno - 1] if ex.lineno else "")[:160]})
            return out
        for c in cases:
            kname = c.name.split(":", 1)[1]
            cls = ns.get(kname)
            if cls is None:
                out["bad"].append({"kernel": c.name, "what": "kernel class not found in the numba module"})
                continue
            fn = cls.__dict__["tabulate_tensor"]
            ents_ = numeric.entity_choices(c, rng, False)[:2]
            for ent in ents_:
                inp = numeric.make_data(c, rng, st, entity=ent, perm=[0] * c.sizes["quadrature_permutation"], complex_data=cplx)
                A = numeric.call_c(mod, kernels.compiled_kernel(comp, c), c, inp, st)
                B = np.zeros(max(c.sizes["A"], 1), dtype=npdt)
                try:
                    fn(B, np.array(inp["w"], dtype=npdt), np.array(inp["c"], dtype=npdt), np.array(inp["coordinate_dofs"], dtype=float),
                       np.array(list(inp["entity_local_index"]) + [0, 0], dtype=np.intc)[:2],
                       np.array(list(inp["quadrature_permutation"]), dtype=np.uint8), 0)
                except Exception as ex:
                    out["bad"].append({"kernel": c.name, "integral_type": c.integral_type, "what": f"numba kernel raises in plain Python: {type(ex).__name__}: {str(ex)[:160]}"})
                    break
                B = B[:len(A)]
                rel = float(np.abs(A - B).max() / max(1.0, np.abs(A).max()))
                out["n"] += 1
                out["maxrel"] = max(out["maxrel"], rel)
                if not rel <= (1e-11 if st in ("float64", "complex128") else 2e-4):
                    out["bad"].append({"kernel": c.name, "what": f"numba and C tensors differ (rel {rel})"})
                    break
            # descriptor attributes
            if c.kind == "integral":
                ko = kernels.compiled_kernel(comp, c)
                nco = len(c.coef_blocks)
                cen = [bool(ko.enabled_coefficients[j]) for j in range(nco)]
                if [bool(v) for v in cls.enabled_coefficients] != cen:
                    out["bad"].append({"kernel": c.name, "what": "enabled_coefficients differ between numba and C"})
                if bool(cls.needs_facet_permutations) != bool(ko.needs_facet_permutations):
                    out["bad"].append({"kernel": c.name, "what": "needs_facet_permutations differs"})
                if int(cls.domain) != int(ko.domain):
                    out["bad"].append({"kernel": c.name, "what": "domain tag differs"})
        # form / expression descriptors
        if e.kind == "form":
            for fi, cf in enumerate(comp):
                fcls = [v for k, v in ns.items() if k.startswith("form_") and isinstance(v, type) and k.count("_") == 1]
                if len(fcls) <= fi:
                    continue
                nf = fcls[fi]
                pairs = [("rank", int(cf.rank)), ("num_coefficients", int(cf.num_coefficients)), ("num_constants", int(cf.num_constants))]
                for k, v in pairs:
                    if int(getattr(nf, k)) != v:
                        out["bad"].append({"what": f"form descriptor field {k}: numba {getattr(nf, k)} vs C {v}"})
                nint = cf.form_integral_offsets[5]
                ids_c = [int(cf.form_integral_ids[k]) for k in range(nint)]
                if [int(v) for v in (nf.form_integral_ids or [])] != ids_c:
                    out["bad"].append({"what": f"form_integral_ids: numba {list(nf.form_integral_ids)} vs C {ids_c}"})
                offs_c = [int(cf.form_integral_offsets[k]) for k in range(6)]
                if [int(v) for v in nf.form_integral_offsets] != offs_c:
                    out["bad"].append({"what": f"form_integral_offsets: numba {list(nf.form_integral_offsets)} vs C {offs_c}"})
                pos_c = [int(cf.original_coefficient_positions[k]) for k in range(cf.num_coefficients)]
                if [int(v) for v in (nf.original_coefficient_positions or [])] != pos_c:
                    out["bad"].append({"what": "original_coefficient_positions differ"})
        else:
            for ei, ce in enumerate(comp):
                c = cases[ei]
                ne = ns.get(c.name.split(":", 1)[1])
                if ne is None:
                    continue
                vs = [int(ce.value_shape[k]) for k in range(ce.num_components)]
                pairs = [("num_points", int(ce.num_points)), ("entity_dimension", int(ce.entity_dimension)), ("rank", int(ce.rank)),
                         ("num_coefficients", int(ce.num_coefficients)), ("num_constants", int(ce.num_constants)),
                         ("num_components", int(ce.num_components))]
                for k, v in pairs:
                    if int(getattr(ne, k)) != v:
                        out["bad"].append({"what": f"expression descriptor field {k}: numba {getattr(ne, k)} vs C {v}"})
                if [int(v) for v in ne.value_shape] != vs:
                    out["bad"].append({"what": f"expression value_shape: numba {list(ne.value_shape)} vs C {vs}"})
        return out
    if one_process:
        # all entries generated one after the other in ONE process: state kept by the numba backend between kernels
        # (caches keyed by table names, counters) must not leak from one module into the next
        seq = cjit.parallel_map(lambda _: [work(i) for i in range(len(ents))], [0])
        st0, rs = seq[0]
        res = {i: ("ok", r) for i, r in enumerate(rs)} if st0 == "ok" else {i: (st0, rs) for i in range(len(ents))}
        for r in (rs if st0 == "ok" else []):
            r["name"] += ":after-others"
    else:
        res = cjit.parallel_map(work, list(range(len(ents))))
    for i, (st, r) in sorted(res.items()):
        if st != "ok":
            chk.notes.setdefault("errors", []).append(f"{ents[i].name}: {st}: {str(r)[:300]}")
            chk.disagree("numba comparison run failed", {"entry": ents[i].name, "detail": str(r)[:300]})
            continue
        chk.programs += 1
        chk.case("numba_vs_c", r["name"], n=max(1, r["n"]),
                 sample={"entry": r["name"], "calls": r["n"], "max_rel_diff": r["maxrel"]} if len(chk.samples) < 8 else None)
        for b in r["bad"]:
            w = b["what"]
            if "carray extent" in w or "IndexError" in w:
                key = f"c18:carray-extent:run:{b.get('integral_type', '')}"
            elif "not valid Python" in w:
                key = "c18:invalid-python:" + ("not-operator" if "!" in b.get("line", "") else "other")
            elif "descriptor" in w or "value_shape" in w or "num_components" in w:
                key = "c18:descriptor:" + w.split(":")[0].split()[-1]
            else:
                key = f"c18:{r['name']}:{w[:40]}"
            chk.violation(key, w, {"entry": r["name"], **b})


def history_entries():
    """Mass forms on ONE cell with elements of equal dof counts but different basis functions, so that per-kernel table names
    (FE0_…, same rule id, same shape) coincide while their values differ."""
    import basix.ufl
    from ufl import FunctionSpace, TestFunction, TrialFunction, dx, inner
    out = []
    specs = [("RT", 1, None), ("N1curl", 1, None), ("DP", 1, None), ("P", 1, None), ("CR", 1, None),
             ("P", 3, "equispaced"), ("P", 3, "gll_warped"), ("DP", 2, None), ("P", 2, None)]
    for fam, deg, variant in specs:
        def b(fam=fam, deg=deg, variant=variant):
            m = corpus.mesh("triangle")
            kw = {"lagrange_variant": getattr(basix.LagrangeVariant, variant)} if variant else {}
            V = FunctionSpace(m, basix.ufl.element(fam, "triangle", deg, **kw))
            u, v = TrialFunction(V), TestFunction(V)
            return [inner(u, v) * dx]
        out.append(corpus.Entry(f"hist_mass_{fam}{deg}{'_' + variant if variant else ''}", b, tags=("history",)))
    return out


def run(chk):
    chk.rule = ("every corpus form/expression is generated with language='numba', the module is parsed (ast) and executed in plain Python with "
                "numba.carray replaced by a bounds-checked view of exactly the declared extent, and each kernel is compared with the compiled C kernel "
                "on the same inputs (1e-11); descriptor attributes are compared with the cffi struct fields; the numba math-function table is scanned "
                "completely; declared carray extents are compared with the contract extents. distinct = form / handler name.")
    chk.trusted += ["plain-Python execution of the generated module stands in for numba.cfunc compilation (numba's own compiler is not exercised in the quick tier)"]
    chk.lean(LC.LAYOUT_MODULE, LC.TENSOR_SIZES_THEOREMS, extra_files=LC.LAYOUT_FILES)
    # descriptors: Lean transcriptions of the C and the numba form / integral / expression generators, proved to agree for all IRs;
    # each model is compared with what the real backend emits (C initialisers + cffi structs, numba class attributes)
    from .. import descr_checks as DSC
    chk.lean(DSC.DESCR_MODULE, DSC.DESCR_THEOREMS, extra_files=DSC.DESCR_FILES)
    with lean.Driver("driver_descr") as d:
        DSC.check_descriptors(chk, d, corpus.fixed() + corpus.expressions())
    chk.trusted += ["exporter FormIR/IntegralIR/ExpressionIR -> s-expression and the C-initialiser / cffi / class-attribute readers of harness/descr_checks.py",
                    "np.argsort is deterministic for equal inputs (both generators call integral_data separately)"]
    function_table(chk)
    ents = corpus.fixed() + corpus.expressions()
    carray_sizes(chk, ents)
    small = [e for e in ents if e.name in (
        "mass_interval_p2", "mass_tri_p1", "rhs_tri_p2", "functional_tri", "ext_facet_tri", "int_facet_interval", "int_facet_tri", "vertex_tri", "math_tri",
        "conditional_tri", "multi_rule", "subdomains", "tensor_constant", "derivative_drop", "quadrature_element", "geometry_tri", "prism",
        "expr_grad_tri", "expr_rank1", "expr_tensor", "expr_facet", "expr_interval", "expr_two")]
    kernels_vs_c(chk, small if chk.tier == "quick" else ents)
    # process history: modules generated after other modules in the same process (same cell, same rule, same table names)
    kernels_vs_c(chk, history_entries(), one_process=True)
    # complex scalar types: complex literals / conj / real / imag / math functions go through type-specific formatter paths
    kernels_vs_c(chk, corpus.complex_forms(), "complex128")
    if chk.tier == "thorough":
        kernels_vs_c(chk, corpus.complex_forms(), "complex64")
        kernels_vs_c(chk, small, "float32")
    if chk.tier == "thorough":
        chk.leanchecker([LC.LAYOUT_MODULE, DSC.DESCR_MODULE])
