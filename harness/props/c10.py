"""C10 — optimisation options never change the computed tensor."""
import basix
import basix.ufl
import numpy as np
import ufl
from ufl import Coefficient, FunctionSpace, Mesh, SpatialCoordinate, TestFunction, TrialFunction, dx, grad, inner

import ffcx.compiler
import ffcx.options

from .. import cjit, corpus, ir_checks, kernels, lean, numeric, pipeline

_GD = {"quadrilateral": 2, "hexahedron": 3}


def tp_space(cell, deg, shape=None, variant="gll_warped"):
    ct = getattr(basix.CellType, cell)
    el = basix.ufl.wrap_element(basix.create_tp_element(basix.ElementFamily.P, ct, deg, getattr(basix.LagrangeVariant, variant)))
    if shape is not None:
        el = basix.ufl.blocked_element(el, shape=shape)
    cel = basix.ufl.blocked_element(
        basix.ufl.wrap_element(basix.create_tp_element(basix.ElementFamily.P, ct, 1, basix.LagrangeVariant.gll_warped)),
        shape=(_GD[cell],))
    m = Mesh(cel)
    return m, FunctionSpace(m, el)


def tp_entries():
    out = []
    for cell, deg in [("quadrilateral", 1), ("quadrilateral", 2), ("quadrilateral", 3), ("hexahedron", 1), ("hexahedron", 2)]:
        def lap(cell=cell, deg=deg):
            m, V = tp_space(cell, deg)
            u, v = TrialFunction(V), TestFunction(V)
            return [inner(grad(u), grad(v)) * dx]

        def coef(cell=cell, deg=deg):
            m, V = tp_space(cell, deg)
            u, v = TrialFunction(V), TestFunction(V)
            f = Coefficient(V)
            x = SpatialCoordinate(m)
            return [(1 + f * f) * inner(u, v) * dx + x[0] * f * inner(grad(u), grad(v)) * dx(degree=deg + 1)]

        def rhs(cell=cell, deg=deg):
            m, V = tp_space(cell, deg)
            v = TestFunction(V)
            f = Coefficient(V)
            return [f * f * v * dx]
        def variants(cell=cell, deg=deg):
            # two tensor-product elements of equal degree but different Lagrange variants in one kernel
            m, V = tp_space(cell, deg)
            W = FunctionSpace(m, tp_space(cell, deg, variant="equispaced")[1].ufl_element())
            u, v = TrialFunction(V), TestFunction(V)
            f = Coefficient(W)
            return [f * inner(u, v) * dx, f * v * dx]
        if deg == 3:
            out.append(corpus.Entry(f"tp_variants_{cell}_{deg}", variants, tags=("tp",)))
        out.append(corpus.Entry(f"tp_laplace_{cell}_{deg}", lap, tags=("tp",)))
        out.append(corpus.Entry(f"tp_coef_{cell}_{deg}", coef, tags=("tp",)))
        out.append(corpus.Entry(f"tp_rhs_{cell}_{deg}", rhs, tags=("tp",)))
    return out


def diag_entries():
    def p2():
        m, V = corpus.space("triangle", "P", 2)
        u, v = TrialFunction(V), TestFunction(V)
        f = Coefficient(V)
        return [f * inner(grad(u), grad(v)) * dx + inner(u, v) * dx]

    def vec():
        m, V = corpus.space("triangle", "P", 1, shape=(2,))
        u, v = TrialFunction(V), TestFunction(V)
        return [inner(grad(u), grad(v)) * dx + ufl.div(u) * ufl.div(v) * dx]

    def mixed():
        m = corpus.mesh("triangle")
        P2 = basix.ufl.element("P", "triangle", 2, shape=(2,))
        P1 = basix.ufl.element("P", "triangle", 1)
        W = FunctionSpace(m, basix.ufl.mixed_element([P2, P1]))
        (u, p) = ufl.TrialFunctions(W)
        (v, q) = ufl.TestFunctions(W)
        return [inner(grad(u), grad(v)) * dx + p * q * dx + ufl.div(v) * p * dx + q * ufl.div(u) * dx]

    def facet():
        m, V = corpus.space("tetrahedron", "P", 1)
        u, v = TrialFunction(V), TestFunction(V)
        return [inner(u, v) * ufl.ds + inner(grad(u), grad(v)) * dx]
    def interior():
        m, V = corpus.space("triangle", "DP", 1)
        u, v = TrialFunction(V), TestFunction(V)
        return [inner(ufl.jump(u), ufl.jump(v)) * ufl.dS + inner(ufl.avg(u), ufl.avg(v)) * ufl.dS]

    def mixed_divdiv():
        m = corpus.mesh("triangle")
        W = FunctionSpace(m, basix.ufl.mixed_element([basix.ufl.element("P", "triangle", 2, shape=(2,)), basix.ufl.element("P", "triangle", 1)]))
        (u, p) = ufl.TrialFunctions(W)
        (v, q) = ufl.TestFunctions(W)
        return [ufl.div(u) * ufl.div(v) * dx + p * q * dx]

    def functional():
        m, V = corpus.space("triangle", "P", 1)
        f = Coefficient(V)
        return [f * f * dx]
    return [corpus.Entry("diag_p2", p2), corpus.Entry("diag_vec", vec), corpus.Entry("diag_mixed", mixed), corpus.Entry("diag_facet", facet),
            corpus.Entry("diag_interior_facet", interior), corpus.Entry("diag_mixed_divdiv", mixed_divdiv), corpus.Entry("diag_functional", functional)]


def _pair(e, optA, optB, seed, diag=False):
    """Kernels of one entry under two option sets on the same data."""
    rng = np.random.default_rng(seed)
    objsA, casesA, compA, modA = numeric.build(e, optA)
    objsB, casesB, compB, modB = numeric.build(e, optB)
    out = {"name": e.name, "n": 0, "maxrel": 0.0, "bad": []}
    for cA, cB in zip(casesA, casesB):
        for ent in numeric.entity_choices(cA, rng, False)[:2]:
            inp = numeric.make_data(cA, rng, entity=ent, perm=[0] * cA.sizes["quadrature_permutation"])
            A = numeric.call_c(modA, kernels.compiled_kernel(compA, cA), cA, inp, "float64")
            B = numeric.call_c(modB, kernels.compiled_kernel(compB, cB), cB, inp, "float64")
            if diag:
                n = cB.sizes["A"]
                A = A.reshape(n, n).diagonal()
            scale = max(1.0, float(np.abs(A).max()))
            rel = float(np.abs(A - B).max() / scale)
            out["n"] += 1
            out["maxrel"] = max(out["maxrel"], rel)
            out.setdefault("scale", scale)
            out["rels"] = out.get("rels", []) + [rel]
            if not np.all(np.isfinite(B)):
                out["bad"].append({"kernel": cA.name, "what": "non-finite"})
    return out


def shared_cache(chk):
    """Option pairs requested through ONE JIT cache directory, in both orders: what comes back for the second
    request must still be the kernel of ITS options (rank / tensor), not the cached module of the first."""
    dg = {e.name: e for e in diag_entries()}
    tp = {e.name: e for e in tp_entries()}
    plans = [(dg["diag_p2"], {}, {"part": "diagonal"}), (tp["tp_coef_quadrilateral_2"], {}, {"sum_factorization": True}),
             (dg["diag_p2"], {}, {"scalar_type": "float32"}), (dg["diag_p2"], {"table_rtol": 1e-1, "table_atol": 1e-1}, {})]

    def work(i):
        e, oa, ob = plans[i // 2]
        order = [oa, ob] if i % 2 == 0 else [ob, oa]
        out = {"name": e.name, "order": order, "bad": []}
        with pipeline.TmpCache() as cd:
            for o in order:
                objs = e.build()
                full = pipeline.default_options(**o)
                st = str(o.get("scalar_type", "float64"))
                cases, _, _ = kernels.cases_for_forms(e.name, objs, full)
                comp, mod, _ = pipeline.jit_forms(objs, cd, o)
                oras = numeric.oracles_for(e, objs, diagonal=o.get("part") == "diagonal")
                want_rank = 1 if o.get("part") == "diagonal" else len(objs[0].arguments())
                if comp[0].rank != want_rank:
                    out["bad"].append({"options": o, "what": f"form descriptor rank {comp[0].rank}, expected {want_rank}"})
                    continue
                rng = np.random.default_rng(5)
                for c in cases:
                    inp = numeric.make_data(c, rng, st)
                    A = numeric.call_c(mod, kernels.compiled_kernel(comp, c), c, inp, st)
                    B = numeric.oracle_value(oras, c, inp, st)
                    rel = float(np.abs(A - B).max() / max(1.0, float(np.abs(B).max())))
                    tol = 1e-10 if st == "float64" and "table_rtol" not in o else (2e-4 if "table_rtol" not in o else 10.0)
                    if not rel <= tol:
                        out["bad"].append({"options": o, "what": f"kernel differs from the oracle (rel {rel})", "kernel": c.name})
        return out
    res = cjit.parallel_map(work, list(range(2 * len(plans))))
    for i, (st, r) in sorted(res.items()):
        if st != "ok":
            chk.disagree("shared-cache option sequence failed", {"plan": i, "detail": str(r)[:300]})
            continue
        chk.case("shared_cache_sequence", f"{r['name']}:{r['order']}")
        for b in r["bad"]:
            chk.violation(f"c10:shared-cache:{r['name']}:{sorted(b['options'])}",
                          f"after requesting {r['order'][0]} the same cache directory answers {b['options']} wrongly: {b['what']}",
                          {"entry": r["name"], "sequence": r["order"], **b})


def run(chk):
    chk.rule = ("sum_factorization on/off on tensor-product elements (quadrilateral deg 1-3, hexahedron deg 1-2; with coefficients, x-dependent "
                "weights, inexact quadrature) compared with each other (1e-11) and with the oracle; part='diagonal' vs the diagonal of the full "
                "tensor (plain, blocked, mixed, facet); table tolerance sweeps bounded by the tolerances; inapplicable options must not change "
                "the generated text. distinct = form × option pair.")
    chk.trusted += ["harness/oracle.py", "tolerance clause: the bound checked is |ΔA| ≤ 64·(rtol+atol)·max|A| (a first-order bound for multilinear forms with ≤ 64 table factors per entry; floating point)"]
    chk.lean("FfcxProofs.C10", ["Ffcx.Quad.sum_factorization_identity", "Ffcx.Quad.sum_factorization_identity3", "Ffcx.Quad.diagonal_of_outer",
                                "Ffcx.Quad.clamp_bound_real", "Ffcx.Quad.flat_pair_bijective"])
    chk.lean(ir_checks.IR_MODULE, ir_checks.TABLE_THEOREMS, extra_files=ir_checks.IR_FILES)
    # table classification / compression / access vs the Lean model under swept tolerances
    with lean.Driver("driver_ir") as d:
        t_ents = [e for e in corpus.fixed() if e.name in ("laplace_coef_tri_p2", "stokes_mixed", "int_facet_tet", "nonaffine_quad", "n1curl_tet", "prism")]
        for rt, at in ((1e-6, 1e-9), (1e-3, 1e-5), (0.0, 0.0), (1e-12, 1e-14)):
            ir_checks.check_tables(chk, d, t_ents, rt, at)
    tp = tp_entries()
    if chk.tier == "quick":
        tp = [e for e in tp if e.name in ("tp_laplace_quadrilateral_2", "tp_coef_quadrilateral_2", "tp_rhs_quadrilateral_3",
                                         "tp_coef_hexahedron_1", "tp_laplace_hexahedron_2", "tp_rhs_hexahedron_2", "tp_coef_quadrilateral_1",
                                         "tp_variants_quadrilateral_3")]
    dg = diag_entries()
    tol_ents = [e for e in corpus.fixed() if e.name in ("laplace_coef_tri_p2", "stokes_mixed", "ext_facet_tet", "nonaffine_quad", "n1curl_tet")]
    tols = [{"table_rtol": 1e-4, "table_atol": 1e-6}, {"table_rtol": 0.0, "table_atol": 0.0}, {"table_rtol": 1e-12, "table_atol": 1e-14}]
    jobs = [("sf", i) for i in range(len(tp))] + [("sfo", i) for i in range(len(tp))] + [("dg", i) for i in range(len(dg))] \
        + [("tol", i, j) for i in range(len(tol_ents)) for j in range(len(tols))]

    def work(job):
        if job[0] == "sf":
            return _pair(tp[job[1]], {}, {"sum_factorization": True}, chk.seed * 7 + job[1])
        if job[0] == "sfo":
            return numeric.compare_entry(tp[job[1]], {"sum_factorization": True}, seed=chk.seed * 11 + job[1])
        if job[0] == "dg":
            return _pair(dg[job[1]], {}, {"part": "diagonal"}, chk.seed * 13 + job[1], diag=True)
        return _pair(tol_ents[job[1]], {}, tols[job[2]], chk.seed * 17 + job[1])
    res = cjit.parallel_map(work, jobs)
    for job, (st, r) in sorted(res.items()):
        if st != "ok":
            chk.notes.setdefault("errors", []).append(f"{job}: {st}: {str(r)[:300]}")
            chk.disagree("option pair run failed", {"job": list(job), "detail": str(r)[:300]})
            continue
        if job[0] == "sfo":
            if "error" in r:
                chk.notes.setdefault("errors", []).append(f"{job}: {r['error'][:200]}")
                chk.disagree("sum-factorised form does not compile", {"entry": r["name"], "error": r["error"][:300]})
                continue
            chk.case("sumfact_vs_oracle", r["name"], n=max(1, r["compared"]))
            for b in r["bad"]:
                chk.violation(f"c10:sumfact-oracle:{r['name']}", "sum-factorised kernel differs from the oracle", {"entry": r["name"], **b})
            continue
        chk.programs += r["n"]
        kind = {"sf": "sum_factorization", "dg": "diagonal", "tol": "tolerances"}[job[0]]
        chk.case(kind, f"{r['name']}:{job[2] if len(job) > 2 else ''}", n=max(1, r["n"]),
                 sample={"entry": r["name"], "options": kind, "max_rel_diff": r["maxrel"]} if len(chk.samples) < 9 else None)
        if job[0] in ("sf", "dg"):
            # sum factorisation: a table entry just below table_atol (1e-9) is clamped to zero in the full table but not in the
            # product of its 1D factor tables, so the two kernels may legitimately differ by a few table_atol
            if not r["maxrel"] <= (4e-9 if job[0] == "sf" else 1e-11):
                chk.violation(f"c10:{kind}:{r['name']}", f"{kind}: tensor differs from the reference compilation (rel {r['maxrel']})", r)
        else:
            t = tols[job[2]]
            bound = 64 * (max(t["table_rtol"], 1e-6) + max(t["table_atol"], 1e-9)) + 1e-13
            if not r["maxrel"] <= bound:
                chk.violation(f"c10:tolerance:{r['name']}", f"changing table tolerances to {t} changes the tensor by rel {r['maxrel']} > {bound}", {**r, "tolerances": t})
    shared_cache(chk)
    # closed forms of what diagonal and sum-factorised groups add to A (genBlock_diagonal_spec, diagonal_of_full,
    # genBlock_tensor_spec, tensor_equals_full): transcription vs the real generator, side conditions per real group,
    # TPTables (full table = product of the 1D factor tables) checked numerically on every real sum-factorised group
    from .. import codegen_checks
    chk.lean(codegen_checks.C10_MODULE, codegen_checks.C10_THEOREMS, extra_files=codegen_checks.C10_FILES)
    with lean.Driver("driver_codegen") as d:
        codegen_checks.check_blocks(chk, d, codegen_checks.extra_entries())
        # part='full' and part='diagonal' compilations of the same forms paired: the diagonal groups are the coincident sublist,
        # every dropped block has disjoint block maps (hypotheses of diagonal_of_full_filtered)
        codegen_checks.check_diag_pairs(chk, d)

    # options that do not apply have no effect on the generated text
    def code(objs, **kw):
        """generated C without comment lines (the file header echoes the option values)"""
        src = ffcx.compiler.compile_ufl_objects(objs, options=pipeline.default_options(**kw), namespace="x")[0][1]
        return "\n".join(l for l in src.splitlines() if not l.lstrip().startswith("//"))
    for e in [x for x in corpus.fixed() if x.name in ("laplace_coef_tri_p2", "ext_facet_tet", "int_facet_tri", "vertex_tri", "rhs_tri_p2")]:
        objs = e.build()
        a = code(objs)
        b = code(e.build(), sum_factorization=True)
        chk.case("inapplicable_sum_factorization", e.name)
        if a != b:
            la, lb = a.splitlines(), b.splitlines()
            k = next((i for i, (p, q) in enumerate(zip(la, lb)) if p != q), min(len(la), len(lb)))
            chk.violation(f"c10:inapplicable:sum_factorization:{e.name}", "sum_factorization=True changes the code of a simplex / facet form",
                          {"entry": e.name, "first_diff": [la[k:k + 1], lb[k:k + 1]]})
        if e.name in ("rhs_tri_p2", "vertex_tri"):
            c = code(e.build(), part="diagonal")
            chk.case("inapplicable_diagonal", e.name)
            if a != c:
                chk.violation(f"c10:inapplicable:diagonal:{e.name}", "part='diagonal' changes the code of a linear form", {"entry": e.name})
    if chk.tier == "thorough":
        chk.leanchecker(["FfcxProofs.C10"])
