"""C17 — AST simplifications and optimiser passes preserve the computed values."""
import itertools
import random
from fractions import Fraction

import numpy as np

import ffcx.codegeneration.integral_generator as ig_mod
import ffcx.codegeneration.expression_generator as eg_mod
import ffcx.codegeneration.lnodes as L

from .. import corpus, export, kernels, lean, lnodes_eval, pipeline

THEOREMS = [
    "Ffcx.LNodes.neg_sound", "Ffcx.LNodes.add_sound", "Ffcx.LNodes.radd_sound",
    "Ffcx.LNodes.sub_sound", "Ffcx.LNodes.rsub_sound", "Ffcx.LNodes.mul_sound",
    "Ffcx.LNodes.rmul_sound", "Ffcx.LNodes.div_sound", "Ffcx.LNodes.rdiv_sound",
    "Ffcx.LNodes.float_product_sound", "Ffcx.LNodes.ratExtra_lawful",
    "Ffcx.LNodes.global_index_value",
    "Ffcx.LNodes.prod_perm_sound", "Ffcx.LNodes.licm_factor_sound", "Ffcx.LNodes.execL_append",
    "Ffcx.LNodes.fuse_adjacent_sections_partial", "Ffcx.LNodes.fuse_sections_hop_sound", "Ffcx.LNodes.exec_commute",
]


def operands(rng):
    """Operand pool: every expression class × the literal values that trigger folding."""
    x = L.Symbol("x", L.DataType.REAL)
    y = L.Symbol("y", L.DataType.SCALAR)
    i = L.Symbol("i", L.DataType.INT)
    arr = L.Symbol("T", L.DataType.REAL)
    lits = [L.LiteralInt(v) for v in (0, 1, -1, 2, -3)]
    lits += [L.LiteralFloat(v) for v in (0.0, 1.0, -1.0, 2.5, -2.5, -0.0, 1e-3)]
    # values NEAR the folding triggers: a tolerance in is_zero/is_one/is_negative_one would fold them
    lits += [L.LiteralFloat(v) for v in (1e-9, -1e-12, 5e-324, 1.0 + 2.0**-40, 1.0 - 2.0**-52, -1.0 - 1e-6, 1.0 + 1e-6)]
    lits += [L.LiteralFloat(complex(1e-10, 0)), L.LiteralFloat(complex(1, 1e-9)), L.LiteralFloat(complex(0, 1e-12))]
    lits += [L.LiteralFloat(complex(0, 0)), L.LiteralFloat(complex(1, 0)), L.LiteralFloat(complex(-1, 0))]
    comp = [
        x, y, i, L.Neg(x), L.Neg(L.LiteralFloat(2.0)), L.Add(x, y), L.Sub(x, L.LiteralFloat(1.0)), L.Mul(x, y),
        L.Div(x, L.LiteralFloat(2.0)), L.Sum([x, y, L.LiteralFloat(3.0)]), L.Product([x, y]),
        arr[i], L.MathFunction("sqrt", [x]), L.Conditional(L.LT(x, y), x, y),
        L.Neg(L.Neg(x)), L.Neg(L.Add(x, y)),
    ]
    return lits, comp


def pynums():
    return [0, 1, -1, 2, 0.0, 1.0, -1.0, 2.5, -0.0, 1e-9, 1.0 + 1e-6, -1.0 + 1e-7]


def kind(e):
    if isinstance(e, (int, float)):
        return f"py{type(e).__name__}:{e}"
    if isinstance(e, (L.LiteralInt, L.LiteralFloat)):
        return f"{type(e).__name__}:{e.value}"
    return type(e).__name__


def to_lexpr_text(v):
    if isinstance(v, L.LExpr):
        return export.expr(v)
    return export.lit(v)


def fold_correspondence(chk, d):
    rng = random.Random(chk.seed)
    lits, comp = operands(rng)
    pool = lits + comp
    env = {"x": Fraction(3, 4), "y": Fraction(-5, 8), "i": Fraction(2)}
    ops = {
        "add": lambda a, b: a + b, "sub": lambda a, b: a - b,
        "mul": lambda a, b: a * b, "div": lambda a, b: a / b,
    }
    val = {
        "add": lambda a, b: a + b, "sub": lambda a, b: a - b,
        "mul": lambda a, b: a * b, "div": lambda a, b: a / b,
    }
    pairs = [(a, b) for a in pool for b in pool]
    pairs += [(a, n) for a in pool for n in pynums()]
    pairs += [(n, a) for a in pool for n in pynums()]
    for a, b in pairs:
        for op, f in ops.items():
            # which dunder runs?  LExpr op anything -> __op__ ; number op LExpr -> __rop__
            if isinstance(a, L.LExpr):
                lean_op, self_, other = op, a, b
            else:
                lean_op, self_, other = "r" + op, b, a
            try:
                real = f(a, b)
                real_txt = "(ok " + export.expr(real) + ")"
            except ValueError:
                real, real_txt = None, "(raise ValueError)"
            req = f"(simp {lean_op} {to_lexpr_text(self_)} {to_lexpr_text(other)})"
            model_txt = d.ask_raw(req)
            nontriv = f"{op}:{kind(a)}:{kind(b)}" if (real is None or type(real) not in (L.Add, L.Sub, L.Mul, L.Div)) else None
            chk.case("fold", nontriv, sample={"op": op, "a": to_lexpr_text(a), "b": to_lexpr_text(b), "result": real_txt} if nontriv and len(chk.samples) < 4 else None)
            if model_txt != real_txt:
                chk.disagree("operator folding: lnodes.LExpr dunder vs Lean Simplify",
                             {"request": req, "impl": real_txt, "model": model_txt})
            # property's own oracle, on the real result: value preserved
            try:
                va = lnodes_eval.ev(L.as_lexpr(a), env)
                vb = lnodes_eval.ev(L.as_lexpr(b), env)
            except lnodes_eval.EvalError:
                continue
            if real is None:
                if not (op == "div" and vb == 0 and isinstance(L.as_lexpr(b), (L.LiteralInt, L.LiteralFloat))):
                    chk.violation(f"fold:{op}:raises:{kind(a)}:{kind(b)}", "operator raised on a non-zero divisor",
                                  {"op": op, "a": to_lexpr_text(a), "b": to_lexpr_text(b)})
                continue
            if op == "div" and vb == 0:
                continue
            expect = val[op](va, vb)
            got = lnodes_eval.ev(real, env)
            if got != expect:
                chk.violation(f"fold:{op}:{kind(a)}:{kind(b)}",
                              f"folded {op} changes the value: {got} != {expect}",
                              {"op": op, "a": to_lexpr_text(a), "b": to_lexpr_text(b), "result": real_txt})
    # unary minus
    for a in pool:
        real = -a
        model_txt = d.ask_raw(f"(simp neg {export.expr(a)})")
        chk.case("fold", f"neg:{kind(a)}")
        if model_txt != "(ok " + export.expr(real) + ")":
            chk.disagree("__neg__ vs Lean lNeg", {"a": export.expr(a), "impl": export.expr(real), "model": model_txt})
        try:
            if lnodes_eval.ev(real, env) != -lnodes_eval.ev(a, env):
                chk.violation(f"fold:neg:{kind(a)}", "__neg__ changes the value", {"a": export.expr(a)})
        except lnodes_eval.EvalError:
            pass
    # float_product
    for k in range(60):
        fs = [rng.choice(pool) for _ in range(rng.randrange(0, 4))]
        real = L.float_product(fs)
        model_txt = d.ask_raw("(floatprod " + " ".join(export.expr(f) for f in fs) + ")")
        chk.case("float_product", "n=%d ones=%d" % (len(fs), sum(L.is_one_lexpr(f) for f in fs)))
        if model_txt != "(ok " + export.expr(real) + ")":
            chk.disagree("float_product vs Lean floatProduct", {"fs": [export.expr(f) for f in fs], "model": model_txt})
        try:
            p = Fraction(1)
            for f in fs:
                p *= lnodes_eval.ev(f, env)
            if lnodes_eval.ev(real, env) != p:
                chk.violation("fold:float_product", "float_product changes the value", {"fs": [export.expr(f) for f in fs]})
        except lnodes_eval.EvalError:
            pass
    # MultiIndex.global_index
    syms = [L.Symbol(n, L.DataType.INT) for n in ("i", "j", "k", "l")]
    for k in range(80):
        r = rng.randrange(0, 5)
        sizes = [rng.choice([1, 1, 2, 3, 5, 7]) for _ in range(r)]
        ss = [rng.choice(syms + [L.LiteralInt(0), L.LiteralInt(1), 0, 2]) for _ in range(r)]
        mi = L.MultiIndex(list(ss), list(sizes))
        stxt = " ".join(export.expr(s) if isinstance(s, L.LExpr) else f"(py {int(s)})" for s in ss)
        model_txt = d.ask_raw(f"(miglobal ({stxt}) ({' '.join(map(str, sizes))}))")
        chk.case("global_index", f"rank={r}:ones={sizes.count(1)}")
        if model_txt != "(ok " + export.expr(mi.global_index) + ")":
            chk.disagree("MultiIndex.global_index vs Lean miGlobal",
                         {"syms": stxt, "sizes": sizes, "impl": export.expr(mi.global_index), "model": model_txt})
        ienv = {"i": Fraction(1), "j": Fraction(2), "k": Fraction(0), "l": Fraction(4)}
        want = Fraction(0)
        for n, s in enumerate(ss):
            stride = 1
            for z in sizes[n + 1:]:
                stride *= z
            want += stride * lnodes_eval.ev(L.as_lexpr(s), ienv)
        if lnodes_eval.ev(mi.global_index, ienv) != want:
            chk.violation("fold:global_index", "global_index is not the row-major flattening",
                          {"syms": stxt, "sizes": sizes})


class _NoOpt:
    """Context: generators run with `optimize` replaced by the identity."""

    def __enter__(self):
        self.saved = (ig_mod.optimize, eg_mod.optimize if hasattr(eg_mod, "optimize") else None)
        ig_mod.optimize = lambda code, rule: code
        if self.saved[1] is not None:
            eg_mod.optimize = lambda code, rule: code

    def __exit__(self, *a):
        ig_mod.optimize = self.saved[0]
        if self.saved[1] is not None:
            eg_mod.optimize = self.saved[1]


def optimiser_semantic(chk, d, entries, nin):
    """exec(optimised kernel) == exec(unoptimised kernel) exactly over Rat, same inputs."""
    rng = np.random.default_rng(chk.seed)
    for e in entries:
        try:
            cases, _, _ = kernels.cases_for_entry(e)
            with _NoOpt():
                cases0, _, _ = kernels.cases_for_entry(e)
        except Exception as ex:  # unsupported corpus entry on this tree: not C17's business
            chk.notes.setdefault("skipped", []).append(f"{e.name}: {type(ex).__name__}")
            continue
        for c, c0 in zip(cases, cases0):
            changed = c.ast_sexp != c0.ast_sexp
            chk.programs += 1
            if not changed:
                chk.case("optimiser_unchanged", None)
                continue  # identical ASTs: nothing to compare
            # exact rational execution blows up on large kernels (thousands of digits after a few hundred multiplications of
            # 53-bit table values): those kernels are covered by the structural optimiser correspondence + optimizeCert only
            if len(c0.ast_sexp) > (400_000 if chk.tier == "thorough" else 3_000_000):
                chk.notes.setdefault("exact_exec_skipped_large", []).append(c.name)
                continue
            for k in range(nin):
                inp = kernels.random_inputs(c, rng, A0="random")
                st1, A1 = kernels.lean_exec(d, c, inp)
                st0, A0 = kernels.lean_exec(d, c0, inp)
                chk.case("optimiser", f"{c.name}" if changed else None,
                         sample={"kernel": c.name, "ast_changed": changed} if changed and len(chk.samples) < 8 else None)
                if st1 != st0 or (st1 == "ok" and A1 != A0):
                    bad = None
                    if st1 == "ok" and st0 == "ok":
                        bad = [i for i, (p, q) in enumerate(zip(A1, A0)) if p != q][:5]
                    chk.violation(f"optimiser:{e.name}",
                                  "optimised and unoptimised kernel bodies compute different A (exact rational execution of the real ASTs)",
                                  {"kernel": c.name, "status": [st1, st0], "differing_entries": bad,
                                   "inputs": {k2: [str(Fraction(float(v))) for v in np.asarray(v2).ravel()[:64]] for k2, v2 in inp.items()}})
                    break


def hop_certificates(chk, d, entries):
    """Side condition of fuse_sections_hop_sound on the REAL inputs of fuse_sections: every statement of a
    later same-named section must be footprint-disjoint from everything it hops over."""
    import ffcx.codegeneration.optimizer as opt
    captured = []
    real = opt.fuse_sections

    def spy(code, name):
        idx = [i for i, s in enumerate(code) if isinstance(s, L.Section) and s.name == name]
        for k in idx[1:]:
            between = [c for i, c in enumerate(code) if idx[0] < i < k and i not in idx]
            if between:
                try:
                    captured.append((name, export.stmt(code[k]), [export.stmt(b) for b in between]))
                except export.ExportError:
                    pass
        return real(code, name)
    opt.fuse_sections = spy
    try:
        for e in entries:
            try:
                kernels.cases_for_entry(e)
            except Exception:
                continue
    finally:
        opt.fuse_sections = real
    for name, t, ps in captured:
        r = d.ask(f"(hopmod {t} {' '.join(ps)})")
        chk.case("hop_certificate", f"{name}:{hash((t, tuple(ps))) & 0xffffff:x}",
                 sample={"section": name, "hops_over": len(ps), "reply": r} if len(chk.samples) < 10 else None)
        if r[:2] != ["ok", "true"]:
            chk.disagree("fuse_sections moves a section over statements it is not footprint-disjoint from (modulo loop indices)",
                         {"section": name, "moved": t[:300], "over": [p[:200] for p in ps][:3], "reply": r})
    chk.notes["hop_certificates"] = len(captured)


def run(chk):
    chk.rule = ("folding: all ordered pairs from a pool of operands (every LExpr class, literal values 0,±1,… int/float/complex) "
                "and Python numbers on either side × {+,-,*,/}; non-trivial = the real result is not the plain binary node "
                "(a folding branch fired), keyed by (op, operand kinds). optimiser: every corpus kernel executed exactly "
                "(Rat) with and without optimize(); non-trivial = optimiser changed the AST. Lean model of optimizer.py vs the real optimize() "
                "on every captured part list and on seeded synthetic ones (exact structure); optimizeCert evaluated per part list.")
    chk.trusted += ["harness/lnodes_eval.py (independent exact evaluator used as the property's oracle for folding)",
                    "IEEE NaN/Inf behaviour of 0*x folding is outside the real-number theorems",
                    "the semantics is typeless over a field: integers are embedded in R and int/int division is field division, so folds that change the "
                    "dtype of a literal (1.0*LiteralInt(3) -> LiteralInt 3) are sound only because C integer division is outside the semantics"]
    chk.lean("FfcxProofs.C17", THEOREMS)
    with lean.Driver("driver") as d:
        fold_correspondence(chk, d)
        ents = corpus.fixed() + corpus.expressions()
        if chk.tier == "thorough":
            ents += corpus.demos() + corpus.generated(chk.seed, 60)
            nin = 3
        else:
            ents += corpus.generated(chk.seed, 6)
            nin = 1
        optimiser_semantic(chk, d, ents, nin)
        hop_certificates(chk, d, ents)
        # Lean transcription of optimizer.py: structural correspondence with the real optimiser on every part list,
        # certificates of fuse_sections_sound / fuse_loops_sound / licm_sound / optimize_sound per kernel
        from .. import opt_checks
        from .c10 import tp_entries
        chk.lean(opt_checks.OPT_MODULE, opt_checks.OPT_THEOREMS, extra_files=opt_checks.OPT_FILES)
        oents = ents + [t for t in tp_entries() if t.name.endswith(("_1", "_2"))]
        opt_checks.check_optimizer(chk, d, oents)
        opt_checks.check_certificates(chk, d, oents)
        opt_checks.check_latent_defects(chk, d)
    if chk.tier == "thorough":
        chk.leanchecker(["FfcxProofs.C17", "FfcxProofs.C17Opt"])
