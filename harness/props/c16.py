"""C16 — formatted source means what the AST says (the "formatter cluster").

(a) translator: regenerate Generated/Precedence.lean; Lean obligations of FfcxProofs.C16
(b) correspondence of the Lean transcriptions of the two formatters with the real ones
    (exact text), of the number-printing model with Python, of `readNum`/`round64` with Python
(c) failing-input search on the REAL formatters with independent parsers: pycparser for the C
    text, Python's `ast` for the numba text; the trees are compared structurally with the LNodes
    tree (operator nesting, operands, subscripts, loop bounds) and by exact evaluation on seeded
    operands; literals are read back with `float()` and measured in ulps; the Lean lexer+parser is
    run as an executable round-trip checker on every generated tree.
"""
import ast as pyast
import math
import os
import random
import re
import shutil
import subprocess
import tempfile
import time
from fractions import Fraction

import numpy as np

import ffcx.codegeneration.lnodes as L
from ffcx.codegeneration.C.formatter import Formatter as CFormatter
from ffcx.codegeneration.C.formatter import math_table
from ffcx.codegeneration.numba.formatter import Formatter as NFormatter

from .. import corpus, export, extract_prec, kernels, lean, lnodes_eval, pipeline
from ..sexp import q

SCALARS = ["float64", "float32", "complex128", "complex64"]
REAL_OF = {"float64": "float64", "float32": "float32", "complex128": "float64", "complex64": "float32"}

THEOREMS = [
    # finite tables, regenerated from /repo on every run
    "Ffcx.LNodes.Fmt.prec_table_agrees",
    "Ffcx.LNodes.Fmt.multiindex_prec_agrees",
    "Ffcx.LNodes.Fmt.math_names_injective",
    "Ffcx.LNodes.Fmt.local_faithful",
    "Ffcx.LNodes.Fmt.local_faithful_py",
    # no token fusion (full)
    "Ffcx.LNodes.Fmt.lex_render",
    "Ffcx.LNodes.Fmt.separated_pieces",
    "Ffcx.LNodes.Fmt.no_token_fusion",
    # C round trip (expressions: full)
    "Ffcx.LNodes.Fmt.parse_mono_all",
    "Ffcx.LNodes.Fmt.rt_all",
    "Ffcx.LNodes.Fmt.parse_tokens_C",
    "Ffcx.LNodes.Fmt.eraseC_norm",
    "Ffcx.LNodes.Fmt.roundtrip_C",
    "Ffcx.LNodes.Fmt.roundtrip_C_WT",
    "Ffcx.LNodes.Fmt.wfC_not_raises",
    "Ffcx.LNodes.Fmt.format_C_total",
    "Ffcx.LNodes.Fmt.literal_texts_are_tokens",
    "Ffcx.LNodes.Fmt.norm_eval",
    # C statements (full): text -> tokens -> statement tree
    "Ffcx.LNodes.Fmt.stmt_lex",
    "Ffcx.LNodes.Fmt.parse_tokens_stmt",
    "Ffcx.LNodes.Fmt.wfS_not_raises",
    "Ffcx.LNodes.Fmt.roundtrip_stmt_C",
    "Ffcx.LNodes.Fmt.roundtrip_stmt_C_counterexample",
    # numba statements (full): text -> lines -> tokens with NEWLINE/INDENT/DEDENT -> statement tree
    "Ffcx.LNodes.Fmt.lex_render_nl",
    "Ffcx.LNodes.Fmt.pyLines_logical",
    "Ffcx.LNodes.Fmt.pyLines_enter",
    "Ffcx.LNodes.Fmt.pyLines_leave",
    "Ffcx.LNodes.Fmt.stmt_lex_py",
    "Ffcx.LNodes.Fmt.parse_tokens_stmt_py",
    "Ffcx.LNodes.Fmt.roundtrip_stmt_Py",
    "Ffcx.LNodes.Fmt.roundtrip_stmt_Py_counterexample",
    "Ffcx.LNodes.Fmt.roundtrip_stmt",
    # numba expressions (full)
    "Ffcx.LNodes.Fmt.lex_render_py",
    "Ffcx.LNodes.Fmt.pySeparated_pieces",
    "Ffcx.LNodes.Fmt.no_token_fusion_py",
    "Ffcx.LNodes.Fmt.pyMono_all",
    "Ffcx.LNodes.Fmt.rtp_all",
    "Ffcx.LNodes.Fmt.parse_tokens_Py",
    "Ffcx.LNodes.Fmt.roundtrip_Py",
    "Ffcx.LNodes.Fmt.roundtrip_Py_norm",
    "Ffcx.LNodes.Fmt.literal_texts_are_tokens_py",
    "Ffcx.LNodes.Fmt.roundtrip_Py_counterexample",
    "Ffcx.LNodes.Fmt.roundtrip_Py_comparisons",
    # literals (full at the value level)
    "Ffcx.LNodes.Fmt.literal_readback_exact",
    "Ffcx.LNodes.Fmt.literal_1ulp",
    "Ffcx.LNodes.Fmt.literal_exact_17",
]
HELPER_FILES = ["FfcxProofs/Lemmas/" + f for f in (
    "FormatTables.lean", "FormatParse.lean", "FormatRT.lean", "FormatRTCases.lean", "FormatRTAll.lean",
    "FormatLex.lean", "FormatSep.lean", "FormatSepExpr.lean", "FormatNorm.lean", "FormatNum.lean",
    "FormatLit.lean", "FormatStmt.lean", "FormatPy.lean", "FormatEval.lean", "FormatShape.lean",
    "FormatStmtLex.lean", "FormatStmtParse.lean", "FormatStmtText.lean", "FormatRaise.lean",
    "FormatPyParse.lean", "FormatPyRT.lean", "FormatPyRTCases.lean", "FormatPyRTAll.lean",
    "FormatPyLex.lean", "FormatPySep.lean", "FormatPySepExpr.lean", "FormatPyShape.lean", "FormatPyNorm.lean",
    "FormatPyStmtParse.lean", "FormatPyLines.lean", "FormatPyStmtLx.lean", "FormatPyStmtText.lean")]

REAL, SCALAR, INT, BOOL = L.DataType.REAL, L.DataType.SCALAR, L.DataType.INT, L.DataType.BOOL


# ======================================================================================
# tree generators
# ======================================================================================
def _syms():
    return dict(
        x=L.Symbol("x", REAL), y=L.Symbol("y", SCALAR), z=L.Symbol("z", REAL), i=L.Symbol("i", INT),
        j=L.Symbol("j", INT), b=L.Symbol("b", BOOL), T=L.Symbol("T", REAL), U=L.Symbol("U", SCALAR),
    )


def child_variants():
    """Representative instances of every expression class: (label, kind, tree). kind: a(rith) / c(ond)."""
    s = _syms()
    x, y, z, i, j, b, T, U = (s[k] for k in "x y z i j b T U".split())
    c1, c2 = L.LT(x, z), L.GE(y, x)
    v = [
        ("LiteralFloat:pos", "a", L.LiteralFloat(2.5)),
        ("LiteralFloat:neg", "a", L.LiteralFloat(-2.0)),
        ("LiteralFloat:exp", "a", L.LiteralFloat(1e-05)),
        ("LiteralFloat:negexp", "a", L.LiteralFloat(-1.5e20)),
        ("LiteralFloat:ulp", "a", L.LiteralFloat(1.0 + 2.0**-51)),
        ("LiteralFloat:third", "a", L.LiteralFloat(1.0 / 3.0)),
        ("LiteralFloat:complex", "a", L.LiteralFloat(complex(1.5, -2.0))),
        ("LiteralFloat:imag", "a", L.LiteralFloat(complex(0.0, 2.0))),
        ("LiteralInt:pos", "a", L.LiteralInt(3)),
        ("LiteralInt:neg", "a", L.LiteralInt(-1)),
        ("LiteralInt:zero", "a", L.LiteralInt(0)),
        ("Symbol:real", "a", x),
        ("Symbol:int", "a", i),
        ("Symbol:bool", "c", b),
        ("MultiIndex:2", "a", L.MultiIndex([i, j], [3, 4])),
        ("MultiIndex:1", "a", L.MultiIndex([i], [3])),
        ("MultiIndex:0", "a", L.MultiIndex([], [])),
        ("Neg", "a", L.Neg(x)),
        ("Not", "c", L.Not(c1)),
        ("Add", "a", L.Add(x, y)), ("Sub", "a", L.Sub(x, y)), ("Mul", "a", L.Mul(x, y)), ("Div", "a", L.Div(x, y)),
        ("EQ", "c", L.EQ(x, y)), ("NE", "c", L.NE(x, y)), ("LT", "c", L.LT(x, y)), ("GT", "c", L.GT(x, y)),
        ("LE", "c", L.LE(x, y)), ("GE", "c", L.GE(x, y)),
        ("And", "c", L.And(c1, c2)), ("Or", "c", L.Or(c1, c2)),
        ("Sum:3", "a", L.Sum([x, y, L.LiteralFloat(3.0)])), ("Sum:1", "a", L.Sum([x])),
        ("Product:2", "a", L.Product([x, y])), ("Product:1", "a", L.Product([y])),
        ("MathFunction:1", "a", L.MathFunction("sqrt", [x])),
        ("MathFunction:2", "a", L.MathFunction("power", [y, x])),
        ("MathFunction:bessel", "a", L.MathFunction("bessel_j", [L.LiteralInt(1), x])),
        ("MathFunction:erf", "a", L.MathFunction("erf", [x])),
        # the table is chosen by ANY argument being SCALAR; no complex version => the C formatter raises
        ("MathFunction:mixed", "a", L.MathFunction("power", [x, y])),
        ("MathFunction:erf-scalar", "a", L.MathFunction("erf", [y])),
        ("MathFunction:atan2-mixed", "a", L.MathFunction("atan_2", [x, y])),
        ("MathFunction:min-scalar", "a", L.MathFunction("min_value", [y, x])),
        ("MathFunction:unknown", "a", L.MathFunction("foo", [y])),
        ("ArrayAccess:1", "a", L.ArrayAccess(T, [i])),
        ("ArrayAccess:2", "a", L.ArrayAccess(U, [i, L.LiteralInt(0)])),
        ("Conditional", "a", L.Conditional(c1, x, y)),
    ]
    return v


def parents():
    """(label, arity, operand kinds, builder(list of children))"""
    s = _syms()
    T = s["T"]
    P = []
    P.append(("Neg", 1, "a", lambda c: L.Neg(c[0])))
    P.append(("Not", 1, "c", lambda c: L.Not(c[0])))
    for nm, cls in [("Add", L.Add), ("Sub", L.Sub), ("Mul", L.Mul), ("Div", L.Div)]:
        P.append((nm, 2, "aa", lambda c, cls=cls: cls(c[0], c[1])))
    for nm, cls in [("EQ", L.EQ), ("NE", L.NE), ("LT", L.LT), ("GT", L.GT), ("LE", L.LE), ("GE", L.GE)]:
        P.append((nm, 2, "aa", lambda c, cls=cls: cls(c[0], c[1])))
    for nm, cls in [("And", L.And), ("Or", L.Or)]:
        P.append((nm, 2, "cc", lambda c, cls=cls: cls(c[0], c[1])))
    P.append(("Sum", 3, "aaa", lambda c: L.Sum(c)))
    P.append(("Product", 3, "aaa", lambda c: L.Product(c)))
    P.append(("MathFunction", 2, "aa", lambda c: L.MathFunction("power", c)))
    P.append(("ArrayAccess", 2, "aa", lambda c: L.ArrayAccess(T, c)))
    P.append(("Conditional", 3, "caa", lambda c: L.Conditional(c[0], c[1], c[2])))
    return P


def depth2_trees():
    """ALL parent x child-variant x position trees of depth 2; other operands are plain symbols."""
    s = _syms()
    fill = {"a": s["z"], "c": s["b"]}
    out = []
    for pl, ar, kinds, build in parents():
        for pos in range(ar):
            for cl, ck, child in child_variants():
                ops = [fill[kinds[k]] for k in range(ar)]
                if pl == "ArrayAccess":
                    ops = [s["i"], s["j"]]
                ops[pos] = child
                try:
                    t = build(ops)
                except Exception as e:  # constructor refuses (none does today)
                    continue
                out.append((f"{pl}[{pos}]<-{cl}", kinds[pos] == ck, t))
    for cl, ck, child in child_variants():
        out.append((f"top<-{cl}", True, child))
    return out


_FUNCS1 = ["sqrt", "abs", "cos", "sin", "tan", "acos", "asin", "atan", "cosh", "sinh", "tanh", "exp", "ln", "erf"]
_FUNCS2 = ["power", "atan2", "min_value", "max_value"]
_LITS = [0.5, 2.0, -1.0, 3.0, 0.25, -2.5, 1e-05, 1e16, 0.1, 1.0 / 3.0, 1.0 + 2.0**-51, 123456.789, -7e-10, 6.02214076e23]


def random_wt(rng, depth, kind="a"):
    """A random well-typed tree: kind 'a' arithmetic, 'c' condition."""
    s = _syms()
    if kind == "c":
        k = rng.randrange(10) if depth > 0 else 9
        if k < 5 or depth <= 0:
            cls = rng.choice([L.LT, L.GT, L.LE, L.GE, L.EQ, L.NE])
            return cls(random_wt(rng, depth - 1, "a"), random_wt(rng, depth - 1, "a"))
        if k < 7:
            return L.And(random_wt(rng, depth - 1, "c"), random_wt(rng, depth - 1, "c"))
        if k < 9:
            return L.Or(random_wt(rng, depth - 1, "c"), random_wt(rng, depth - 1, "c"))
        return L.Not(random_wt(rng, depth - 1, "c"))
    if depth <= 0:
        k = rng.randrange(8)
        if k == 0:
            return L.LiteralFloat(rng.choice(_LITS))
        if k == 1:
            return L.LiteralInt(rng.choice([0, 1, 2, 3, 7, -1, -4, 12]))
        if k == 2:
            return L.LiteralFloat(complex(rng.choice(_LITS), rng.choice(_LITS)))
        if k == 3:
            return L.ArrayAccess(s["T"], [s["i"]])
        return rng.choice([s["x"], s["y"], s["z"], s["i"], s["j"]])
    k = rng.randrange(16)
    a = lambda: random_wt(rng, depth - 1, "a")  # noqa: E731
    if k == 0:
        return L.Neg(a())
    if k in (1, 2):
        return rng.choice([L.Add, L.Sub])(a(), a())
    if k in (3, 4):
        return rng.choice([L.Mul, L.Div])(a(), a())
    if k == 5:
        return L.Sum([a() for _ in range(rng.randrange(1, 5))])
    if k == 6:
        return L.Product([a() for _ in range(rng.randrange(1, 5))])
    if k == 7:
        return L.MathFunction(rng.choice(_FUNCS1), [a()])
    if k == 8:
        return L.MathFunction(rng.choice(_FUNCS2), [a(), a()])
    if k == 9:
        return L.Conditional(random_wt(rng, depth - 1, "c"), a(), a())
    if k == 10:
        idx = [rng.choice([s["i"], s["j"], L.LiteralInt(rng.randrange(4)), L.Add(s["i"], L.LiteralInt(1)),
                           L.Mul(L.LiteralInt(3), s["j"]), L.MultiIndex([s["i"], s["j"]], [3, 4])])
               for _ in range(rng.randrange(1, 4))]
        return L.ArrayAccess(rng.choice([s["T"], s["U"]]), idx)
    return random_wt(rng, depth - 1, "a") if k < 13 else random_wt(rng, 0, "a")


def has_negzero(e):
    """Does the tree contain a -0.0 literal (not representable by the exact-rational AST)?"""
    if isinstance(e, L.LiteralFloat):
        v = e.value
        parts = [v.real, v.imag] if isinstance(v, complex) else [v]
        return any(p == 0 and math.copysign(1.0, p) < 0 for p in parts)
    for k in ("arg", "lhs", "rhs", "condition", "true", "false", "global_index"):
        c = getattr(e, k, None)
        if isinstance(c, L.LExpr) and has_negzero(c):
            return True
    for k in ("args", "indices"):
        for c in getattr(e, k, None) or []:
            if has_negzero(c):
                return True
    return False


# ======================================================================================
# independent normal forms: LNodes -> tuples, pycparser -> tuples, python ast -> tuples
# ======================================================================================
def _num(v):
    return ("num", Fraction(v))


def _signed(v):
    if v < 0 or (v == 0 and math.copysign(1.0, v) < 0):
        return ("neg", _num(-v))
    return _num(v)


_OPS = {L.Add: "+", L.Sub: "-", L.Mul: "*", L.Div: "/", L.EQ: "==", L.NE: "!=", L.LT: "<", L.GT: ">",
        L.LE: "<=", L.GE: ">=", L.And: "&&", L.Or: "||"}

# which numpy/python callable denotes an LNodes math function (written from the NumPy / math docs;
# independent of the formatter's function_map)
_PY_FUNC = {
    "sqrt": "np.sqrt", "abs": "np.abs", "cos": "np.cos", "sin": "np.sin", "tan": "np.tan",
    "acos": "np.arccos", "asin": "np.arcsin", "atan": "np.arctan", "cosh": "np.cosh", "sinh": "np.sinh",
    "tanh": "np.tanh", "acosh": "np.arccosh", "asinh": "np.arcsinh", "atanh": "np.arctanh",
    "power": "np.power", "exp": "np.exp", "ln": "np.log", "erf": "math.erf", "atan2": "np.arctan2",
    "min_value": "np.minimum", "max_value": "np.maximum", "real": "np.real", "imag": "np.imag",
    "conj": "np.conj", "bessel_y": "scipy.special.yn", "bessel_j": "scipy.special.jn",
}


def lnodes_tuple(e, lang, scalar="float64"):
    """The tree the text must denote, as nested tuples (n-ary -> left-nested, MultiIndex -> global index,
    negative literal -> unary minus of the magnitude)."""
    t = type(e)
    R = lambda a: lnodes_tuple(a, lang, scalar)  # noqa: E731
    if t is L.LiteralFloat:
        v = e.value
        if isinstance(v, complex):
            if lang == "c":
                return ("bin", "+", _signed(v.real), ("bin", "*", ("id", "I"), _signed(v.imag)))
            im = ("imag", Fraction(abs(v.imag)))
            if v.real == 0 and math.copysign(1.0, v.real) > 0:
                return ("neg", im) if (v.imag < 0 or math.copysign(1.0, v.imag) < 0) else im
            return ("bin", "-" if (v.imag < 0 or math.copysign(1.0, v.imag) < 0) else "+", _signed(v.real), im)
        return _signed(v)
    if t is L.LiteralInt:
        v = int(e.value)
        return ("neg", _num(-v)) if v < 0 else _num(v)
    if t is L.Symbol:
        return ("id", e.name)
    if t is L.MultiIndex:
        return R(e.global_index)
    if t is L.Neg:
        return ("neg", R(e.arg))
    if t is L.Not:
        return ("not", R(e.arg))
    if t in _OPS:
        return ("bin", _OPS[t], R(e.lhs), R(e.rhs))
    if t in (L.Sum, L.Product):
        op = "+" if t is L.Sum else "*"
        if not e.args:
            return ("empty", op)
        acc = R(e.args[0])
        for a in e.args[1:]:
            acc = ("bin", op, acc, R(a))
        return acc
    if t is L.MathFunction:
        if lang == "c":
            # the C function that denotes the LNodes function for these argument types: the
            # <complex.h> version iff some argument is complex valued (dtype SCALAR in a complex build)
            ty = scalar if any(getattr(a, "dtype", None) == SCALAR for a in e.args) else REAL_OF[scalar]
            name = math_table[ty].get(e.function, e.function)
        else:
            name = _PY_FUNC.get(e.function, "np." + e.function)
        return ("call", name, tuple(R(a) for a in e.args))
    if t is L.ArrayAccess:
        if lang == "c":
            acc = ("id", e.array.name)
            for ix in e.indices:
                acc = ("idx", acc, (R(ix),))
            return acc
        return ("idx", ("id", e.array.name), tuple(R(ix) for ix in e.indices))
    if t is L.Conditional:
        return ("cond", R(e.condition), R(e.true), R(e.false))
    raise TypeError(t)


_cparser = None


def _cp():
    global _cparser
    if _cparser is None:
        from pycparser import c_parser
        _cparser = c_parser.CParser()
    return _cparser


def strip_c_comments(text):
    return re.sub(r"//[^\n]*", "", text)


def c_tuple(n):
    from pycparser import c_ast as A
    if isinstance(n, A.Constant):
        try:
            return ("num", Fraction(n.value))
        except Exception:
            return ("badnum", n.value)
    if isinstance(n, A.ID):
        return ("id", n.name)
    if isinstance(n, A.BinaryOp):
        return ("bin", n.op, c_tuple(n.left), c_tuple(n.right))
    if isinstance(n, A.UnaryOp):
        if n.op == "-":
            return ("neg", c_tuple(n.expr))
        if n.op == "!":
            return ("not", c_tuple(n.expr))
        return ("un", n.op, c_tuple(n.expr))
    if isinstance(n, A.TernaryOp):
        return ("cond", c_tuple(n.cond), c_tuple(n.iftrue), c_tuple(n.iffalse))
    if isinstance(n, A.FuncCall):
        args = tuple(c_tuple(a) for a in (n.args.exprs if n.args else []))
        return ("call", n.name.name if isinstance(n.name, A.ID) else "?", args)
    if isinstance(n, A.ArrayRef):
        return ("idx", c_tuple(n.name), (c_tuple(n.subscript),))
    return ("other", type(n).__name__)


def c_parse_expr(text):
    """pycparser tree of a C expression text, or ('error', msg)."""
    try:
        ast_ = _cp().parse("void f_(void){ r_ = " + strip_c_comments(text) + " ; }")
        body = ast_.ext[0].body.block_items
        if len(body) != 1:
            return ("error", f"{len(body)} statements")
        return c_tuple(body[0].rvalue)
    except Exception as e:
        return ("error", str(e)[:120])


_PYBIN = {pyast.Add: "+", pyast.Sub: "-", pyast.Mult: "*", pyast.Div: "/"}
_PYCMP = {pyast.Eq: "==", pyast.NotEq: "!=", pyast.Lt: "<", pyast.Gt: ">", pyast.LtE: "<=", pyast.GtE: ">="}


def _dotted(n):
    if isinstance(n, pyast.Name):
        return n.id
    if isinstance(n, pyast.Attribute):
        b = _dotted(n.value)
        return None if b is None else b + "." + n.attr
    return None


def py_tuple(n):
    if isinstance(n, pyast.Constant):
        v = n.value
        if isinstance(v, bool) or v is None:
            return ("other", repr(v))
        if isinstance(v, complex):
            return ("imag", Fraction(v.imag))
        return ("num", Fraction(v))
    if isinstance(n, pyast.Name):
        return ("id", n.id)
    if isinstance(n, pyast.Attribute):
        d = _dotted(n)
        return ("id", d) if d else ("other", "Attribute")
    if isinstance(n, pyast.UnaryOp):
        if isinstance(n.op, pyast.USub):
            return ("neg", py_tuple(n.operand))
        if isinstance(n.op, pyast.Not):
            return ("not", py_tuple(n.operand))
        return ("un", type(n.op).__name__, py_tuple(n.operand))
    if isinstance(n, pyast.BinOp) and type(n.op) in _PYBIN:
        return ("bin", _PYBIN[type(n.op)], py_tuple(n.left), py_tuple(n.right))
    if isinstance(n, pyast.BoolOp):
        op = "&&" if isinstance(n.op, pyast.And) else "||"
        acc = py_tuple(n.values[0])
        for v in n.values[1:]:
            acc = ("bin", op, acc, py_tuple(v))
        return acc
    if isinstance(n, pyast.Compare):
        if len(n.ops) == 1 and type(n.ops[0]) in _PYCMP:
            return ("bin", _PYCMP[type(n.ops[0])], py_tuple(n.left), py_tuple(n.comparators[0]))
        return ("chain", py_tuple(n.left), tuple((_PYCMP.get(type(o), "?"), py_tuple(c)) for o, c in zip(n.ops, n.comparators)))
    if isinstance(n, pyast.IfExp):
        return ("cond", py_tuple(n.test), py_tuple(n.body), py_tuple(n.orelse))
    if isinstance(n, pyast.Call):
        name = _dotted(n.func) or "?"
        args = tuple(py_tuple(a) for a in n.args) + tuple(("kw", k.arg, py_tuple(k.value)) for k in n.keywords)
        return ("call", name, args)
    if isinstance(n, pyast.Subscript):
        sl = n.slice
        ix = tuple(py_tuple(e) for e in sl.elts) if isinstance(sl, pyast.Tuple) else (py_tuple(sl),)
        return ("idx", py_tuple(n.value), ix)
    if isinstance(n, pyast.Tuple):
        return ("tuple", tuple(py_tuple(e) for e in n.elts))
    if isinstance(n, pyast.List):
        return ("list", tuple(py_tuple(e) for e in n.elts))
    return ("other", type(n).__name__)


def py_parse_expr(text):
    try:
        return py_tuple(pyast.parse(text, mode="eval").body)
    except SyntaxError as e:
        return ("error", str(e)[:120])


def same_tree(a, b, lits=None):
    """Structural equality; numeric literals compared to 16 significant digits (the exact literal
    error is measured separately). `lits` collects (parsed value, intended value) pairs."""
    if isinstance(a, tuple) and isinstance(b, tuple):
        if a and b and a[0] in ("num", "imag") and b[0] == a[0]:
            if lits is not None:
                lits.append((a[1], b[1]))
            return abs(a[1] - b[1]) <= Fraction(6, 10**16) * abs(b[1])
        return len(a) == len(b) and all(same_tree(x, y, lits) for x, y in zip(a, b))
    return a == b


class _Skip(Exception):
    pass


def eval_tuple(t, env, fn_back):
    """Exact evaluation of a normal-form tuple (C or Python flavour; Python chains by Python's rule)."""
    k = t[0]
    E = lambda u: eval_tuple(u, env, fn_back)  # noqa: E731
    if k == "num":
        return t[1]
    if k == "imag":
        raise _Skip()
    if k == "id":
        if t[1] in env:
            return env[t[1]]
        raise _Skip()
    if k == "neg":
        return -E(t[1])
    if k == "not":
        return Fraction(0 if E(t[1]) else 1)
    if k == "bin":
        op = t[1]
        if op in ("&&", "||"):
            a, b = E(t[2]), E(t[3])
            return Fraction(1 if ((a != 0 and b != 0) if op == "&&" else (a != 0 or b != 0)) else 0)
        a, b = E(t[2]), E(t[3])
        if op == "+":
            return a + b
        if op == "-":
            return a - b
        if op == "*":
            return a * b
        if op == "/":
            if b == 0:
                raise _Skip()
            return a / b
        r = {"<": a < b, ">": a > b, "<=": a <= b, ">=": a >= b, "==": a == b, "!=": a != b}[op]
        return Fraction(1 if r else 0)
    if k == "chain":
        cur = E(t[1])
        ok = True
        for op, rhs in t[2]:
            r = E(rhs)
            ok = ok and {"<": cur < r, ">": cur > r, "<=": cur <= r, ">=": cur >= r, "==": cur == r, "!=": cur != r}[op]
            cur = r
        return Fraction(1 if ok else 0)
    if k == "cond":
        return E(t[2]) if E(t[1]) != 0 else E(t[3])
    if k == "call":
        return lnodes_eval._fn(fn_back(t[1]), [E(a) for a in t[2]])
    if k == "idx":
        base = t
        idxs = []
        while base[0] == "idx":
            idxs = [int(E(i)) for i in base[2]] + idxs
            base = base[1]
        if base[0] != "id":
            raise _Skip()
        h = hash((base[1],) + tuple(idxs)) % 10007
        return Fraction(h - 5000, 64)
    raise _Skip()


def value_differs(e, parsed, lang, scalar, rng):
    """Evaluate the LNodes tree and the independently parsed tree on seeded operands.
    True = some operand assignment gives different values; None = could not evaluate."""
    if lang == "c":
        inv = {}
        for ty in (scalar, REAL_OF[scalar]):
            for k_, v_ in math_table[ty].items():
                inv.setdefault(v_, k_)
        back = lambda n: inv.get(n, n)  # noqa: E731
    else:
        inv = {v_: k_ for k_, v_ in _PY_FUNC.items()}
        back = lambda n: inv.get(n, n[3:] if n.startswith("np.") else n)  # noqa: E731
    evaluated = False
    for trial in range(24):
        if trial % 2:
            env = {n: Fraction(rng.randrange(-24, 25), 8) for n in ("x", "y", "z")}
        else:  # a small domain, so that equalities and 0/1-valued operands occur
            env = {n: Fraction(rng.choice([-1, 0, 1, 1, 2])) for n in ("x", "y", "z")}
        env.update({"i": Fraction(rng.randrange(0, 3)), "j": Fraction(rng.randrange(0, 4)),
                    "b": Fraction(rng.randrange(0, 2)), "I": Fraction(0)})
        try:
            want = lnodes_eval.ev(e, env)
            got = eval_tuple(parsed, env, back)
        except (lnodes_eval.EvalError, _Skip, ZeroDivisionError, KeyError, ValueError, OverflowError):
            continue
        evaluated = True
        if abs(got - want) > Fraction(1, 10**9) * max(1, abs(want)):
            return True
    return False if evaluated else None


def ulps_off(text_value: Fraction, true_value: Fraction):
    """|float(text) - x| in units of ulp(x) (binary64), for the literal as a C compiler reads it."""
    x = float(true_value)
    if x == 0 or not math.isfinite(x):
        return 0.0
    # float() of a Fraction rounds correctly
    r = float(text_value)
    return abs(Fraction(r) - Fraction(x)) / Fraction(math.ulp(x))


# ======================================================================================
# causes
# ======================================================================================
def _is_neg_literal(e):
    if isinstance(e, L.LiteralInt):
        return int(e.value) < 0
    if isinstance(e, L.LiteralFloat) and not isinstance(e.value, complex):
        return e.value < 0 or (e.value == 0 and math.copysign(1.0, e.value) < 0)
    return False


def children_of(e):
    out = []
    for k in ("arg", "lhs", "rhs", "condition", "true", "false"):
        c = getattr(e, k, None)
        if isinstance(c, L.LExpr):
            out.append(c)
    for k in ("args", "indices"):
        for c in getattr(e, k, None) or []:
            out.append(c)
    if isinstance(e, L.MultiIndex):
        out.append(e.global_index)
    return out


def minimal_failing(e, fails):
    """Smallest subtree for which `fails(subtree)` holds."""
    for c in children_of(e):
        if fails(c):
            return minimal_failing(c, fails)
    return e


def cause_key(lang, e):
    """Canonical key of a faithfulness violation, by CAUSE, from the minimal failing subtree."""
    t = type(e).__name__
    kids = children_of(e)
    if lang == "c" and isinstance(e, L.Neg) and _is_neg_literal(e.arg):
        return "fmt:c:neg-of-negative-literal"
    if not isinstance(e, (L.ArrayAccess, L.MathFunction, L.MultiIndex)) and any(isinstance(k, L.MultiIndex) for k in kids):
        return f"fmt:{lang}:multiindex-operand-unparenthesised"
    if lang == "py":
        if isinstance(e, L.Not):
            return "fmt:py:not-operator"
        if isinstance(e, (L.EQ, L.NE, L.LT, L.GT, L.LE, L.GE)) and any(isinstance(k, (L.EQ, L.NE, L.LT, L.GT, L.LE, L.GE)) for k in kids):
            return "fmt:py:comparison-chain"
        if isinstance(e, L.MathFunction) and "bessel" in e.function:
            return "fmt:py:bessel-drops-arguments"
        if isinstance(e, L.MathFunction):
            return f"fmt:py:mathfunction:{e.function}"
    if isinstance(e, (L.Sum, L.Product)) and not e.args:
        return f"fmt:{lang}:empty-nary"
    return f"fmt:{lang}:{t}(" + ",".join(type(k).__name__ for k in kids) + ")"


# ======================================================================================
# statements: own export (section input/output order preserved), independent trees
# ======================================================================================
def stmt_sexp(s):
    """export.stmt, but Section inputs/outputs keep their order (the formatter prints them in order)."""
    t = type(s)
    if t is L.Section:
        decls = " ".join(stmt_sexp(d) for d in s.declarations)
        stmts = " ".join(stmt_sexp(b) for b in s.statements)
        inp = " ".join(q(w.name) for w in s.input)
        out = " ".join(q(w.name) for w in s.output)
        ann = " ".join(a.name for a in s.annotations)
        return f"(section {q(s.name)} ({decls}) ({stmts}) ({inp}) ({out}) ({ann}))"
    if t is L.StatementList:
        return "(block " + " ".join(stmt_sexp(b) for b in s.statements) + ")"
    if t is L.ForRange:
        if not isinstance(s.index, L.Symbol):
            raise export.ExportError("ForRange index is not a Symbol")
        body = " ".join(stmt_sexp(b) for b in s.body.statements)
        return f"(for {s.index.name} {export.expr(s.begin)} {export.expr(s.end)} {body})"
    if t is L.Statement:
        return stmt_sexp(s.expr)
    if t is L.ArrayDecl and s.values is not None:
        arr = np.asarray(s.values)
        if tuple(arr.shape) != tuple(int(x) for x in s.sizes) and not (arr.ndim == 1 and arr.size == 1):
            raise export.ExportError(f"initialiser shape {arr.shape} vs sizes {s.sizes}: not representable")
    return export.stmt(s)


def stmt_has_negzero(s):
    t = type(s)
    if t is L.Statement:
        return stmt_has_negzero(s.expr)
    if t in (L.Assign, L.AssignAdd):
        return has_negzero(s.lhs) or has_negzero(s.rhs)
    if t is L.VariableDecl:
        return s.value is not None and has_negzero(s.value)
    if t is L.ArrayDecl:
        if s.values is None:
            return False
        a = np.asarray(s.values)
        if np.iscomplexobj(a):
            return bool(np.any((a.real == 0) & np.signbit(a.real)) or np.any((a.imag == 0) & np.signbit(a.imag)))
        return bool(np.issubdtype(a.dtype, np.floating) and np.any((a == 0) & np.signbit(a)))
    if t is L.ForRange:
        return has_negzero(s.begin) or has_negzero(s.end) or stmt_has_negzero(s.body)
    if t is L.StatementList:
        return any(stmt_has_negzero(b) for b in s.statements)
    if t is L.Section:
        return any(stmt_has_negzero(b) for b in list(s.declarations) + list(s.statements))
    return False


def _lit_tuple(v, lang):
    if isinstance(v, (complex, np.complexfloating)):
        return lnodes_tuple(L.LiteralFloat(complex(v)), lang)
    if isinstance(v, (float, np.floating)):
        return _signed(float(v))
    return ("neg", _num(-int(v))) if int(v) < 0 else _num(int(v))


def _nest(arr, lang):
    if arr.ndim == 1:
        return ("init", tuple(_lit_tuple(v, lang) for v in arr.tolist()))
    return ("init", tuple(_nest(a, lang) for a in arr))


_CTYPE = {"float64": ["double"], "float32": ["float"], "complex128": ["double", "_Complex"], "complex64": ["float", "_Complex"]}


def _c_typename(dt, scalar):
    if dt == SCALAR:
        return _CTYPE[scalar]
    if dt == REAL:
        return _CTYPE[REAL_OF[scalar]]
    if dt == INT:
        return ["int"]
    if dt == BOOL:
        return ["bool"]
    raise ValueError(dt)


def lstmt_tuples(s, lang, scalar):
    """The list of statement trees the text must denote (comments vanish; StatementList splices)."""
    t = type(s)
    E = lambda e: lnodes_tuple(e, lang, scalar)  # noqa: E731
    if t is L.Statement:
        return lstmt_tuples(s.expr, lang, scalar)
    if t in (L.Assign, L.AssignAdd):
        return [("assign", "=" if t is L.Assign else "+=", E(s.lhs), E(s.rhs))]
    if t is L.VariableDecl:
        if lang == "c":
            return [("decl", tuple(_c_typename(s.symbol.dtype, scalar)), s.symbol.name, (), E(s.value))]
        return [("assign", "=", ("id", s.symbol.name), E(s.value))]
    if t is L.ArrayDecl:
        sizes = tuple(int(x) for x in s.sizes)
        if lang == "c":
            ty = _c_typename(s.symbol.dtype, scalar)
            if s.values is None:
                return [("decl", tuple(ty), s.symbol.name, sizes, None)]
            q_ = (["static", "const"] if s.const else []) + ty
            return [("decl", tuple(q_), s.symbol.name, sizes, _nest(np.asarray(s.values), lang))]
        npname = {SCALAR: "np." + scalar, REAL: "np." + REAL_OF[scalar], INT: "np.int32", BOOL: "np.bool_"}[s.symbol.dtype]
        dtype = ("kw", "dtype", ("id", npname))
        szt = ("tuple", tuple(_num(x) for x in sizes))
        if s.values is None:
            return [("assign", "=", ("id", s.symbol.name), ("call", "np.empty", (szt, dtype)))]
        arr = np.asarray(s.values)
        if arr.size == 1:
            return [("assign", "=", ("id", s.symbol.name), ("call", "np.full", (szt, _lit_tuple(arr.reshape(-1)[0], lang), dtype)))]

        def lst(a):
            if a.ndim == 1:
                return ("list", tuple(_lit_tuple(v, lang) for v in a.tolist()))
            return ("list", tuple(lst(x) for x in a))
        return [("assign", "=", ("id", s.symbol.name), ("call", "np.array", (lst(arr), dtype)))]
    if t is L.ForRange:
        body = []
        for b in s.body.statements:
            body += lstmt_tuples(b, lang, scalar)
        return [("for", s.index.name, E(s.begin), E(s.end), tuple(body))]
    if t is L.Comment:
        return []
    if t is L.StatementList:
        out = []
        for b in s.statements:
            out += lstmt_tuples(b, lang, scalar)
        return out
    if t is L.Section:
        out = []
        for b in s.declarations:
            out += lstmt_tuples(b, lang, scalar)
        inner = []
        for b in s.statements:
            inner += lstmt_tuples(b, lang, scalar)
        if lang == "c":
            if s.statements:
                out.append(("block", tuple(inner)))
        else:
            out += inner
        return out
    raise TypeError(t)


def c_stmt_tuples(items):
    from pycparser import c_ast as A
    out = []
    for n in items or []:
        if isinstance(n, A.Compound):
            out.append(("block", tuple(c_stmt_tuples(n.block_items))))
        elif isinstance(n, A.Assignment):
            out.append(("assign", n.op, c_tuple(n.lvalue), c_tuple(n.rvalue)))
        elif isinstance(n, A.Decl):
            dims = []
            ty = n.type
            while isinstance(ty, A.ArrayDecl):
                dims.append(int(ty.dim.value) if isinstance(ty.dim, A.Constant) else -1)
                ty = ty.type
            names = list(n.storage) + list(n.quals) + (list(ty.type.names) if isinstance(ty, A.TypeDecl) and isinstance(ty.type, A.IdentifierType) else ["?"])

            def init(x):
                if isinstance(x, A.InitList):
                    return ("init", tuple(init(y) for y in x.exprs))
                return c_tuple(x)
            out.append(("decl", tuple(names), n.name, tuple(dims), None if n.init is None else init(n.init)))
        elif isinstance(n, A.For):
            ok = (isinstance(n.init, A.DeclList) and len(n.init.decls) == 1 and isinstance(n.cond, A.BinaryOp)
                  and n.cond.op == "<" and isinstance(n.cond.left, A.ID) and isinstance(n.next, A.UnaryOp)
                  and n.next.op == "++" and isinstance(n.next.expr, A.ID) and isinstance(n.stmt, A.Compound))
            if not ok:
                out.append(("other", "For"))
                continue
            d = n.init.decls[0]
            i = d.name
            if n.cond.left.name != i or n.next.expr.name != i or d.type.type.names != ["int"]:
                out.append(("other", "For-index"))
                continue
            out.append(("for", i, c_tuple(d.init), c_tuple(n.cond.right), tuple(c_stmt_tuples(n.stmt.block_items))))
        elif isinstance(n, A.EmptyStatement):
            continue
        else:
            out.append(("other", type(n).__name__))
    return out


def c_parse_stmts(text):
    try:
        # `bool` comes from <stdbool.h> (included by ufcx.h); pycparser sees unpreprocessed text
        ast_ = _cp().parse("typedef _Bool bool;\nvoid f_(void){\n" + strip_c_comments(text) + "\n}")
        return c_stmt_tuples(ast_.ext[1].body.block_items)
    except Exception as e:
        return [("error", str(e)[:160])]


def py_stmt_tuples(body):
    out = []
    for n in body:
        if isinstance(n, pyast.Assign) and len(n.targets) == 1:
            out.append(("assign", "=", py_tuple(n.targets[0]), py_tuple(n.value)))
        elif isinstance(n, pyast.AugAssign) and isinstance(n.op, pyast.Add):
            out.append(("assign", "+=", py_tuple(n.target), py_tuple(n.value)))
        elif isinstance(n, pyast.Pass):
            continue
        elif isinstance(n, pyast.For):
            it = n.iter
            ok = (isinstance(n.target, pyast.Name) and isinstance(it, pyast.Call) and isinstance(it.func, pyast.Name)
                  and it.func.id == "range" and len(it.args) == 2 and not it.keywords and not n.orelse)
            if not ok:
                out.append(("other", "For"))
                continue
            out.append(("for", n.target.id, py_tuple(it.args[0]), py_tuple(it.args[1]), tuple(py_stmt_tuples(n.body))))
        else:
            out.append(("other", type(n).__name__))
    return out


def py_parse_stmts(text):
    try:
        return py_stmt_tuples(pyast.parse(text).body)
    except SyntaxError as e:
        return [("error", f"{type(e).__name__}: {e}"[:160])]


# ======================================================================================
# the check
# ======================================================================================
class Ctx:
    def __init__(self, chk, d):
        self.chk = chk
        self.d = d
        self.cf = {s: CFormatter(s) for s in SCALARS}
        self.nf = {s: NFormatter(s) for s in SCALARS}
        self.rng = random.Random(1000 + chk.seed)
        self.lit_worst = (0.0, None)
        self.lit_count = 0
        self.lit_over = 0
        self.negzero_skipped = 0
        self.raising_c = 0
        self.unrepresentable = 0
        self.viol_seen = set()
        self.in_kernels = {}
        self.coverage = {}

    def cover(self, kind, wf, label):
        """How many evaluated trees satisfy the hypothesis (wfC / wfPy / wfS / wfSPy) of the full theorem."""
        c = self.coverage.setdefault(kind, {"cases": 0, "hypothesis_holds": 0, "hypothesis_fails_in_kernels": []})
        c["cases"] += 1
        if wf:
            c["hypothesis_holds"] += 1
        elif label and "#" in str(label) and len(c["hypothesis_fails_in_kernels"]) < 5:
            c["hypothesis_fails_in_kernels"].append(str(label))

    def violation(self, key, what, payload):
        where = (payload or {}).get("where")
        if where and "#" in str(where):  # found in a kernel the real pipeline generated
            lst = self.in_kernels.setdefault(key, [])
            if len(lst) < 5 and where not in lst:
                lst.append(where)
        if key in self.viol_seen:
            return
        self.viol_seen.add(key)
        self.chk.violation(key, what, payload)


def _real_fmt(f, e):
    try:
        return "ok", f(e)
    except Exception as ex:  # the formatter raises
        return "raise", f"{type(ex).__name__}: {ex}"[:120]


def check_expr(cx, label, wt, e, scalars, do_py=True):
    """One expression tree: correspondence + independent parse + Lean round-trip checker."""
    chk, d = cx.chk, cx.d
    try:
        sx = export.expr(e)
    except export.ExportError:
        return
    if has_negzero(e):
        cx.negzero_skipped += 1
        return
    for sc in scalars:
        st, real = _real_fmt(cx.cf[sc], e)
        r = d.ask(f"(exprC {sc} {sx})")
        model = r[1] if r[0] == "res" else None
        chk.case("expr-c", key=f"{label}:{sc}" if not label.startswith("rand") else None)
        model_raises = r[0] == "res" and len(r) > 6 and r[6] == "true"
        if st == "raise" or model_raises:
            # a raising call (math function without a complex version, complex argument) is a
            # correspondence case: the model says error <=> the real formatter raises
            cx.raising_c += 1
            if (st == "raise") != model_raises:
                chk.disagree("C formatter raising: real vs Lean model",
                             {"tree": sx, "scalar": sc, "impl": real if st == "raise" else "(no exception)", "model_raises": model_raises})
            if model_raises and r[4] == "true":
                chk.disagree("evaluation contradicts format_C_total (wfC holds, the model formatter raises)", {"tree": sx, "scalar": sc})
            continue
        in_sync = model == real
        if not in_sync:  # the search below runs on the REAL text regardless
            chk.disagree("C formatter text: real vs Lean model", {"tree": sx, "scalar": sc, "impl": real, "model": model})
        lex_ok, rt_ok = r[2] == "true", r[3] == "true"
        model_wt = {"wellformed_wfC": r[4] == "true", "kind": r[5]}
        cx.cover("expr-c", r[4] == "true", label)
        if r[4] == "true" and not (lex_ok and rt_ok):  # the theorems say this cannot happen
            chk.disagree("evaluation contradicts no_token_fusion / roundtrip_C (wfC holds, the model round trip fails)",
                         {"tree": sx, "scalar": sc, "lean_lex_ok": lex_ok, "lean_roundtrip": rt_ok})
        want = lnodes_tuple(e, "c", sc)
        got = c_parse_expr(real)
        lits = []
        indep_ok = same_tree(got, want, lits)
        if in_sync and indep_ok != rt_ok:
            chk.disagree("Lean C lexer+parser vs pycparser (round-trip verdict)",
                         {"tree": sx, "scalar": sc, "text": real, "lean_roundtrip": rt_ok, "lean_lex_ok": lex_ok,
                          "pycparser": str(got)[:300], "intended": str(want)[:300]})
        if not indep_ok:
            m = minimal_failing(e, lambda u: not same_tree(c_parse_expr(cx.cf[sc](u)), lnodes_tuple(u, "c", sc)))
            key = cause_key("c", m)
            vd = value_differs(e, got, "c", sc, cx.rng) if got[0] != "error" else None
            cx.violation(key, f"C text `{real[:80]}` does not parse back to the AST ({'value changes' if vd else 'parse error or other tree'})",
                         {"lang": "C", "scalar": sc, "tree": sx, "text": real, "minimal": export.expr(m),
                          "minimal_text": cx.cf[sc](m), "pycparser": str(got)[:300], "intended": str(want)[:300],
                          "value_differs": vd, "operand_kinds_match": bool(wt), "lean_WT": model_wt})
        else:
            if sc == "float64":
                for tv, xv in lits:
                    u = ulps_off(tv, xv)
                    cx.lit_count += 1
                    if u > cx.lit_worst[0]:
                        cx.lit_worst = (float(u), (str(xv), real[:60]))
                    if u > 1:
                        cx.lit_over += 1
                        cx.violation("literal:16-digits:>1ulp",
                                     f"literal {float(xv)!r} is printed as a text that reads back {float(u):.3g} ulp off",
                                     {"value": float(xv).hex(), "text": real, "ulps": float(u), "tree": sx})
    if not do_py:
        return
    st, real = _real_fmt(cx.nf["float64"], e)
    r = d.ask(f"(exprPy {sx})")
    chk.case("expr-py", key=f"{label}:py" if not label.startswith("rand") else None)
    model_raises = r[6] == "true"
    if st == "raise":
        if not model_raises:
            chk.disagree("numba formatter raises, model does not", {"tree": sx, "impl": real})
        return
    in_sync = not (model_raises or r[1] != real)
    if not in_sync:  # the search below runs on the REAL text regardless
        chk.disagree("numba formatter text: real vs Lean model", {"tree": sx, "impl": real, "model": r[1], "model_raises": model_raises})
    rt_ok = r[3] == "true"
    wf_py = len(r) > 7 and r[7] == "true"
    cx.cover("expr-py", wf_py, label)
    if wf_py and not (r[2] == "true" and rt_ok):  # the theorems say this cannot happen
        chk.disagree("evaluation contradicts no_token_fusion_py / roundtrip_Py (wfPy holds, the model round trip fails)",
                     {"tree": sx, "lean_lex_ok": r[2], "lean_roundtrip": rt_ok})
    want = lnodes_tuple(e, "py")
    got = py_parse_expr(real)
    lits = []
    indep_ok = same_tree(got, want, lits)
    if in_sync and indep_ok != rt_ok:
        chk.disagree("Lean Python lexer+parser vs ast.parse (round-trip verdict)",
                     {"tree": sx, "text": real, "lean_roundtrip": rt_ok, "ast": str(got)[:300], "intended": str(want)[:300]})
    if not indep_ok:
        nf = cx.nf["float64"]

        def fails(u):
            try:
                return not same_tree(py_parse_expr(nf(u)), lnodes_tuple(u, "py"))
            except Exception:
                return True
        m = minimal_failing(e, fails)
        key = cause_key("py", m)
        vd = value_differs(e, got, "py", "float64", cx.rng) if got[0] != "error" else None
        cx.violation(key, f"numba text `{real[:80]}` does not parse back to the AST ({'value changes' if vd else 'syntax error or other tree'})",
                     {"lang": "numba", "tree": sx, "text": real, "minimal": export.expr(m), "minimal_text": nf(m),
                      "ast": str(got)[:300], "intended": str(want)[:300], "value_differs": vd,
                      "operand_kinds_match": bool(wt), "lean_WT": {"wellformed_wfC": r[4] == "true", "kind": r[5]}})
    else:
        for tv, xv in lits:
            if tv != xv:
                cx.violation("literal:numba:not-exact", f"numba literal {float(xv)!r} does not read back exactly",
                             {"value": float(xv).hex(), "text": real, "tree": sx})


def stmt_children(s):
    t = type(s)
    if t is L.Statement:
        return [s.expr] if isinstance(s.expr, L.LNode) and not isinstance(s.expr, L.LExpr) else []
    if t is L.Section:
        return list(s.declarations) + list(s.statements)
    if t is L.StatementList:
        return list(s.statements)
    if t is L.ForRange:
        return list(s.body.statements)
    return []


def stmt_exprs(s):
    t = type(s)
    if t is L.Statement:
        return stmt_exprs(s.expr)
    if t in (L.Assign, L.AssignAdd):
        return [s.lhs, s.rhs]
    if t is L.VariableDecl:
        return [s.value] if s.value is not None else []
    if t is L.ForRange:
        return [s.begin, s.end]
    return []


def minimal_failing_stmt(s, fails):
    for c in stmt_children(s):
        try:
            bad = fails(c)
        except Exception:
            bad = True
        if bad:
            return minimal_failing_stmt(c, fails)
    return s


def stmt_cause(lang, s, got):
    msg = str(got)[:200]
    if lang == "py" and isinstance(s, L.ArrayDecl) and s.symbol.dtype in (INT, BOOL):
        return "fmt:py:arraydecl-int-bool-dtype-name"
    if lang == "py" and isinstance(s, L.ForRange) and "expected an indented block" in msg:
        return "fmt:py:loop-without-statements"
    if isinstance(s, L.Comment) and "\n" in s.comment:
        return f"fmt:{lang}:comment-with-newline"
    if lang == "py" and isinstance(s, L.ArrayDecl) and "np.int" in msg:
        return "fmt:py:arraydecl-sizes-numpy-int-repr"
    return f"fmt:{lang}:stmt:{type(s).__name__}"


def check_stmt(cx, label, s, scalars, do_py=True, localise=True):
    """One statement: correspondence (exact text) + independent parse + Lean token/parse check.
    Returns True if everything agreed."""
    chk, d = cx.chk, cx.d
    try:
        sx = stmt_sexp(s)
    except export.ExportError:
        cx.unrepresentable += 1
        return True
    if stmt_has_negzero(s):
        cx.negzero_skipped += 1
        return True
    allok = True
    for lang, scs in (("c", scalars), ("py", scalars[:1] if do_py else [])):
        for sc in scs:
            fm = cx.cf[sc] if lang == "c" else cx.nf[sc]
            st, real = _real_fmt(fm, s)
            r = d.ask(f"({'stmtC' if lang == 'c' else 'stmtPy'} {sc} {sx})")
            chk.case(f"stmt-{lang}", key=f"{label}:{lang}:{sc}" if label else None)
            if st == "raise" or r[0] == "raise":
                if (st == "raise") != (r[0] == "raise"):
                    chk.disagree(f"{lang} formatter raising: real vs model", {"stmt": sx[:400], "scalar": sc, "impl": real[:200], "model": str(r)[:200]})
                    allok = False
                continue
            in_sync = r[1] == real
            if not in_sync:  # report the correspondence break (localised); the search below runs on the REAL text regardless
                allok = False
                sub_bad = []
                if localise and isinstance(s, (L.StatementList, L.Section, L.ForRange)):
                    subs = list(getattr(s, "statements", [])) + list(getattr(s, "declarations", []))
                    if isinstance(s, L.ForRange):
                        subs = list(s.body.statements)
                    sub_bad = [b for b in subs if not check_stmt(cx, None, b, [sc], do_py=(lang == "py"), localise=True)]
                if not sub_bad:
                    k = next((n for n, (a, b) in enumerate(zip(real, r[1])) if a != b), min(len(real), len(r[1])))
                    chk.disagree(f"{lang} formatter statement text: real vs Lean model",
                                 {"stmt": sx[:600], "scalar": sc, "at": k, "impl": real[max(0, k - 60):k + 60], "model": r[1][max(0, k - 60):k + 60]})
            tok_ok, parse_ok = r[2] == "true", r[3] == "true"
            wf_s = len(r) > 4 and r[4] == "true"
            cx.cover(f"stmt-{lang}", wf_s, label)
            if wf_s and not (tok_ok and parse_ok):  # the theorems say this cannot happen
                chk.disagree(f"evaluation contradicts roundtrip_stmt_{'C' if lang == 'c' else 'Py'} (well-formed statement, the model round trip fails)",
                             {"stmt": sx[:400], "scalar": sc, "lean_tokens_ok": tok_ok, "lean_parse_ok": parse_ok})
            want = lstmt_tuples(s, lang, sc)
            got = c_parse_stmts(real) if lang == "c" else py_parse_stmts(real)
            lits = []
            indep_ok = same_tree(tuple(got), tuple(want), lits)
            if in_sync and indep_ok != (tok_ok and parse_ok):
                chk.disagree(f"Lean {lang} statement lexer/parser vs independent parser (verdict)",
                             {"stmt": sx[:400], "scalar": sc, "text": real[:300], "lean_tokens_ok": tok_ok, "lean_parse_ok": parse_ok,
                              "independent": str(got)[:300], "intended": str(want)[:300]})
                allok = False
            if not indep_ok:
                allok = False

                def sfails(u, lang=lang, sc=sc, fm=fm):
                    g = c_parse_stmts(fm(u)) if lang == "c" else py_parse_stmts(fm(u))
                    return not same_tree(tuple(g), tuple(lstmt_tuples(u, lang, sc)))
                ms = minimal_failing_stmt(s, sfails)
                key = stmt_cause(lang, ms, c_parse_stmts(fm(ms)) if lang == "c" else py_parse_stmts(fm(ms)))
                # an expression inside the minimal statement?
                for e in stmt_exprs(ms):
                    try:
                        if lang == "c":
                            bad = not same_tree(c_parse_expr(fm(e)), lnodes_tuple(e, "c", sc))
                        else:
                            bad = not same_tree(py_parse_expr(fm(e)), lnodes_tuple(e, "py"))
                    except Exception:
                        bad = True
                    if bad:
                        if lang == "c":
                            me = minimal_failing(e, lambda u: not same_tree(c_parse_expr(fm(u)), lnodes_tuple(u, "c", sc)))
                        else:
                            me = minimal_failing(e, lambda u: not same_tree(py_parse_expr(fm(u)), lnodes_tuple(u, "py")))
                        key = cause_key(lang, me)
                        break
                try:
                    ms_sexp, ms_text = stmt_sexp(ms)[:600], fm(ms)[:300]
                except Exception:
                    ms_sexp, ms_text = "?", "?"
                cx.violation(key,
                             f"{'C' if lang == 'c' else 'numba'} statement text does not parse back to the statement tree",
                             {"lang": lang, "scalar": sc, "where": label, "minimal_stmt": ms_sexp, "minimal_text": ms_text,
                              "stmt": sx[:800], "text": real[:400], "independent": str(got)[:300], "intended": str(want)[:300]})
            elif lang == "c" and sc == "float64":
                for tv, xv in lits:
                    u = ulps_off(tv, xv)
                    cx.lit_count += 1
                    if u > cx.lit_worst[0]:
                        cx.lit_worst = (float(u), (str(float(xv)), label))
                    if u > 1:
                        cx.lit_over += 1
                        cx.violation("literal:16-digits:>1ulp",
                                     f"literal {float(xv)!r} is printed as a text that reads back {float(u):.3g} ulp off",
                                     {"value": float(xv).hex(), "ulps": float(u), "where": label})
    return allok


def synthetic_statements():
    """Every statement form, incl. the corners of Section / ForRange / ArrayDecl / Comment."""
    s = _syms()
    x, y, i, j, T, U = s["x"], s["y"], s["i"], s["j"], s["T"], s["U"]
    A = L.Symbol("A", SCALAR)
    out = []
    asg = L.Assign(x, L.Add(y, L.LiteralFloat(1.5)))
    acc = L.AssignAdd(A[L.MultiIndex([i, j], [3, 4])], L.Mul(x, T[i]))
    out.append(("assign", asg))
    out.append(("assignadd", acc))
    out.append(("vdecl:real", L.VariableDecl(L.Symbol("v", REAL), L.Div(x, L.LiteralFloat(-2.0)))))
    out.append(("vdecl:scalar", L.VariableDecl(L.Symbol("w", SCALAR), L.LiteralFloat(complex(1.0, -0.5)))))
    out.append(("vdecl:int", L.VariableDecl(L.Symbol("k", INT), L.Add(i, L.LiteralInt(1)))))
    out.append(("vdecl:bool", L.VariableDecl(L.Symbol("c", BOOL), L.LT(x, y))))
    out.append(("adecl:none1", L.ArrayDecl(L.Symbol("t1", REAL), sizes=(3,))))
    out.append(("adecl:none2", L.ArrayDecl(L.Symbol("t2", SCALAR), sizes=(2, 3))))
    out.append(("adecl:1d", L.ArrayDecl(L.Symbol("t3", REAL), values=np.array([1.0, -2.5, 1e-05, 1.0 / 3.0]), const=True)))
    out.append(("adecl:2d", L.ArrayDecl(L.Symbol("t4", REAL), values=np.array([[1.0, 2.0, 3.0], [4.0, 5.5, -6.0]]), const=True)))
    out.append(("adecl:3d", L.ArrayDecl(L.Symbol("t5", SCALAR), values=np.arange(12.0).reshape(2, 3, 2) / 7.0, const=False)))
    out.append(("adecl:4d", L.ArrayDecl(L.Symbol("t6", REAL), values=np.arange(8.0).reshape(1, 2, 2, 2) - 3.25, const=True)))
    out.append(("adecl:single", L.ArrayDecl(L.Symbol("t7", REAL), sizes=(4,), values=np.array([0.0]))))
    out.append(("adecl:single2", L.ArrayDecl(L.Symbol("t8", REAL), sizes=(1,), values=np.array([2.5]), const=True)))
    out.append(("adecl:complex", L.ArrayDecl(L.Symbol("t9", SCALAR), values=np.array([1 + 2j, -0.5j, 3.0 + 0j]), const=True)))
    out.append(("adecl:intvals", L.ArrayDecl(L.Symbol("t10", REAL), values=np.array([1, -2, 3]), const=True)))
    out.append(("adecl:intdtype", L.ArrayDecl(L.Symbol("t11", INT), values=np.array([1, 2, 3]), const=True)))
    out.append(("adecl:booldtype", L.ArrayDecl(L.Symbol("t12", BOOL), sizes=(2,))))
    out.append(("comment", L.Comment("a remark, with punctuation: a*b /* x */")))
    out.append(("comment:newline", L.Comment("two\nlines")))
    out.append(("for:simple", L.ForRange(i, 0, 3, [acc])))
    out.append(("for:bounds", L.ForRange(i, L.Add(j, L.LiteralInt(1)), L.Mul(L.LiteralInt(2), j), [asg, acc])))
    out.append(("for:nested", L.ForRange(i, 0, 3, [L.ForRange(j, 0, 4, [acc, L.Comment("inner")]), asg])))
    out.append(("for:empty", L.ForRange(i, 0, 3, [])))
    out.append(("for:comment-only", L.ForRange(i, 0, 3, [L.Comment("nothing")])))
    out.append(("for:with-table", L.ForRange(i, 0, 2, [L.ArrayDecl(L.Symbol("tt", REAL), values=np.array([[1.0, 2.0], [3.0, 4.0]]), const=True), acc])))
    out.append(("block", L.StatementList([asg, L.Comment("c"), acc])))
    out.append(("block:empty", L.StatementList([])))
    dec = L.VariableDecl(L.Symbol("v", REAL), L.LiteralFloat(0.0))
    out.append(("section", L.Section("Sec 1", [L.ForRange(i, 0, 3, [L.AssignAdd(L.Symbol("v", REAL), T[i])])], [dec], input=[T, x], output=[y])))
    out.append(("section:nostmts", L.Section("decls only", [], [dec], input=[x])))
    out.append(("section:nodecls", L.Section("stmts only", [asg, acc], [], input=[y, x], output=[A])))
    out.append(("section:nested", L.Section("outer", [L.ForRange(i, 0, 2, [L.Section("inner", [acc], [dec], input=[T])])], [], input=[T])))
    out.append(("section:table", L.Section("tab", [acc], [L.ArrayDecl(L.Symbol("tt", REAL), values=np.array([[1.0, 2.0], [3.0, 4.0]]), const=True)])))
    return out


def number_samples(rng, n):
    """Seeded floats: random bit patterns, powers of two, subnormals, integers, neighbours of 10^k."""
    import struct
    xs = []
    for k in range(-1074, 1024, 7):
        xs.append(math.ldexp(1.0, k))
    for k in range(-22, 23):
        v = float(10.0**k)
        xs += [v, np.nextafter(v, 0.0), np.nextafter(v, np.inf), -v]
    xs += [float(m) for m in (0, 1, 2, 3, 10, 123, 1000, 2**53, 2**53 + 2, 9007199254740993, 10**15, 10**16, 10**17, 9999999999999999, 999999999999999)]
    xs += [0.1, 0.2, 0.3, 0.1 + 0.2, 1.0 + 2.0**-51, 1.0 + 2.0**-52, 2.0**-44, 5e-324, 1.7976931348623157e308, 2.2250738585072014e-308,
           9.5, 0.95, 9.999999999999999e22, 1e23, 8.41e21, 2.5, 0.5, 0.25, 1.5e-323, 4.35, 0.285, 1.005, 5e22, 2.675]
    while len(xs) < n:
        r = rng.random()
        if r < 0.45:
            bits = rng.getrandbits(64)
            v = struct.unpack("<d", struct.pack("<Q", bits))[0]
            if not math.isfinite(v):
                continue
        elif r < 0.6:
            v = rng.uniform(-10, 10)
        elif r < 0.7:
            v = float(rng.randrange(-10**6, 10**6))
        elif r < 0.8:
            v = rng.randrange(1, 10**4) / 10.0 ** rng.randrange(0, 8)
        elif r < 0.9:
            v = math.ldexp(rng.getrandbits(52), -1074)  # subnormal
        else:
            k = rng.randrange(-300, 300)
            v = float(f"{rng.randrange(1, 10**rng.randrange(1, 17))}e{k}")
        xs.append(v)
    return [float(x) for x in xs if math.isfinite(x) and not (x == 0 and math.copysign(1.0, x) < 0)]


def check_numbers(cx, n):
    chk, d = cx.chk, cx.d
    rng = random.Random(77 + chk.seed)
    worst = 0.0
    over1 = 0
    t0 = time.time()
    for x in number_samples(rng, n):
        num, den = x.as_integer_ratio()
        rat = f"{num}/{den}" if den != 1 else str(num)
        py16, pyr = f"{x:.16}", repr(x)
        m16, mr, mv, mvr = d.ask(f"(numcheck {rat})")
        if Fraction(mvr) != Fraction(pyr):
            chk.disagree("value-level literal: litValueR x vs the value of Python's repr(x) text",
                         {"x": x.hex(), "python_text": pyr, "model_value": mvr})
        if Fraction(mv) != Fraction(py16):
            chk.disagree("value-level literal: litValue 16 x vs the value of Python's f'{x:.16}' text",
                         {"x": x.hex(), "python_text": py16, "model_value": mv})
        chk.case("number", key=f"16:{py16}" if ("e" in py16 or len(py16) > 17) else None)
        if m16 != py16:
            chk.disagree("number printing f'{x:.16}': Python vs Lean fmtFloat16", {"x": x.hex(), "python": py16, "model": m16})
        if mr != pyr:
            chk.disagree("number printing repr(x): Python vs Lean reprFloat", {"x": x.hex(), "python": pyr, "model": mr})
        if str(np.float64(x)) != pyr:
            chk.disagree("str(numpy.float64) differs from repr(float) (the numba model assumes they agree)", {"x": x.hex(), "numpy": str(np.float64(x)), "python": pyr})
        # reading: readNum vs Fraction, round64 vs float()
        rd = d.ask(f"(readcheck {q(py16)})")
        fr = Fraction(py16)
        back = float(py16)
        if rd[0] != "ok" or Fraction(rd[1]) != fr:
            chk.disagree("readNum vs fractions.Fraction on the printed text", {"text": py16, "model": rd})
        elif math.isfinite(back) and Fraction(rd[2]) != Fraction(back):
            chk.disagree("round64 vs float() on a decimal", {"text": py16, "python": back.hex(), "model": rd[2]})
        # the property's own oracle on the REAL formatters: how far is the literal a compiler / Python reads?
        ctext = cx.cf["float64"](L.LiteralFloat(x))
        ptext = cx.nf["float64"](L.LiteralFloat(x))
        try:
            cback = float(ctext)
        except ValueError:
            cback = float("nan")
        if x != 0:
            u = (abs(Fraction(cback) - Fraction(x)) / Fraction(math.ulp(x))) if math.isfinite(cback) else Fraction(10**6)
            worst = max(worst, float(u))
            if u > 1:
                over1 += 1
                cx.violation("literal:16-digits:>1ulp", f"the C formatter prints {x!r} as '{ctext}', which reads back {float(u):.3g} ulp off",
                             {"value": x.hex(), "text": ctext, "ulps": float(u)})
        try:
            pback = float(ptext)
        except ValueError:
            pback = float("nan")
        if pback != x:
            cx.violation("literal:numba:not-exact", f"the numba formatter prints {x!r} as '{ptext}', which does not read back", {"value": x.hex(), "text": ptext})
    chk.notes["numbers"] = {"samples": n, "worst_ulps_c_literal": worst, "over_1ulp": over1, "seconds": round(time.time() - t0, 1)}


def confirm_with_compiler(cx):
    """Replay the token-fusion witness `Neg(LiteralFloat(-2.0))` on the real formatter and a real C compiler:
    the text must compile and evaluate to 2.0 (`--2.0` does not compile: "lvalue required as decrement operand")."""
    cc = shutil.which("gcc") or shutil.which("cc")
    e = L.Neg(L.LiteralFloat(-2.0))
    text = cx.cf["float64"](e)
    res = {"text": text, "compiler": cc}
    if cc:
        with tempfile.TemporaryDirectory(prefix="c16_") as td:
            src = os.path.join(td, "w.c")
            with open(src, "w") as f:
                f.write(f"#include <stdio.h>\nint main(void) {{ double v = {text}; printf(\"%.17g\\n\", v); return 0; }}\n")
            exe = os.path.join(td, "w")
            p = subprocess.run([cc, "-std=c17", src, "-o", exe], capture_output=True, text=True)
            res["rc"] = p.returncode
            res["stderr"] = p.stderr.strip().splitlines()[:3]
            if p.returncode == 0:
                r = subprocess.run([exe], capture_output=True, text=True)
                res["value"] = r.stdout.strip()
    cx.chk.notes["compiler_confirmation_neg_of_negative_literal"] = res
    return res


def kernel_statements(ast):
    """Top-level statements of a kernel AST."""
    if isinstance(ast, L.StatementList):
        return list(ast.statements)
    if isinstance(ast, list):
        return list(ast)
    return [ast]


def run(chk):
    chk.rule = ("expression trees: ALL (parent class x child variant x operand position) depth-2 trees "
                "(key = parent[pos]<-child:formatter), plus seeded random well-typed trees of depth <= 6; "
                "statements: every statement form incl. corner cases (key = form:formatter:dtype) and every top-level "
                "statement of every corpus kernel; numbers: seeded floats (key = those printed in exponent form or with > 16 chars)")
    chk.trusted += [
        "harness/extract_prec.py (class attributes, math_table, function_map -> Generated/Precedence.lean)",
        "the C and Python grammar fragments of Lex/ParseC/ParsePy.lean are hand-written from the standards; they are "
        "validated against pycparser and Python's ast on every generated tree of this run",
        "pycparser and CPython's ast/float()/repr as independent oracles; gcc for the token-fusion witness",
        "text->token step of statements (lexC (fmtStmtC s) = tokStmtC s) is checked by execution per statement, not proved",
    ]
    chk.assumptions += [
        "literal accuracy is stated at the value level: litValueR x (the decimal repr(x) prints, found by the digit search) and "
        "round64 on exact rationals; the digit-string rendering/reading (reprFloat/readNum) is tied by execution on the samples of this run",
        "round64 ignores overflow (exponent range unbounded above); NaN, infinities and -0.0 are outside the exact-rational AST",
        "WT = structural well-formedness (identifiers, non-empty n-ary nodes and lists) + the typing discipline of "
        "ufl_to_lnodes; roundtrip_C needs only well-formedness",
    ]
    chk.notes["precedence_regenerated"] = extract_prec.regenerate()
    chk.lean("FfcxProofs.C16", THEOREMS, extra_files=[lean.LEAN / f for f in HELPER_FILES])

    quick = chk.tier != "thorough"
    t_start = time.time()
    with lean.Driver("driver_fmt") as d:
        cx = Ctx(chk, d)
        # ---- expressions: exhaustive depth 2
        t0 = time.time()
        trees = depth2_trees()
        for label, wt, e in trees:
            check_expr(cx, label, wt, e, SCALARS)
        chk.notes["depth2"] = {"trees": len(trees), "seconds": round(time.time() - t0, 1)}
        # ---- expressions: random WT
        t0 = time.time()
        rng = random.Random(4242 + chk.seed)
        nrand = 2000 if quick else 50000
        for k in range(nrand):
            kind = "c" if rng.random() < 0.15 else "a"
            e = random_wt(rng, rng.randrange(1, 7), kind)
            check_expr(cx, "rand", True, e, [SCALARS[k % 4]] if quick else [SCALARS[k % 4], SCALARS[(k + 1) % 4]])
        chk.notes["random"] = {"trees": nrand, "seconds": round(time.time() - t0, 1)}
        # ---- statements: synthetic forms
        for label, s in synthetic_statements():
            check_stmt(cx, label, s, SCALARS)
        # ---- numbers
        check_numbers(cx, 5200 if quick else 40000)
        # ---- real kernels
        t0 = time.time()
        if quick:
            # a fixed list (deterministic under load): the two demos with integer tables / every math
            # function first, then hand-written forms of every integral type, expressions, one complex form
            entries = [e for e in corpus.demos() if e.name in ("demo_CellGeometry", "demo_MathFunctions")]
            entries += corpus.fixed()[:24] + corpus.expressions()[:5] + corpus.complex_forms()[:1]
            entries += corpus.generated(chk.seed, 3)
        else:
            entries = corpus.fixed() + corpus.expressions() + corpus.complex_forms() + corpus.demos()
            entries += corpus.generated(chk.seed, 40)
        nk = ns = 0
        budget = 400 if quick else 1500  # safety net only; a truncation is recorded in the evidence
        for ent in entries:
            if time.time() - t0 > budget:
                chk.notes["kernels_truncated_at"] = ent.name
                break
            cplx = "complex" in ent.tags
            opts = pipeline.default_options(scalar_type="complex128") if cplx else None
            try:
                cases, _, _ = kernels.cases_for_entry(ent, opts)
            except KeyboardInterrupt:
                raise
            except BaseException as ex:  # (UFL's ArityMismatch is a BaseException) a form the pipeline cannot build is another property's business
                chk.notes.setdefault("kernel_build_errors", []).append(f"{ent.name}: {type(ex).__name__}")
                continue
            for cs in cases:
                nk += 1
                scal = ["complex128", "complex64"] if cplx else (["float64"] if quick else SCALARS)
                for k, s in enumerate(kernel_statements(cs.ast)):
                    ns += 1
                    check_stmt(cx, f"{cs.name}#{k}", s, scal)
        chk.programs = nk
        chk.notes["kernels"] = {"kernels": nk, "statements": ns, "seconds": round(time.time() - t0, 1)}
        chk.notes["literals"] = {"checked": cx.lit_count, "over_1ulp": cx.lit_over, "worst": cx.lit_worst}
        chk.notes["violations_seen_in_generated_kernels"] = cx.in_kernels
        chk.notes["skipped_negative_zero"] = cx.negzero_skipped
        chk.notes["c_formatter_raising_cases"] = cx.raising_c  # real raises <=> model raises, checked on each
        chk.notes["full_theorem_hypotheses"] = cx.coverage  # wfC / wfPy / wfS / wfSPy on every evaluated tree
        chk.notes["skipped_unrepresentable_initialiser"] = cx.unrepresentable
        res = confirm_with_compiler(cx)
        if res.get("compiler"):
            if res.get("text") == "--2.0" and res.get("rc", 1) == 0:
                chk.disagree("gcc accepted `--2.0`: the token-fusion reading of the C standard is wrong", res)
            elif res.get("text") != "--2.0" and (res.get("rc") != 0 or float(res.get("value", "nan")) != 2.0):
                cx.violation("fmt:c:neg-of-negative-literal", f"C text `{res.get('text')}` of Neg(LiteralFloat(-2.0)) does not compile to 2.0", res)
    chk.notes["search_seconds"] = round(time.time() - t_start, 1)
    chk.notes["exhaustive_part"] = "depth-2 parent/child/position trees are enumerated completely; deeper trees and kernels are sampled"
    if not quick:
        chk.leanchecker(["FfcxProofs.C16"])
