"""C07 — kernels accumulate into A and are pure functions of their inputs."""
import threading

import numpy as np

from .. import cjit, corpus, kernels, lean, pipeline

THEOREMS = [
    "Ffcx.LNodes.pure_accumulates", "Ffcx.LNodes.inputs_unchanged", "Ffcx.LNodes.call_shape",
    "Ffcx.LNodes.call_adds", "Ffcx.LNodes.pure_history", "Ffcx.LNodes.incrSum_perm",
    "Ffcx.LNodes.pure_interleave", "Ffcx.LNodes.disjoint_of_disjointB", "Ffcx.LNodes.interleave_seq",
    "Ffcx.LNodes.exec_commute",
]


def _entries(chk):
    ents = corpus.fixed() + corpus.expressions()
    if chk.tier == "thorough":
        ents += corpus.demos() + corpus.generated(chk.seed, 80)
    else:
        ents += corpus.generated(chk.seed, 8)
    return ents


def static_only_const(chk):
    """The C formatter must emit `static` exactly for const arrays: a non-const array with static storage
    would be mutable state shared between calls and threads (any size, any rank, any scalar type)."""
    import ffcx.codegeneration.lnodes as L
    from ffcx.codegeneration.C.formatter import Formatter
    for st in ("float64", "float32", "complex128"):
        f = Formatter(st)
        for shape in ((1,), (7,), (64,), (65,), (125,), (1000,), (20000,), (30, 40), (5, 5, 5, 9)):
            for dt in (L.DataType.SCALAR, L.DataType.REAL):
                sym = L.Symbol("temp_0", dt)
                for const in (False, True):
                    for vals in ([0], None) if not const else (np.zeros(shape),):
                        if vals is None:
                            txt = f(L.ArrayDecl(sym, sizes=shape))
                        else:
                            txt = f(L.ArrayDecl(sym, sizes=shape, values=vals, const=const))
                        chk.case("static_only_const", f"{st}:{shape}:{const}")
                        has_static = "static" in txt.split("=")[0]
                        if has_static != const:
                            chk.violation("impure:static-nonconst-array" if has_static else "impure:const-array-not-static",
                                          f"ArrayDecl(const={const}, shape={shape}) is formatted as `{txt.split('=')[0].strip()[:60]}`",
                                          {"scalar_type": st, "shape": list(shape), "const": const, "text": txt[:120]})


def certificates(chk, d, ents):
    """pureKernel on every kernel AST (with and without the optimiser)."""
    from .c17 import _NoOpt
    from .c10 import tp_entries
    tps = {e.name for e in tp_entries()}
    failed = []
    for e in list(ents) + [t for t in tp_entries() if t.name.endswith(("_1", "_2"))]:
        variants = []
        try:
            if e.name in tps:
                variants.append(("sumfact", kernels.cases_for_entry(e, pipeline.default_options(sum_factorization=True))[0]))
            variants.append(("opt", kernels.cases_for_entry(e)[0]))
            with _NoOpt():
                variants.append(("noopt", kernels.cases_for_entry(e)[0]))
        except Exception as ex:
            chk.notes.setdefault("skipped", []).append(f"{e.name}: {type(ex).__name__}: {str(ex)[:80]}")
            continue
        for tag, cases in variants:
            for c in cases:
                r = d.ask(f"(pure {c.ast_sexp})")
                chk.programs += 1
                chk.case("certificate", f"{c.name}:{tag}",
                         sample={"kernel": c.name, "variant": tag, "reply": r[:3]} if len(chk.samples) < 3 else None)
                t = d.ask(f"(threads {c.ast_sexp})")
                if t[:2] != ["ok", "true"]:
                    chk.disagree("thread-disjointness certificate (pure_interleave) fails on a generated kernel",
                                 {"kernel": c.name, "variant": tag, "reply": t})
                if r[0] != "ok" or r[1] != "true":
                    # the certificate failed: the theorems no longer apply to this kernel. Search for a
                    # concrete failing input on the real kernel happens in c_search(); record the broken tie.
                    chk.disagree("pureKernel certificate fails on a generated kernel",
                                 {"kernel": c.name, "variant": tag, "reply": r})
                    if tag != "noopt" and not any(f[0] is e and f[1] == (tag == "sumfact") for f in failed):
                        failed.append((e, tag == "sumfact"))
    return failed


def _c_worker_factory(jobs, seed, ncalls):
    def work(i):
        from .. import numeric
        e, opts = jobs[i]
        rng = np.random.default_rng(seed * 7919 + i)
        out = {"name": e.name + ("" if not opts else ":" + ",".join(f"{k}={v}" for k, v in sorted(opts.items()))), "kernels": 0, "bad": []}
        objs, cases, comp, mod = numeric.build(e, opts)
        for c in cases:
            ko = kernels.compiled_kernel(comp, c)
            out["kernels"] += 1
            for rep in range(ncalls):
                inp = kernels.random_inputs(c, rng, A0="random", dyadic=False)
                w, cc, x = inp["w"].copy(), inp["c"].copy(), inp["coordinate_dofs"].copy()
                ent, prm = list(inp["entity_local_index"]), list(inp["quadrature_permutation"])
                pad = lambda a: np.concatenate([a, [0.0]]) if a.size == 0 else a
                A0 = inp["A"].copy()
                w_, c_, x_ = pad(w).copy(), pad(cc).copy(), pad(x).copy()
                ent_ = np.asarray(ent or [0], dtype=np.intc)
                prm_ = np.asarray(prm or [0], dtype=np.uint8)

                def call(A):
                    pipeline.call_kernel(mod, ko, "float64", A, w_, c_, x_, ent_, prm_)
                    return A
                # T from zero A, from random A, and from a second call on the result
                Tz = call(np.zeros_like(A0))
                Ar = call(A0.copy())
                scale = max(1.0, float(np.nanmax(np.abs(Tz))) if Tz.size and np.isfinite(Tz).any() else 1.0, float(np.abs(A0).max()) if A0.size else 1.0)
                if not np.allclose(Ar - A0, Tz, rtol=0, atol=1e-11 * scale, equal_nan=True):
                    out["bad"].append({"kernel": c.name, "what": "T depends on initial A", "maxdiff": float(np.abs(Ar - A0 - Tz).max())})
                A2 = call(Ar.copy())
                if not np.allclose(A2 - Ar, Tz, rtol=0, atol=1e-11 * scale, equal_nan=True):
                    out["bad"].append({"kernel": c.name, "what": "second call adds a different T (history dependence)", "maxdiff": float(np.abs(A2 - Ar - Tz).max())})
                if not (np.array_equal(w_, pad(w)) and np.array_equal(c_, pad(cc)) and np.array_equal(x_, pad(x))
                        and list(ent_) == (ent or [0]) and list(prm_) == (prm or [0])):
                    out["bad"].append({"kernel": c.name, "what": "an input buffer was written"})
                # threads on disjoint A, bitwise equal to sequential
                if rep == 0:
                    res = [np.zeros_like(A0) for _ in range(8)]
                    ths = [threading.Thread(target=call, args=(res[t],)) for t in range(8)]
                    [t.start() for t in ths]
                    [t.join() for t in ths]
                    if not all(np.array_equal(r, Tz, equal_nan=True) for r in res):
                        out["bad"].append({"kernel": c.name, "what": "concurrent calls on disjoint A differ from sequential"})
        return out
    return work


def c_search(chk, jobs, ncalls):
    work = _c_worker_factory(jobs, chk.seed, ncalls)
    res = cjit.parallel_map(work, list(range(len(jobs))))
    for i, (st, r) in sorted(res.items()):
        if st != "ok":
            chk.notes.setdefault("c_search_errors", []).append(f"{jobs[i][0].name}: {st}: {str(r)[:200]}")
            continue
        chk.case("c_kernel_calls", r["name"], n=max(1, r["kernels"] * ncalls))
        for b in r["bad"]:
            chk.violation(f"impure:{r['name']}:{b['what']}", b["what"], {"entry": r["name"], **b})


def run(chk):
    chk.rule = ("certificate: pureKernel evaluated by the Lean driver on every kernel AST of the corpus, optimised and "
                "unoptimised (distinct = kernel×variant). search: compiled C kernels called with random pre-filled A, "
                "zero A and twice in a row (T must be identical), inputs compared before/after, 8 threads on disjoint A.")
    chk.trusted += ["C memory model below statement granularity, `restrict`, the C compiler and cffi are outside the theorems (threaded runs only sample them)"]
    chk.assumptions += ["a C call starts with fresh automatic variables; static tables are const (formatter emits `static const` iff const=True: checked by C16's formatter correspondence)"]
    chk.lean("FfcxProofs.C07", THEOREMS)
    ents = _entries(chk)
    static_only_const(chk)
    with lean.Driver("driver") as d:
        failed = certificates(chk, d, ents)
    n = len(ents) if chk.tier == "thorough" else 14
    sel = ents[:n] if chk.tier == "thorough" else [e for e in ents if e.name in (
        "laplace_coef_tri_p2", "rhs_tri_p2", "functional_tri", "stokes_mixed", "ext_facet_tet", "int_facet_tri",
        "vertex_tri", "math_tri", "conditional_tri", "nonaffine_quad", "multi_rule", "prism", "expr_rank1", "expr_facet")]
    from .c10 import tp_entries
    tps = [t for t in tp_entries() if t.name.endswith(("_1", "_2"))]
    jobs = [(e, {}) for e in sel] + [(t, {"sum_factorization": True}) for t in (tps if chk.tier == "thorough" else tps[:3])]
    # kernels whose certificate failed are always searched, with the options they were generated with
    for e, sf in failed:
        o = {"sum_factorization": True} if sf else {}
        if not any(j[0].name == e.name and j[1] == o for j in jobs):
            jobs.append((e, o))
    c_search(chk, jobs, 3 if chk.tier == "thorough" else 2)
    if chk.tier == "thorough":
        chk.leanchecker(["FfcxProofs.C07"])
