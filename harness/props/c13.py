"""C13 — JIT signatures are stable and separating; object names are distinct valid identifiers.

 (a) Lean obligations (FfcxProofs.C13).
 (b) Correspondence: Python/NumPy printing vs the Lean printers, and the exact string handed to
     hashlib.sha1 inside ffcx.naming (captured by shimming `ffcx.naming.hashlib`) vs `encode`.
     The real jit.compile_forms / compile_expressions run up to the cache lookup (patched to stop
     there): no code generation and no C compiler is involved in computing names.
 (c) Stability search: the captured strings / names of the same requests in subprocesses with
     different PYTHONHASHSEED, creation orders and UFL counter offsets must be identical.
 (d) Separation search: request pairs that differ in exactly one ingredient must get different
     module names.
 (e) Distinctness search: all top-level names of generated multi-form / multi-integral modules are
     pairwise distinct valid C identifiers.
"""
import json
import os
import random
import re
import subprocess
import sys
from concurrent.futures import ThreadPoolExecutor
from pathlib import Path

import numpy as np

from .. import extract_names as X
from .. import lean

VERIF = Path(__file__).resolve().parent.parent.parent

THEOREMS = [
    "Ffcx.Naming.join_inj",
    "Ffcx.Naming.concat_fixed_inj",
    "Ffcx.Naming.tag_inj",
    "Ffcx.Naming.reprFlt_inj",
    "Ffcx.Naming.options_sorted_inj",
    "Ffcx.Naming.options_order_indep",
    "Ffcx.Naming.pointsKey_prefix",
    "Ffcx.Naming.encode_objs_tag_inj",
    "Ffcx.Naming.encode_inj",
    "Ffcx.Naming.encode_stable",
    "Ffcx.Naming.ident_valid",
    "Ffcx.Naming.alias_valid",
    "Ffcx.Naming.names_distinct",
    "Ffcx.Naming.integralPre_inj",
    "Ffcx.Naming.expressionPre_inj",
    "Ffcx.Naming.expression_names_distinct",
    "Ffcx.Naming.names_distinct_counterexample",
]

LEAN_FILES = [
    lean.LEAN / "FfcxProofs" / "Lemmas" / "Names.lean",
    lean.LEAN / "FfcxModel" / "Jit" / "Naming.lean",
    lean.LEAN / "DriverNames.lean",
]

U = X.sexp_str
DEC = X.sexp_unstr


# ------------------------------------------------------------------------------ generators
_ALPHA = "ab'\"\\\n\t\r\x01\x1f\x7f ;,()[]-O2=_Z"


def rstr(rng, maxlen=6):
    return "".join(rng.choice(_ALPHA) for _ in range(rng.randint(0, maxlen)))


_SPECIAL_FLOATS = [0.0, -0.0, 1.0, 1e-14, 1e-9, 1e-6, 1e16, 1e15, 9999999999999998.0, 123456789012345678.0, 0.0001,
                   0.00001, 1e22, 1e23, 5e-324, 1.7976931348623157e308, 0.1, 1 / 3, 2.5e-5, 1e100, 1e-100,
                   float("inf"), -float("inf"), float("nan")]


def rfloat(rng):
    c = rng.random()
    if c < 0.25:
        return rng.choice(_SPECIAL_FLOATS)
    if c < 0.6:
        return rng.uniform(-10, 10)
    if c < 0.8:
        return round(rng.uniform(-1000, 1000), rng.randint(0, 6))
    return rng.uniform(-1, 1) * 10 ** rng.randint(-25, 25)


def rscalar(rng):
    c = rng.randint(0, 5)
    if c == 0:
        return None
    if c == 1:
        return rng.random() < 0.5
    if c == 2:
        return rng.randint(-10 ** rng.randint(0, 20), 10 ** rng.randint(0, 20))
    if c == 3:
        return rfloat(rng)
    return rstr(rng)


def rpoints(rng, big_ok=True):
    """Random evaluation-point arrays, of several shapes, dtypes and magnitudes."""
    n = rng.choice([1, 1, 2, 3, 4, 7] + ([334, 501] if big_ok else []))
    d = rng.randint(1, 3)
    mode = rng.randint(0, 5)
    nice = [0.0, 0.25, 0.5, 1.0, 1 / 3, 2 / 3, 0.1, 0.2, 0.123456789, 0.001953125, 0.0029296875, 0.75, 0.6]
    if mode == 0:
        a = np.array([[rng.choice(nice) for _ in range(d)] for _ in range(n)], dtype=np.float64)
    elif mode == 1:
        a = np.array([[rng.uniform(0.001, 1) for _ in range(d)] for _ in range(n)])
    elif mode == 2:
        a = np.array([[round(rng.uniform(0.001, 1), rng.randint(1, 10)) for _ in range(d)] for _ in range(n)])
    elif mode == 3:
        a = np.array([[rng.uniform(-1, 1) * 10 ** rng.randint(-4, 2) for _ in range(d)] for _ in range(n)])
    elif mode == 4:
        a = np.array([[rng.choice([0.5, 0.25, 2 ** -9, 3 * 2 ** -10, 5 * 2 ** -12 + 2 ** -30, rng.uniform(0.01, 1)])
                       for _ in range(d)] for _ in range(n)])
    else:
        a = np.array([[rng.uniform(-2, 2) for _ in range(d)] for _ in range(n)])
    if rng.random() < 0.25:
        a = a.astype(np.float32)
    return a


def roptions(rng):
    """Random priority options for a JIT request (names only, so any value is fine)."""
    o = {}
    if rng.random() < 0.5:
        o["scalar_type"] = rng.choice(["float32", "float64", "complex64", "complex128"])
    if rng.random() < 0.3:
        o["table_rtol"] = rfloat(rng)
    if rng.random() < 0.3:
        o["table_atol"] = rng.choice([1e-9, 1e-12, 0.0, 1e-5])
    if rng.random() < 0.3:
        o["epsilon"] = rng.choice([1e-14, 1e-10, 2.5e-13])
    if rng.random() < 0.3:
        o["verbosity"] = rng.choice([10, 20, 30, 40])
    if rng.random() < 0.3:
        o["sum_factorization"] = rng.random() < 0.5
    if rng.random() < 0.2:
        o[rstr(rng, 4) or "x"] = rscalar(rng)
    if rng.random() < 0.1:
        o["scalar_type"] = np.float64  # a dtype-like object: enters as its repr
    return o


# ------------------------------------------------------------------------------ (b) correspondence
def corr_printers(chk, d, rng, n):
    for _ in range(n):
        v = rscalar(rng)
        got = DEC(d.ask(f"(reprscalar {X.sexp_scalar(X.scalar(v))})"))
        kind = type(v).__name__
        chk.case("repr-scalar", key=f"{kind}:{len(repr(v))}:{repr(v)[:1]}")
        if got != repr(v):
            chk.disagree("repr(scalar)", {"input": repr(v), "model": got, "impl": repr(v)})
        got = DEC(d.ask(f"(strscalar {X.sexp_scalar(X.scalar(v))})"))
        if got != str(v):
            chk.disagree("str(scalar)", {"input": repr(v), "model": got, "impl": str(v)})
    for _ in range(n // 5):
        o = {rstr(rng): rscalar(rng) for _ in range(rng.randint(0, 7))}
        got = DEC(d.ask("(optsig " + X.sexp_items(o) + ")"))
        import ffcx.codegeneration.jit as jit

        want = jit._compute_option_signature(o)
        chk.case("option-signature", key=f"n{len(o)}:{sorted(type(v).__name__ for v in o.values())}")
        if got != want:
            chk.disagree("_compute_option_signature", {"input": repr(o), "model": got, "impl": want})
        args = [rstr(rng) for _ in range(rng.randint(0, 3))]
        dbg = rng.random() < 0.5
        got = DEC(d.ask("(compsig " + X.sexp_compile(args, dbg) + ")"))
        want = jit._compilation_signature(args, dbg)
        chk.case("compilation-signature", key=f"n{len(args)}:{dbg}")
        if got != want:
            chk.disagree("_compilation_signature", {"input": [args, dbg], "model": got, "impl": want})
        parts = [rstr(rng) for _ in range(rng.randint(0, 4))]
        for cmd, fn in (("tuple", tuple), ("list", list)):
            # components are printed by Python, the composite by the model
            got = DEC(d.ask(f"({cmd} " + " ".join(U(repr(p)) for p in parts) + ")"))
            if got != repr(fn(parts)):
                chk.disagree(f"repr({cmd})", {"input": parts, "model": got, "impl": repr(fn(parts))})


def corr_pointskey(chk, d, rng, n):
    """dtype.str ++ str(shape) ++ digest: the model's `pointsKey` vs the text ffcx.naming builds."""
    import hashlib

    import ffcx.naming
    import ufl

    m, V = _tri()
    expr = ufl.grad(ufl.Coefficient(V))
    esig = X.expression_signature(expr)
    for _ in range(n):
        a = rpoints(rng)
        c = rng.random()
        if c < 0.15:
            a = np.asfortranarray(a)  # non C-contiguous input: ascontiguousarray copies
        elif c < 0.25:
            a = a[::-1]
        elif c < 0.3:
            a = a.reshape(-1)  # 1-D: shape prints as (n,)
        elif c < 0.35:
            a = (a * 8).astype(np.int64)
        pts = np.ascontiguousarray(a)
        want = f"{pts.dtype.str}{pts.shape}" + hashlib.sha1(pts.tobytes()).hexdigest()
        got = DEC(d.ask("(pointskey " + X.sexp_points(a) + ")"))
        chk.case("pointskey", key=f"{pts.dtype.str}:{pts.ndim}:{'big' if pts.size > 1000 else pts.shape[0]}:{a.flags['C_CONTIGUOUS']}")
        # what the REAL compute_signature puts into the hashed string, and which bytes it digests
        with X.CaptureSha1() as cap:
            ffcx.naming.compute_signature([(expr, a)], "t")
        real = cap.strings[-1].split(";")[0][len(esig):]
        if got != want or real != got or cap.blobs != [pts.tobytes()]:
            chk.disagree("points key", {"dtype": str(a.dtype), "shape": a.shape, "model": got, "impl": real, "harness": want})


def _model_tag_form(d, prefix, i):
    return DEC(d.ask(f"(formtag {U(prefix)} {i})"))


def corr_encode(chk, d, rng, entries, nopt):
    """Captured pre-hash strings of module + object names vs the model, per request."""
    import ffcx.options

    env = X.sexp_env()
    for e in entries:
        for k in range(nopt):
            objs = e.build()
            opts = roptions(rng) if k else {}
            opts.pop("part", None)
            args = [rstr(rng, 5) for _ in range(rng.randint(0, 2))] if k else []
            dbg = bool(k) and rng.random() < 0.5
            try:
                mname, onames, caps, objs2 = X.jit_names(objs, e.kind, opts, cffi_extra_compile_args=args, cffi_debug=dbg)
            except Exception as ex:  # sum_factorization etc. cannot fail here: names only
                chk.disagree("jit names raised", {"entry": e.name, "options": repr(opts), "error": repr(ex)})
                continue
            p = ffcx.options.get_options(opts)
            if e.kind == "form":
                sigs = [f.signature() for f in objs2]
                objs_s = "(forms " + " ".join(sigs) + ")"
                modelled = True
            else:
                parts, modelled = [], True
                for ex_, pts in objs2:
                    parts.append(f"({X.expression_signature(ex_)} {X.sexp_points(pts)})")
                objs_s = "(exprs " + " ".join(parts) + ")"
            req = f"(request {env} {objs_s} (opts {X.sexp_items(p)}) (comp {X.sexp_compile(args, dbg)}))"
            got = d.ask(req)
            chk.case("encode-module", key=f"{e.name}:{sorted(opts)}:{len(args)}:{dbg}" if modelled else None,
                     sample={"entry": e.name, "options": repr(opts), "prehash_tail": caps[0][-120:]} if k == 1 else None)
            if got == ["unbound"] or DEC(got) != caps[0]:
                chk.disagree("module pre-hash string", {"entry": e.name, "options": repr(opts), "args": args,
                                                         "model": str(got)[:300] if got == ["unbound"] else DEC(got)[-300:],
                                                         "impl": caps[0][-300:]})
            prefix = mname
            want_mod = ("libffcx_forms_" if e.kind == "form" else "libffcx_expressions_")
            import hashlib

            if mname != want_mod + hashlib.sha1(caps[0].encode()).hexdigest():
                chk.disagree("module name shape", {"entry": e.name, "name": mname})
            # object names
            for i, (oname, cap) in enumerate(zip(onames, caps[1:])):
                if e.kind == "form":
                    tag = _model_tag_form(d, prefix, i)
                    got = d.ask(f"(encode {env} (forms {sigs[i]}) {U(tag)})")
                    shape = "form_"
                else:
                    ex_, pts = objs2[i]
                    tag = DEC(d.ask(f"(exprtag {U(prefix)} {i})"))
                    got = d.ask(f"(encode {env} (exprs ({X.expression_signature(ex_)} {X.sexp_points(pts)})) {U(tag)})")
                    shape = "expression_"
                chk.case("encode-object", key=f"{e.name}:{i}" if k == 0 else None)
                if DEC(got) != cap:
                    chk.disagree("object pre-hash string", {"entry": e.name, "i": i, "model": DEC(got)[-200:], "impl": cap[-200:]})
                if oname != shape + hashlib.sha1(cap.encode()).hexdigest():
                    chk.disagree("object name shape", {"entry": e.name, "name": oname})


def corr_integral_tags(chk, d, entries):
    """compute_ir's integral names: captured strings vs integralTag / encode; factory names and
    identifier validity vs the model."""
    import hashlib

    import ffcx.options
    from ffcx.analysis import analyze_ufl_objects
    from ffcx.ir.representation import compute_ir

    env = X.sexp_env()
    opts = {k: v[1] for k, v in ffcx.options.FFCX_DEFAULT_OPTIONS.items()}
    for e in entries:
        forms = e.build()
        prefix = "libffcx_forms_" + "0" * 40
        with X.CaptureSha1() as cap:
            analysis = analyze_ufl_objects(forms, opts["scalar_type"])
            ir = compute_ir(analysis, {}, prefix, opts, False)
        caps = list(cap.strings)
        k = 0
        want = []
        for fi, fd in enumerate(analysis.form_data):
            sig = fd.original_form.signature()
            got = DEC(d.ask(f"(encode {env} (forms {sig}) {U(_model_tag_form(d, prefix, fi))})"))
            if got != caps[k]:
                chk.disagree("form pre-hash (compute_ir)", {"entry": e.name, "model": got[-200:], "impl": caps[k][-200:]})
            k += 1
            for itg in fd.integral_data:
                sub = " ".join(X.sexp_scalar(X.scalar(s if isinstance(s, str) else int(s))) for s in itg.subdomain_id)
                tag = DEC(d.ask(f"(integraltag {U(prefix)} {U(itg.integral_type)} {fi} ({sub}))"))
                got = DEC(d.ask(f"(encode {env} (forms {sig}) {U(tag)})"))
                chk.case("encode-integral", key=f"{e.name}:{fi}:{itg.integral_type}:{itg.subdomain_id}")
                if got != caps[k]:
                    chk.disagree("integral pre-hash (compute_ir)", {"entry": e.name, "tag": tag, "model": got[-200:], "impl": caps[k][-200:]})
                want.append("integral_" + hashlib.sha1(caps[k].encode()).hexdigest())
                k += 1
        names = [i.expression.name for i in ir.integrals]
        if sorted(set(names)) != sorted(set(want)):
            chk.disagree("integral name shape", {"entry": e.name, "names": names, "want": want})
        for n in names:
            for cell in ("triangle", "interval", "prism"):
                fac = DEC(d.ask(f"(factory {U(n)} {U(cell)})"))
                if fac != f"{n}_{cell}" or d.ask(f"(validident {U(fac)})") != "true":
                    chk.disagree("factory name", {"name": n, "cell": cell, "model": fac})


# ------------------------------------------------------------------------------ (c) stability
WORKER_ENTRIES_FORMS = ["mass_tri_p1", "laplace_coef_tri_p2", "stokes_mixed", "subdomains", "int_facet_tri",
                        "prism", "p2geom_tri", "math_tri"]
WORKER_ENTRIES_EXPRS = ["expr_grad_tri", "expr_rank1", "expr_facet", "c13_expr_parent_facet_mesh", "c13_expr_two_meshes_same_cel",
                        "c13_expr_three_meshes"]


def local_entries():
    """Expressions over SEVERAL meshes (the renumbering of domains in compute_signature): only their names are
    computed here, so they are not part of the shared numeric corpus."""
    import basix.ufl
    import numpy as np
    import ufl

    from .. import corpus

    def parent_facet():
        mesh = ufl.Mesh(basix.ufl.element("Lagrange", "triangle", 1, shape=(2,)))
        fmesh = ufl.Mesh(basix.ufl.element("Lagrange", "interval", 1, shape=(2,)))
        c = ufl.Coefficient(ufl.FunctionSpace(fmesh, basix.ufl.element("P", "interval", 1)))
        return [(c * ufl.FacetNormal(mesh), np.array([[0.3], [0.5], [0.8]]))]

    def same_cel(n):
        def b():
            cel = basix.ufl.element("Lagrange", "triangle", 1, shape=(2,))
            ms = [ufl.Mesh(cel) for _ in range(n)]
            fs = [ufl.Coefficient(ufl.FunctionSpace(m, basix.ufl.element("P", "triangle", 1 + k % 2))) for k, m in enumerate(ms)]
            e = fs[0]
            for f in fs[1:]:
                e = e * f
            return [(e + ufl.SpatialCoordinate(ms[-1])[0], np.array([[0.25, 0.25], [0.1, 0.6]]))]
        return b
    return [corpus.Entry("c13_expr_parent_facet_mesh", parent_facet, kind="expression"),
            corpus.Entry("c13_expr_two_meshes_same_cel", same_cel(2), kind="expression"),
            corpus.Entry("c13_expr_three_meshes", same_cel(3), kind="expression")]


def worker(spec_json):
    """Subprocess body: build the named corpus entries in the requested order/history and print the
    captured pre-hash strings and names as JSON."""
    spec = json.loads(spec_json)
    import basix.ufl
    import ufl

    from .. import corpus

    for i in range(spec.get("warmup", 0)):
        # unrelated objects: shift UFL's mesh / coefficient / constant / form counters
        cell = ["triangle", "interval", "tetrahedron"][i % 3]
        m = ufl.Mesh(basix.ufl.element("P", cell, 1, shape=({"interval": 1, "triangle": 2, "tetrahedron": 3}[cell],)))
        V = ufl.FunctionSpace(m, basix.ufl.element("P", cell, 1 + i % 2))
        f, c = ufl.Coefficient(V), ufl.Constant(m)
        (c * f * ufl.TestFunction(V) * ufl.dx).signature()
    byname = {e.name: e for e in corpus.fixed() + corpus.expressions() + local_entries()}
    names = [n for n in spec["entries"] if n in byname]
    if spec.get("order") == "rev":
        names = names[::-1]
    out = {}
    with X.hermetic_options():
        if spec.get("other_first"):
            # compile-name another request first (other options), then the real ones
            X.jit_names(byname[names[0]].build(), byname[names[0]].kind, {"scalar_type": "float32"})
        for n in names:
            e = byname[n]
            objs = e.build()
            mname, onames, caps, _ = X.jit_names(objs, e.kind, spec.get("options", {}),
                                                 cffi_extra_compile_args=spec.get("args", []))
            out[n] = {"module": mname, "objects": onames, "prehash": caps}
            if n in spec.get("deep", []):
                import ffcx.compiler
                import ffcx.options

                with X.CaptureSha1() as cap:
                    ffcx.compiler.compile_ufl_objects(objs, options=ffcx.options.get_options(spec.get("options", {})),
                                                      namespace=mname)
                out[n]["deep"] = list(cap.strings)
    sys.stdout.write("\n@@RESULT@@" + json.dumps(out) + "\n")


def _run_worker(spec, hashseed):
    env = dict(os.environ)
    env["PYTHONHASHSEED"] = str(hashseed)
    env["PYTHONPATH"] = str(VERIF) + os.pathsep + env.get("PYTHONPATH", "")
    env["PYTHONDONTWRITEBYTECODE"] = "1"
    p = subprocess.run(
        [sys.executable, "-c", "import sys; from harness.props.c13 import worker; worker(sys.argv[1])", json.dumps(spec)],
        capture_output=True, text=True, env=env, cwd=str(VERIF), timeout=900,
    )
    if "@@RESULT@@" not in p.stdout:
        raise RuntimeError(f"c13 worker failed (seed {hashseed}): {p.stderr[-2000:]}")
    return json.loads(p.stdout.split("@@RESULT@@", 1)[1])


def stability(chk, thorough):
    from .. import corpus as _corpus

    have = {e.name for e in _corpus.fixed() + _corpus.expressions() + local_entries()}
    entries = [n for n in WORKER_ENTRIES_FORMS + WORKER_ENTRIES_EXPRS if n in have]
    if len(entries) < 4:
        raise RuntimeError("corpus entries used by the C13 stability search disappeared")
    base = {"entries": entries, "deep": [n for n in ("subdomains", "expr_rank1") if n in entries], "options": {"scalar_type": "float64"}, "args": ["-O2"]}
    variants = [
        ("baseline", dict(base), 0),
        ("hashseed", dict(base), 1),
        ("reverse-order", dict(base, order="rev"), 2),
        ("counter-offset", dict(base, warmup=7), 3),
        ("other-request-first+offset+rev", dict(base, warmup=3, order="rev", other_first=True), 4),
        # UFL ids crossing a power of ten (repr-sorted ids flip there) and more hash seeds (set orders)
        ("counter-offset-9", dict(base, warmup=9), 5),
        ("counter-offset-99", dict(base, warmup=99), 6),
        ("hashseed7", dict(base), 7), ("hashseed8", dict(base), 8), ("hashseed9", dict(base, warmup=8), 9),
    ]
    if thorough:
        variants += [(f"hashseed{s}", dict(base, warmup=s % 5, order="rev" if s % 2 else "fwd"), s) for s in range(5, 21)]
    with ThreadPoolExecutor(max_workers=6) as ex:
        results = list(ex.map(lambda v: _run_worker(v[1], v[2]), variants))
    ref = results[0]
    for (vname, spec, seed), res in zip(variants[1:], results[1:]):
        for n in entries:
            chk.case("stability", key=f"{vname}:{n}")
            if res[n] != ref[n]:
                which = [k for k in ref[n] if res[n].get(k) != ref[n][k]]
                chk.violation(
                    key=f"sig:unstable:{n}",
                    what=f"names of request {n} differ between processes (variant {vname})",
                    payload={"entry": n, "variant": vname, "spec": spec, "hashseed": seed, "differs": which,
                             "baseline": ref[n], "variant_result": res[n]},
                )
    # same process, same request built twice (distinct Python objects, later counters)
    from .. import corpus

    byname = {e.name: e for e in corpus.fixed() + corpus.expressions() + local_entries()}
    with X.hermetic_options():
        for n in entries:
            e = byname[n]
            a = X.jit_names(e.build(), e.kind, base["options"], cffi_extra_compile_args=base["args"])[0]
            b = X.jit_names(e.build(), e.kind, base["options"], cffi_extra_compile_args=base["args"])[0]
            chk.case("stability-inprocess", key=n)
            if not (a == b == ref[n]["module"]):
                chk.violation(key=f"sig:unstable-inprocess:{n}",
                              what="same request built twice in this process / in a subprocess: different module names",
                              payload={"entry": n, "names": [a, b, ref[n]["module"]]})


# ------------------------------------------------------------------------------ (d) separation
def _tri():
    import basix.ufl
    import ufl

    m = ufl.Mesh(basix.ufl.element("P", "triangle", 1, shape=(2,)))
    V = ufl.FunctionSpace(m, basix.ufl.element("P", "triangle", 1))
    return m, V


def _code_of(objs, options=None, namespace="sep"):
    """Generated C source with every sha1 digest blanked (to compare kernels, not names)."""
    import ffcx.compiler
    import ffcx.options

    code, _ = ffcx.compiler.compile_ufl_objects(list(objs), options=ffcx.options.get_options(options or {}), namespace=namespace)
    return re.sub(r"[0-9a-f]{40}", "H", code[1])


def separation(chk, thorough):
    import ufl
    from ffcx.options import FFCX_DEFAULT_OPTIONS

    def form(scale=1.0, degree=None):
        m, V = _tri()
        u, v = ufl.TrialFunction(V), ufl.TestFunction(V)
        dx = ufl.dx(degree=degree) if degree is not None else ufl.dx
        return [scale * u * v * dx]

    def expr(pts):
        m, V = _tri()
        f = ufl.Coefficient(V)
        return [(ufl.grad(f) * f, pts)]

    def name(objs, kind="form", options=None, **kw):
        return X.jit_names(objs, kind, options or {}, **kw)[0]

    def check(key, what, n1, n2, payload, kernels_differ=True):
        chk.case("separation", key=key)
        if n1 == n2 and kernels_differ:
            chk.violation(key=key, what=what, payload=dict(payload, module_name=n1))

    # integrand, metadata
    check("sig:integrand", "different integrands share a module name", name(form(1.0)), name(form(2.0)), {"pair": "u*v*dx vs 2*u*v*dx"})
    check("sig:metadata-degree", "different quadrature degree shares a module name", name(form(1.0, 1)), name(form(1.0, 3)),
          {"pair": "dx(degree=1) vs dx(degree=3)"})
    check("sig:form-list-order", "[a, L] and [L, a] share a module name", name(form(1.0) + form(2.0)), name(form(2.0) + form(1.0)), {})
    # scalar type, every option, compile args, debug
    for k, (_t, default, _d, choices) in FFCX_DEFAULT_OPTIONS.items():
        if choices:
            other = [c for c in choices if c != default][0]
        elif isinstance(default, bool):
            other = not default
        elif isinstance(default, float):
            other = default * 10
        elif isinstance(default, int):
            other = default + 10
        else:
            other = "numba" if k == "language" else str(default) + "x"
        key = "sig:scalar-type" if k == "scalar_type" else f"sig:option:{k}"
        # the property requires separation only of requests that would generate different kernels: an option that leaves the
        # generated text (comments aside) unchanged for this form (verbosity, an inapplicable sum_factorization) may share a name
        def _nocomment(t):
            return "\n".join(l for l in str(t).splitlines() if not l.lstrip().startswith(("//", "#")))
        try:
            differ = _nocomment(_code_of(form(), {k: other})) != _nocomment(_code_of(form(), {}))
        except Exception:
            differ = True
        check(key, f"option {k}={default!r} and {other!r} share a module name", name(form(), options={}), name(form(), options={k: other}),
              {"option": k, "values": [repr(default), repr(other)], "generated_kernels_differ": differ}, kernels_differ=differ)
    check("sig:compile-args", "different cffi_extra_compile_args share a module name",
          name(form(), cffi_extra_compile_args=["-O2"]), name(form(), cffi_extra_compile_args=["-O3"]), {"args": [["-O2"], ["-O3"]]})
    check("sig:compile-args-split", "['-O2', '-g'] and ['-O2 -g'] share a module name",
          name(form(), cffi_extra_compile_args=["-O2", "-g"]), name(form(), cffi_extra_compile_args=["-O2 -g"]), {})
    check("sig:debug", "cffi_debug True/False share a module name", name(form(), cffi_debug=False), name(form(), cffi_debug=True), {})
    # evaluation points
    pA = np.array([[0.123456789, 0.5], [0.25, 0.25]])
    pB = np.array([[0.123456788, 0.5], [0.25, 0.25]])
    nA, nB = name(expr(pA), "expression"), name(expr(pB), "expression")
    differ = _code_of(expr(pA)) != _code_of(expr(pB))
    one_mod = X.jit_names(expr(pA) + expr(pB), "expression", {})
    check("sig:repr-points-9th-digit",
          "expressions whose evaluation points differ in the 9th significant digit share a module name (repr(points) keeps 8 digits)",
          nA, nB, {"points_a": pA.tolist(), "points_b": pB.tolist(), "repr_a": repr(pA), "repr_b": repr(pB),
                   "generated_kernels_differ": differ,
                   "same_module_object_names": one_mod[1],
                   "replay": "ffcx.codegeneration.jit.compile_expressions([(grad(f)*f, points)]) for both point sets"},
          kernels_differ=differ)
    big = np.zeros((501, 2))
    big[:, 0] = np.linspace(0.001, 0.999, 501)
    big[:, 1] = 0.25
    big2 = big.copy()
    big2[250, 1] = 0.5
    nA, nB = name(expr(big), "expression"), name(expr(big2), "expression")
    differ = True
    if thorough:
        differ = _code_of(expr(big)) != _code_of(expr(big2))
    check("sig:repr-points-elided",
          "expressions with > 1000 point coordinates that differ only in the part numpy's repr elides share a module name",
          nA, nB, {"shape": [501, 2], "differing_entry": [250, 1], "values": [0.25, 0.5], "repr_tail": repr(big)[-120:],
                   "generated_kernels_differ": differ}, kernels_differ=differ)
    q = np.array([[0.25, 0.5], [0.5, 0.25]])
    check("sig:points-dtype", "float64 and float32 points of equal value share a module name",
          name(expr(q), "expression"), name(expr(q.astype(np.float32)), "expression"), {"points": q.tolist()})


# ------------------------------------------------------------------------------ (e) distinct names
def _module_names(objs, options=None, namespace="libffcx_forms_" + "a" * 40):
    import ffcx.compiler
    import ffcx.options

    code, _ = ffcx.compiler.compile_ufl_objects(list(objs), options=ffcx.options.get_options(options or {}), namespace=namespace)
    defs = X.c_defined(code[1])
    return [n for n, _st, _t in defs], X.c_declared(code[0])


def distinct_names(chk, thorough):
    import basix.ufl
    import ufl

    from .. import corpus

    byname = {e.name: e for e in corpus.fixed() + corpus.expressions()}
    modules = []
    for n in ["subdomains", "multi_rule", "prism", "stokes_mixed", "int_facet_tri"] + (["geometry_tet", "p2geom_tri", "ext_facet_quad"] if thorough else []):
        if n in byname:
            modules.append((n, byname[n].build, None))

    def cat(*ns):
        return lambda: [o for n in ns if n in byname for o in byname[n].build()]

    modules.append(("three-forms", cat("laplace_coef_tri_p2", "rhs_tri_p2", "mass_tri_p1"), None))
    modules.append(("same-form-twice", lambda: cat("mass_tri_p1")() * 2, None))
    modules.append(("expressions-3", cat("expr_grad_tri", "expr_rank1", "expr_facet"), None))

    def two_domains():
        m1, V1 = _tri()
        m2, V2 = _tri()
        f1, f2 = ufl.Coefficient(V1), ufl.Coefficient(V2)
        return [f1 * ufl.dx(m1) + f2 * ufl.dx(m2)]

    def expr_twice():
        m, V = _tri()
        f = ufl.Coefficient(V)
        pts = np.array([[0.25, 0.25]])
        return [(ufl.grad(f), pts), (ufl.grad(f), pts.copy())]

    modules.append(("two-integration-domains", two_domains, "names:two-domains-same-integral-name"))
    modules.append(("same-expression-twice", expr_twice, "names:duplicate-expression"))
    for label, build, expect_key in modules:
        try:
            names, declared = _module_names(build())
        except Exception as ex:
            # a clean early rejection is acceptable for the exotic inputs
            chk.case("distinct-rejected", key=label)
            chk.notes.setdefault("distinct_rejected", {})[label] = repr(ex)[:200]
            continue
        chk.case("distinct-names", key=f"{label}:{len(names)}")
        chk.programs += 1
        bad = [n for n in names + declared if not X.C_IDENT.match(n)]
        if bad:
            chk.violation(key=f"names:invalid-identifier:{label}", what="generated name is not a C identifier", payload={"module": label, "names": bad})
        dup = sorted({n for n in names if names.count(n) > 1})
        if dup:
            key = expect_key or f"names:duplicate:{label}"
            what = {
                "names:two-domains-same-integral-name": "a form with two integration domains (same type and subdomain id) defines the same integral name twice (integral_name ignores the domain)",
                "names:duplicate-expression": "the same (expression, points) listed twice in one module gets one name twice (expression_name has no index in its tag)",
            }.get(key, "duplicate top-level names in one generated module")
            replay = {
                "names:two-domains-same-integral-name":
                    "m1,m2 = two P1 triangle meshes; V_i = FunctionSpace(m_i, P1); f_i = Coefficient(V_i); "
                    "ffcx.compiler.compile_ufl_objects([f1*dx(m1) + f2*dx(m2)], options=get_options({}), namespace='ns') "
                    "-> the C source defines integral_<sha1>_triangle twice",
                "names:duplicate-expression":
                    "f = Coefficient(P1 triangle); pts = np.array([[0.25, 0.25]]); "
                    "ffcx.compiler.compile_ufl_objects([(grad(f), pts), (grad(f), pts.copy())], ...) (or jit.compile_expressions) "
                    "-> the C source defines expression_<sha1> twice",
            }.get(key, f"harness.props.c13.distinct_names: module '{label}'")
            chk.violation(key=key, what=what, payload={"module": label, "duplicates": [re.sub(r"[0-9a-f]{40}", lambda m: m.group(0)[:8] + "…", x) for x in dup],
                                                        "replay": replay})


# ------------------------------------------------------------------------------ run
def run(chk):
    thorough = chk.tier == "thorough"
    rng = random.Random(1000 + chk.seed)
    chk.rule = ("printer cases: random scalars/option dicts/point arrays (key = type, length class); encode cases: corpus "
                "entry x random options x compile args (every request is non-trivial); stability: request x "
                "process variant; separation: one key per ingredient; distinct-names: one key per generated module")
    chk.trusted += [
        "SHA-1 is uninterpreted in the model; theorems assume injectivity on the hashed strings where stated",
        "UFL signatures (Form.signature, compute_expression_signature) are inputs of the model",
        "shortest round-trip digits of Python floats are computed by the harness (%.{p}e search), the model lays them out",
        "harness/extract_names.py (C/Python lexers for top-level names, hashlib shim, jit cache-lookup stop)",
    ]
    chk.assumptions += [
        "non-win32 branch of _compilation_signature; strings restricted to ASCII in the repr(str) correspondence",
        "the SHA-1 of the point bytes is a parameter of the model (`digest`), computed by the harness with hashlib",
    ]
    X.regenerate()
    chk.lean("FfcxProofs.C13", THEOREMS, extra_files=LEAN_FILES)
    from .. import corpus

    with X.hermetic_options():
        fixed = {e.name: e for e in corpus.fixed() + corpus.expressions()}
        with lean.Driver("driver_names") as d:
            corr_printers(chk, d, rng, 6000 if thorough else 1200)
            corr_pointskey(chk, d, rng, 4000 if thorough else 500)
            names = list(fixed) if thorough else ["mass_tri_p1", "laplace_coef_tri_p2", "stokes_mixed", "subdomains", "prism",
                                                    "int_facet_tri", "expr_grad_tri", "expr_grad_tet", "expr_rank1", "expr_tensor", "expr_facet"]
            corr_encode(chk, d, rng, [fixed[n] for n in names if n in fixed], 6 if thorough else 4)
            # expressions at random points (exercise pointsKey inside encode)
            import ufl

            class _E:
                kind = "expression"

                def __init__(self, i, pts):
                    self.name = f"rand_expr_{i}"
                    self.pts = pts

                def build(self):
                    m, V = _tri()
                    f = ufl.Coefficient(V)
                    return [(ufl.grad(f), self.pts)]

            rnd = []
            for i in range(40 if thorough else 12):
                pts = rpoints(rng)
                if pts.shape[1] != 2:
                    pts = np.resize(pts, (max(1, pts.size // 2), 2))
                rnd.append(_E(i, pts))
            corr_encode(chk, d, rng, rnd, 1)
            tag_entries = list(fixed.values()) if thorough else [fixed[n] for n in ("subdomains", "multi_rule", "prism", "stokes_mixed", "int_facet_tri", "vertex_tri") if n in fixed]
            corr_integral_tags(chk, d, [e for e in tag_entries if e.kind == "form"])
        separation(chk, thorough)
        distinct_names(chk, thorough)
    stability(chk, thorough)
    if thorough:
        chk.leanchecker(["FfcxProofs.C13"])
