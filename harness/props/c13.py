"""C13 — JIT signatures are stable and separating; object names are distinct valid identifiers.

 (a) Lean obligations (FfcxProofs.C13).
 (b) Correspondence: Python/NumPy printing vs the Lean printers, and the exact string handed to
     hashlib.sha1 inside ffcx.naming (captured by shimming `ffcx.naming.hashlib`) vs `encode`.
     The real jit.compile_forms / compile_expressions run up to the cache lookup (patched to stop
     there): no code generation and no C compiler is involved in computing names. Requests with
     part='diagonal' (the form is rewritten BEFORE the signature) are part of it.
 (b') Renumbering (naming.py:41-67): on seeded expressions (several coefficients / constants / arguments /
     geometric quantities over 1-3 meshes, shuffled creation orders, counter offsets) the dict `rn`, the
     iteration orders of the `extract_type` sets and every terminal's `_ufl_signature_data_(rn)` are captured
     from the real compute_signature and compared with the Lean `renumber` / `termData`; the hypotheses of
     `signature_stable_across_processes` are evaluated per pair of histories and its conclusion is checked
     on the real signatures.
 (c) Stability search: the captured strings / names of the same requests in subprocesses with
     different PYTHONHASHSEED, creation orders and UFL counter offsets must be identical.
 (d) Separation search: request pairs that differ in exactly one ingredient must get different
     module names.
 (e) Distinctness search: all top-level names of generated multi-form / multi-integral modules are
     pairwise distinct valid C identifiers.
"""
import json
import os
import random
import re
import subprocess
import sys
from concurrent.futures import ThreadPoolExecutor
from pathlib import Path

import numpy as np

from .. import extract_names as X
from .. import lean

VERIF = Path(__file__).resolve().parent.parent.parent

THEOREMS = [
    "Ffcx.Naming.join_inj",
    "Ffcx.Naming.concat_fixed_inj",
    "Ffcx.Naming.tag_inj",
    "Ffcx.Naming.reprFlt_inj",
    "Ffcx.Naming.options_sorted_inj",
    "Ffcx.Naming.options_order_indep",
    "Ffcx.Naming.pointsKey_prefix",
    "Ffcx.Naming.encode_objs_tag_inj",
    "Ffcx.Naming.encode_inj",
    "Ffcx.Naming.encode_inj_win32",
    "Ffcx.Naming.encode_congr",
    "Ffcx.Naming.ident_valid",
    "Ffcx.Naming.alias_valid",
    "Ffcx.Naming.names_distinct_of_keys",
    "Ffcx.Naming.key_ne_of_pos_ne",
    "Ffcx.Naming.names_distinct",
    "Ffcx.Naming.module_positions_distinct",
    "Ffcx.Naming.formPre_inj",
    "Ffcx.Naming.integralPre_inj",
    "Ffcx.Naming.expressionPre_inj",
    "Ffcx.Naming.expression_names_distinct",
    "Ffcx.Naming.names_distinct_counterexample",
    # stability half: the renumbering of naming.py:41-64 (FfcxProofs/C13Renumber.lean)
    "Ffcx.Naming.renumbering_invariant",
    "Ffcx.Naming.set_order_irrelevant",
    "Ffcx.Naming.signature_stable_across_processes",
    "Ffcx.Naming.geo_set_order_regression",
    "Ffcx.Naming.renumbering_order_counterexample",
]

LEAN_FILES = [
    lean.LEAN / "FfcxProofs" / "Lemmas" / "Names.lean",
    lean.LEAN / "FfcxModel" / "Jit" / "Naming.lean",
    lean.LEAN / "DriverNames.lean",
    lean.LEAN / "FfcxModel" / "Jit" / "Renumber.lean",
    lean.LEAN / "FfcxProofs" / "Lemmas" / "Renumber.lean",
    lean.LEAN / "FfcxProofs" / "C13Renumber.lean",
]

GEO_KEY = "sig:unstable:geometric-quantity-domain-order"
GEO_WHAT = ("the name of an expression whose geometric quantities live on two meshes that no coefficient/argument lives on "
            "depends on PYTHONHASHSEED and on the meshes' ufl ids (before /repo 61cd434 naming.py iterated the SET returned by "
            "extract_type(expr, GeometricQuantity), so the order in which those meshes were renumbered was the set's iteration "
            "order; regression key)")
GEO_REPLAY = ("cel = basix.ufl.element('Lagrange','triangle',1,shape=(2,)); m1, m2 = ufl.Mesh(cel), ufl.Mesh(cel); "
              "e = ufl.SpatialCoordinate(m1)[0] + 2*ufl.SpatialCoordinate(m2)[1]; "
              "ffcx.naming.compute_signature([(e, np.array([[0.25, 0.25]]))], 't') under PYTHONHASHSEED=0 and =1, or after "
              "creating 1 unrelated ufl.Mesh(cel) first")

U = X.sexp_str
DEC = X.sexp_unstr


def geo_violation(chk, payload):
    """The geometric-quantity set-order finding is reported once per run (first witness); later witnesses are counted."""
    seen = chk.notes.setdefault("geo_domain_order_witnesses", [])
    seen.append({k: payload[k] for k in payload if k != "replay"} if len(seen) < 6 else "…")
    if len(seen) == 1:
        chk.violation(key=GEO_KEY, what=GEO_WHAT, payload=dict(payload, replay=GEO_REPLAY))


# ------------------------------------------------------------------------------ generators
_ALPHA = "ab'\"\\\n\t\r\x01\x1f\x7f ;,()[]-O2=_Z"


def rstr(rng, maxlen=6):
    return "".join(rng.choice(_ALPHA) for _ in range(rng.randint(0, maxlen)))


_SPECIAL_FLOATS = [0.0, -0.0, 1.0, 1e-14, 1e-9, 1e-6, 1e16, 1e15, 9999999999999998.0, 123456789012345678.0, 0.0001,
                   0.00001, 1e22, 1e23, 5e-324, 1.7976931348623157e308, 0.1, 1 / 3, 2.5e-5, 1e100, 1e-100,
                   float("inf"), -float("inf"), float("nan")]


def rfloat(rng):
    c = rng.random()
    if c < 0.25:
        return rng.choice(_SPECIAL_FLOATS)
    if c < 0.6:
        return rng.uniform(-10, 10)
    if c < 0.8:
        return round(rng.uniform(-1000, 1000), rng.randint(0, 6))
    return rng.uniform(-1, 1) * 10 ** rng.randint(-25, 25)


def rscalar(rng):
    c = rng.randint(0, 5)
    if c == 0:
        return None
    if c == 1:
        return rng.random() < 0.5
    if c == 2:
        return rng.randint(-10 ** rng.randint(0, 20), 10 ** rng.randint(0, 20))
    if c == 3:
        return rfloat(rng)
    return rstr(rng)


def rpoints(rng, big_ok=True):
    """Random evaluation-point arrays, of several shapes, dtypes and magnitudes."""
    n = rng.choice([1, 1, 2, 3, 4, 7] + ([334, 501] if big_ok else []))
    d = rng.randint(1, 3)
    mode = rng.randint(0, 5)
    nice = [0.0, 0.25, 0.5, 1.0, 1 / 3, 2 / 3, 0.1, 0.2, 0.123456789, 0.001953125, 0.0029296875, 0.75, 0.6]
    if mode == 0:
        a = np.array([[rng.choice(nice) for _ in range(d)] for _ in range(n)], dtype=np.float64)
    elif mode == 1:
        a = np.array([[rng.uniform(0.001, 1) for _ in range(d)] for _ in range(n)])
    elif mode == 2:
        a = np.array([[round(rng.uniform(0.001, 1), rng.randint(1, 10)) for _ in range(d)] for _ in range(n)])
    elif mode == 3:
        a = np.array([[rng.uniform(-1, 1) * 10 ** rng.randint(-4, 2) for _ in range(d)] for _ in range(n)])
    elif mode == 4:
        a = np.array([[rng.choice([0.5, 0.25, 2 ** -9, 3 * 2 ** -10, 5 * 2 ** -12 + 2 ** -30, rng.uniform(0.01, 1)])
                       for _ in range(d)] for _ in range(n)])
    else:
        a = np.array([[rng.uniform(-2, 2) for _ in range(d)] for _ in range(n)])
    if rng.random() < 0.25:
        a = a.astype(np.float32)
    return a


def roptions(rng):
    """Random priority options for a JIT request (names only, so any value is fine)."""
    o = {}
    if rng.random() < 0.5:
        o["scalar_type"] = rng.choice(["float32", "float64", "complex64", "complex128"])
    if rng.random() < 0.3:
        o["table_rtol"] = rfloat(rng)
    if rng.random() < 0.3:
        o["table_atol"] = rng.choice([1e-9, 1e-12, 0.0, 1e-5])
    if rng.random() < 0.3:
        o["epsilon"] = rng.choice([1e-14, 1e-10, 2.5e-13])
    if rng.random() < 0.3:
        o["verbosity"] = rng.choice([10, 20, 30, 40])
    if rng.random() < 0.3:
        o["sum_factorization"] = rng.random() < 0.5
    if rng.random() < 0.2:
        o[rstr(rng, 4) or "x"] = rscalar(rng)
    if rng.random() < 0.1:
        o["scalar_type"] = np.float64  # a dtype-like object: enters as its repr
    return o


# ------------------------------------------------------------------------------ (b) correspondence
def corr_printers(chk, d, rng, n):
    for _ in range(n):
        v = rscalar(rng)
        got = DEC(d.ask(f"(reprscalar {X.sexp_scalar(X.scalar(v))})"))
        kind = type(v).__name__
        chk.case("repr-scalar", key=f"{kind}:{len(repr(v))}:{repr(v)[:1]}")
        if got != repr(v):
            chk.disagree("repr(scalar)", {"input": repr(v), "model": got, "impl": repr(v)})
        got = DEC(d.ask(f"(strscalar {X.sexp_scalar(X.scalar(v))})"))
        if got != str(v):
            chk.disagree("str(scalar)", {"input": repr(v), "model": got, "impl": str(v)})
    import ffcx.codegeneration.jit as jit

    gone = [f for f in ("_compute_option_signature", "_compilation_signature") if not callable(getattr(jit, f, None))]
    if gone:
        chk.disagree("cannot capture the option / compilation signature: ffcx.codegeneration.jit has no " + ", ".join(gone),
                     {"missing": gone})
        return
    for _ in range(n // 5):
        o = {rstr(rng): rscalar(rng) for _ in range(rng.randint(0, 7))}
        got = DEC(d.ask("(optsig " + X.sexp_items(o) + ")"))
        want = jit._compute_option_signature(o)
        chk.case("option-signature", key=f"n{len(o)}:{sorted(type(v).__name__ for v in o.values())}")
        if got != want:
            chk.disagree("_compute_option_signature", {"input": repr(o), "model": got, "impl": want})
        args = [rstr(rng) for _ in range(rng.randint(0, 3))]
        dbg = rng.random() < 0.5
        got = DEC(d.ask("(compsig " + X.sexp_compile(args, dbg) + ")"))
        want = jit._compilation_signature(args, dbg)
        chk.case("compilation-signature", key=f"n{len(args)}:{dbg}")
        if got != want:
            chk.disagree("_compilation_signature", {"input": [args, dbg], "model": got, "impl": want})
        # the win32 branch of the REAL function (sys.platform as jit.py sees it is shimmed for this one call)
        import sysconfig
        import types

        real_sys = jit.sys
        jit.sys = types.SimpleNamespace(platform="win32")
        try:
            want = jit._compilation_signature(args, dbg)
        finally:
            jit.sys = real_sys
        ext = sysconfig.get_config_var("EXT_SUFFIX")
        got = DEC(d.ask(f"(compsigwin ({' '.join(U(a) for a in args)}) {X.sexp_scalar(X.scalar(dbg))} {X.sexp_scalar(X.scalar(ext))})"))
        chk.case("compilation-signature-win32", key=f"n{len(args)}:{dbg}")
        if got != want:
            chk.disagree("_compilation_signature (win32 branch)", {"input": [args, dbg, ext], "model": got, "impl": want})
        parts = [rstr(rng) for _ in range(rng.randint(0, 4))]
        for cmd, fn in (("tuple", tuple), ("list", list)):
            # components are printed by Python, the composite by the model
            got = DEC(d.ask(f"({cmd} " + " ".join(U(repr(p)) for p in parts) + ")"))
            if got != repr(fn(parts)):
                chk.disagree(f"repr({cmd})", {"input": parts, "model": got, "impl": repr(fn(parts))})


def corr_pointskey(chk, d, rng, n):
    """dtype.str ++ str(shape) ++ digest: the model's `pointsKey` vs the text ffcx.naming builds."""
    import hashlib

    import ffcx.naming
    import ufl

    m, V = _tri()
    expr = ufl.grad(ufl.Coefficient(V))
    esig = X.expression_signature(expr, d)
    for _ in range(n):
        a = rpoints(rng)
        c = rng.random()
        if c < 0.15:
            a = np.asfortranarray(a)  # non C-contiguous input: ascontiguousarray copies
        elif c < 0.25:
            a = a[::-1]
        elif c < 0.3:
            a = a.reshape(-1)  # 1-D: shape prints as (n,)
        elif c < 0.35:
            a = (a * 8).astype(np.int64)
        pts = np.ascontiguousarray(a)
        want = f"{pts.dtype.str}{pts.shape}" + hashlib.sha1(pts.tobytes()).hexdigest()
        got = DEC(d.ask("(pointskey " + X.sexp_points(a) + ")"))
        chk.case("pointskey", key=f"{pts.dtype.str}:{pts.ndim}:{'big' if pts.size > 1000 else pts.shape[0]}:{a.flags['C_CONTIGUOUS']}")
        # what the REAL compute_signature puts into the hashed string, and which bytes it digests
        with X.CaptureSha1() as cap:
            ffcx.naming.compute_signature([(expr, a)], "t")
        real = cap.strings[-1].split(";")[0][len(esig):]
        if got != want or real != got or cap.blobs != [pts.tobytes()]:
            chk.disagree("points key", {"dtype": str(a.dtype), "shape": a.shape, "model": got, "impl": real, "harness": want})


def _model_tag_form(d, prefix, i):
    return DEC(d.ask(f"(formtag {U(prefix)} {i})"))


def corr_encode(chk, d, rng, entries, nopt):
    """Captured pre-hash strings of module + object names vs the model, per request."""
    import ffcx.options

    env = X.sexp_env()
    for e in entries:
        for k in range(nopt):
            objs = e.build()
            opts = roptions(rng) if k else {}
            opts.pop("part", None)
            originals = list(objs)
            diag = getattr(e, "diagonal", False)
            if diag:
                # the form list is rewritten to the diagonal blocks BEFORE compute_signature (jit.py:178-195): the model is
                # fed the signatures of the list as compile_forms left it (objs2), and `part` through the option dict
                opts["part"] = "diagonal"
            args = [rstr(rng, 5) for _ in range(rng.randint(0, 2))] if k else []
            dbg = bool(k) and rng.random() < 0.5
            try:
                mname, onames, caps, objs2 = X.jit_names(objs, e.kind, opts, cffi_extra_compile_args=args, cffi_debug=dbg)
            except Exception as ex:  # sum_factorization etc. cannot fail here: names only
                chk.disagree("jit names raised", {"entry": e.name, "options": repr(opts), "error": repr(ex)})
                continue
            p = ffcx.options.get_options(opts)
            if diag:
                rewritten = [o2 is not o1 for o1, o2 in zip(originals, objs2)]
                sig_changed = [o2.signature() != o1.signature() for o1, o2 in zip(originals, objs2)]
                chk.case("encode-diagonal", key=f"{e.name}:{rewritten}")
                if rewritten != e.expect_rewritten or sig_changed != e.expect_rewritten or not caps[0].startswith(
                        "".join(o.signature() for o in objs2)):
                    chk.disagree("part='diagonal': the signature must be taken of the rewritten form list",
                                 {"entry": e.name, "rewritten": rewritten, "signature_changed": sig_changed,
                                  "expected": e.expect_rewritten, "impl": caps[0][:40]})
            if e.kind == "form":
                sigs = [f.signature() for f in objs2]
                objs_s = "(forms " + " ".join(sigs) + ")"
                modelled = True
            else:
                parts, modelled = [], True
                for ex_, pts in objs2:
                    parts.append(f"({X.expression_signature(ex_, d)} {X.sexp_points(pts)})")
                objs_s = "(exprs " + " ".join(parts) + ")"
            req = f"(request {env} {objs_s} (opts {X.sexp_items(p)}) (comp {X.sexp_compile(args, dbg)}))"
            got = d.ask(req)
            chk.case("encode-module", key=f"{e.name}:{sorted(opts)}:{len(args)}:{dbg}" if modelled else None,
                     sample={"entry": e.name, "options": repr(opts), "prehash_tail": caps[0][-120:]} if k == 1 else None)
            if got == ["unbound"] or DEC(got) != caps[0]:
                chk.disagree("module pre-hash string", {"entry": e.name, "options": repr(opts), "args": args,
                                                         "model": str(got)[:300] if got == ["unbound"] else DEC(got)[-300:],
                                                         "impl": caps[0][-300:]})
            prefix = mname
            want_mod = ("libffcx_forms_" if e.kind == "form" else "libffcx_expressions_")
            import hashlib

            if mname != want_mod + hashlib.sha1(caps[0].encode()).hexdigest():
                chk.disagree("module name shape", {"entry": e.name, "name": mname})
            # object names
            for i, (oname, cap) in enumerate(zip(onames, caps[1:])):
                if e.kind == "form":
                    tag = _model_tag_form(d, prefix, i)
                    got = d.ask(f"(encode {env} (forms {sigs[i]}) {U(tag)})")
                    shape = "form_"
                else:
                    ex_, pts = objs2[i]
                    tag = DEC(d.ask(f"(exprtag {U(prefix)} {i})"))
                    got = d.ask(f"(encode {env} (exprs ({X.expression_signature(ex_, d)} {X.sexp_points(pts)})) {U(tag)})")
                    shape = "expression_"
                chk.case("encode-object", key=f"{e.name}:{i}" if k == 0 else None)
                if DEC(got) != cap:
                    chk.disagree("object pre-hash string", {"entry": e.name, "i": i, "model": DEC(got)[-200:], "impl": cap[-200:]})
                if oname != shape + hashlib.sha1(cap.encode()).hexdigest():
                    chk.disagree("object name shape", {"entry": e.name, "name": oname})


def _bilinear(kind, variant=0):
    """A bilinear form on a scalar / blocked / mixed space (variant changes one diagonal or one off-diagonal block)."""
    import basix.ufl
    import ufl

    m = ufl.Mesh(basix.ufl.element("P", "triangle", 1, shape=(2,)))
    if kind == "scalar":
        el = basix.ufl.element("P", "triangle", 1)
    elif kind == "blocked":
        el = basix.ufl.element("P", "triangle", 1, shape=(2,))
    else:
        el = basix.ufl.mixed_element([basix.ufl.element("P", "triangle", 2, shape=(2,)), basix.ufl.element("P", "triangle", 1)])
    V = ufl.FunctionSpace(m, el)
    u, v = ufl.TrialFunction(V), ufl.TestFunction(V)
    if kind == "mixed":
        (uu, pp), (vv, qq) = ufl.split(u), ufl.split(v)
        a = ufl.inner(ufl.grad(uu), ufl.grad(vv)) * ufl.dx + (2.0 if variant == 1 else 1.0) * pp * qq * ufl.dx
        a += (3.0 if variant == 2 else 1.0) * ufl.div(vv) * pp * ufl.dx + qq * ufl.div(uu) * ufl.dx
        return [a]
    if kind == "blocked":
        a = (2.0 if variant == 1 else 1.0) * ufl.inner(u, v) * ufl.dx
        a += (3.0 if variant == 2 else 1.0) * u[0] * v[1] * ufl.dx
        return [a]
    return [(2.0 if variant == 1 else 1.0) * ufl.inner(u, v) * ufl.dx]


class _DiagEntry:
    kind = "form"
    diagonal = True

    def __init__(self, space):
        self.name = f"diag_{space}"
        self.space = space
        # a space without sub-elements is left alone (jit.py:186-188), the others are replaced by their diagonal blocks
        self.expect_rewritten = [space != "scalar"]

    def build(self):
        return _bilinear(self.space)


# ------------------------------------------------------------------------------ (b') renumbering
_GEO = ["x0", "x1", "vol", "circ"]


def _rn_program(rng):
    """A random program text: creation steps in order (meshes before their users) and the roles used by the expression."""
    nm = rng.randint(1, 3)
    items = [("mesh", i, rng.choice([1, 1, 2])) for i in range(nm)]
    for _ in range(rng.randint(0, 3)):
        items.append(("coeff", rng.randrange(nm), rng.choice([1, 2])))
    for _ in range(rng.randint(0, 2)):
        items.append(("const", rng.randrange(nm), rng.choice([(), (2,)])))
    for number in rng.sample([0, 1], rng.randint(0, 2)):
        items.append(("arg", rng.randrange(nm), number))
    for _ in range(rng.randint(0, 3)):
        items.append(("geo", rng.randrange(nm), rng.choice(_GEO)))
    if len(items) == nm:
        items.append(("geo", 0, "x0"))
    pos = {i: rng.random() for i in range(len(items))}
    for i, it in enumerate(items):
        if it[0] != "mesh":
            pos[i] = max(pos[i], pos[it[1]] + 1e-6 + 1e-9 * i)
    order = sorted(range(len(items)), key=lambda i: pos[i])
    return [items[i] for i in order]


def _rn_build(steps, gaps):
    """Run the program text; before step i create gaps[i] unrelated meshes / coefficients / constants (another history)."""
    import basix.ufl
    import ufl

    def junk(n):
        for _ in range(n):
            jm = ufl.Mesh(basix.ufl.element("Lagrange", "triangle", 1, shape=(2,)))
            ufl.Coefficient(ufl.FunctionSpace(jm, basix.ufl.element("P", "triangle", 1)))
            ufl.Constant(jm)

    meshes, factors = {}, []
    for i, st in enumerate(steps):
        junk(gaps[i] if i < len(gaps) else 0)
        kind = st[0]
        if kind == "mesh":
            meshes[st[1]] = ufl.Mesh(basix.ufl.element("Lagrange", "triangle", st[2], shape=(2,)))
        elif kind == "coeff":
            factors.append(ufl.Coefficient(ufl.FunctionSpace(meshes[st[1]], basix.ufl.element("P", "triangle", st[2]))))
        elif kind == "const":
            c = ufl.Constant(meshes[st[1]], shape=st[2])
            factors.append(c if st[2] == () else c[1])
        elif kind == "arg":
            factors.append(ufl.Argument(ufl.FunctionSpace(meshes[st[1]], basix.ufl.element("P", "triangle", 1)), st[2]))
        else:
            mm = meshes[st[1]]
            factors.append({"x0": lambda: ufl.SpatialCoordinate(mm)[0], "x1": lambda: ufl.SpatialCoordinate(mm)[1],
                            "vol": lambda: ufl.CellVolume(mm), "circ": lambda: ufl.Circumradius(mm)}[st[2]]())
    # an asymmetric combination: every factor occurs, no two roles are interchangeable
    e = 0
    for k, f in enumerate(factors):
        e = e + (k + 2) * f * factors[(k + 1) % len(factors)] ** (1 + k % 2)
    return e


def _sigdata_numbers(t, rn):
    """(kind, numbers …) read off the REAL `_ufl_signature_data_(rn)` of a terminal, in the layout of the model's `termData`."""
    from ufl.argument import BaseArgument
    from ufl.classes import Constant, GeometricQuantity
    from ufl.coefficient import BaseCoefficient

    mt = X.term_of(t)
    if isinstance(t, BaseCoefficient):
        sd = t._ufl_signature_data_(rn)
        ok = sd[0] == "Coefficient" and sd[2][1][0] == "Mesh"
        return ("coeff", sd[1], mt[2], sd[2][1][1], X._code("cel", repr(sd[2][1][2]))) if ok else ("?", repr(sd))
    if isinstance(t, Constant):
        return ("conststr", t._ufl_signature_data_(rn))
    if isinstance(t, BaseArgument):
        sd = t._ufl_signature_data_(rn)
        ok = sd[0] == "Argument" and sd[3][1][0] == "Mesh"
        part = 0 if sd[2] is None else int(sd[2]) + 1
        return ("arg", sd[1], part, mt[3], sd[3][1][1], X._code("cel", repr(sd[3][1][2]))) if ok else ("?", repr(sd))
    if isinstance(t, GeometricQuantity):
        sd = t._ufl_signature_data_(rn)
        ok = sd[1] == "Mesh" and len(sd) == 4
        return ("geo", X._code("geo", sd[0]), sd[2], X._code("cel", repr(sd[3]))) if ok else ("?", repr(sd))
    return ("other", mt[1])


def _rn_observe(chk, d, expr, label):
    """One real compute_signature run on `expr`: capture, compare with the model; returns the observation."""
    import ffcx.naming

    pts = np.array([[0.25, 0.25]])
    with X.CaptureRenumbering() as cr, X.CaptureSha1() as cap:
        ffcx.naming.compute_signature([(expr, pts)], "t")
    cap.require(1, "compute_signature")
    if len(cr.calls) != 1:
        raise X.CaptureError("cannot capture the renumbering: compute_signature did not call "
                             "ufl.algorithms.signature.compute_expression_signature exactly once")
    real_rn = cr.calls[0][1]
    orders = cr.orders_for(expr)
    objs, terms = X.expression_terms(expr)
    res = X.model_renumber(d, terms, {k: [X.term_of(t) for t in orders[k]] for k in X._SET_KINDS})
    model_rn = X.model_rn_dict(expr, res)
    sig = cap.strings[-1].split(";")[0][:128]
    detail = {"program": label, "terms": terms}
    if not res["valid"]:
        chk.disagree("renumbering: the captured set orders are not enumerations of the expression's terminal sets",
                     dict(detail, orders={k: [X.term_of(t) for t in orders[k]] for k in X._SET_KINDS}))
    if model_rn != real_rn:
        chk.disagree("renumbering dict rn (naming.py:45-61) vs Lean `renumber`",
                     dict(detail, model=sorted((repr(k)[:60], v) for k, v in model_rn.items()),
                          impl=sorted((repr(k)[:60], v) for k, v in real_rn.items())))
    for t, md in zip(objs, res["data"]):
        real = _sigdata_numbers(t, real_rn)
        if real[0] == "conststr":
            dom = t.ufl_domain()
            want = f"Constant({('Mesh', md[1], dom.ufl_coordinate_element())}, {t.ufl_shape!r}, {md[4]!r})"
            ok = md[0] == "const" and want == real[1] and md[2] == X._code("cel", repr(dom.ufl_coordinate_element()))
        else:
            ok = tuple(real) == tuple(md)
        if not ok:
            chk.disagree("_ufl_signature_data_(rn) of a terminal vs Lean `termData`", dict(detail, terminal=repr(t)[:80], model=md, impl=real))
    import ufl

    if ufl.algorithms.signature.compute_expression_signature(expr, model_rn) != sig:
        chk.disagree("expression signature under the model's renumbering vs the captured pre-hash string", detail)
    if cr.geo_set_iterated:
        chk.disagree("naming.py iterates the SET extract_type(expr, GeometricQuantity) again (the model takes the geometric "
                     "quantities in traversal order: /repo 61cd434)", detail)
    return {"terms": terms, "sig": sig, "res": res}


def _relabel_between(t1, t2):
    """The relabelling (fc, fk, fm) with terms2 = terms1.map ρ, and whether it is `Compatible`; None if the trees differ."""
    if len(t1) != len(t2):
        return None
    fc, fk, fm = {}, {}, {}

    def put(dct, a, b):
        if dct.setdefault(a, b) != b:
            raise ValueError

    try:
        for a, b in zip(t1, t2):
            if a[0] != b[0]:
                return None
            if a[0] == "coeff":
                put(fc, a[1], b[1]), put(fm, a[3], b[3])
                same = a[2] == b[2] and a[4] == b[4]
            elif a[0] == "const":
                put(fk, a[1], b[1]), put(fm, a[3], b[3])
                same = a[2] == b[2] and a[4] == b[4]
            elif a[0] == "arg":
                put(fm, a[4], b[4])
                same = a[1:4] == b[1:4] and a[5] == b[5]
            elif a[0] == "geo":
                put(fm, a[2], b[2])
                same = a[1] == b[1] and a[3] == b[3]
            else:
                same = a == b
            if not same:
                return None
    except ValueError:
        return None
    mono = all((fx[a] <= fx[b]) == (a <= b) for fx in (fc, fk) for a in fx for b in fx)
    inj = len(set(fm.values())) == len(fm)
    return {"compatible": mono and inj, "shifted": any(a != b for fx in (fc, fk, fm) for a, b in fx.items())}


def corr_renumbering(chk, d, rng, nprog, nhist):
    """Seeded program texts x histories: model vs real renumbering, and the conclusion of
    `signature_stable_across_processes` on the real signatures whenever its hypotheses hold."""
    import basix.ufl
    import ufl

    programs = [[("mesh", 0, 1), ("mesh", 1, 1), ("geo", 0, "x0"), ("geo", 1, "x1")]]  # the two-mesh witness, always first
    programs += [_rn_program(rng) for _ in range(nprog)]
    geo_unstable = None
    for pi, steps in enumerate(programs):
        obs = []
        for h in range(nhist if pi else max(nhist, 16)):
            gaps = [0] * len(steps) if h == 0 else ([h] + [0] * len(steps) if (h % 2 or pi == 0) else
                                                    [rng.randint(0, 2) for _ in steps])
            try:
                e = _rn_build(steps, gaps)
                o = _rn_observe(chk, d, e, {"steps": steps, "gaps": gaps})
            except X.Unsupported:
                continue
            obs.append((gaps, o))
            r = o["res"]
            chk.case("renumbering", key=f"c{len(r['coeffs'])}k{len(r['consts'])}a{len(r['args'])}m{len(r['domains'])}g{r['geonew']}")
        if not obs:
            continue
        g0, o0 = obs[0]
        for gaps, o in obs[1:]:
            rel = _relabel_between(o0["terms"], o["terms"])
            if rel is None or not rel["compatible"]:
                chk.case("renumbering-history-tree-changed")
                continue
            hyp = o0["res"]["distinctkeys"]
            chk.case("renumbering-invariance", key=f"p{pi}:hyp{hyp}:geonew{min(o0['res']['geonew'], 2)}:shift{rel['shifted']}")
            if not hyp:
                continue
            if o["sig"] != o0["sig"]:
                payload = {"program": steps, "history_a": g0, "history_b": gaps, "signatures": [o0["sig"][:16], o["sig"][:16]],
                           "geo_only_meshes": o0["res"]["geonew"]}
                if o0["res"]["geonew"] >= 2:
                    geo_unstable = geo_unstable or payload
                else:
                    chk.violation(key="sig:unstable:expression-history",
                                  what="the same expression program gets different signatures after a different history although the "
                                       "hypotheses of signature_stable_across_processes hold (UFL-level instability)", payload=payload)
    if geo_unstable is not None:
        geo_violation(chk, geo_unstable)
    # what renumbering_order_counterexample says about the real code: swapping the creation order of the two coefficients of
    # f*grad(g)[0] changes the name — and the generated kernel (coefficients are passed in count() order), so this is separation
    m = ufl.Mesh(basix.ufl.element("Lagrange", "triangle", 1, shape=(2,)))
    V = ufl.FunctionSpace(m, basix.ufl.element("P", "triangle", 1))
    f1, g1 = ufl.Coefficient(V), ufl.Coefficient(V)
    g2, f2 = ufl.Coefficient(V), ufl.Coefficient(V)
    pts = np.array([[0.25, 0.25]])
    ea, eb = [(f1 * ufl.grad(g1)[0], pts)], [(f2 * ufl.grad(g2)[0], pts)]
    na, nb = X.jit_names(ea, "expression", {})[0], X.jit_names(eb, "expression", {})[0]
    differ = _code_of(ea) != _code_of(eb)
    chk.case("renumbering-order-swap", key=f"names_differ={na != nb}:kernels_differ={differ}")
    if na == nb and differ:
        chk.violation(key="sig:coefficient-creation-order", what="f*grad(g) with f created before g and with g created before f "
                      "generate different kernels but share a module name", payload={"module_name": na})
    if na != nb and not differ:
        chk.notes["renumbering_order_swap"] = "names differ although the kernels agree (over-separation, harmless)"


def corr_integral_tags(chk, d, entries):
    """compute_ir's integral names: captured strings vs integralTag / encode; factory names and
    identifier validity vs the model."""
    import hashlib

    import ffcx.options
    from ffcx.analysis import analyze_ufl_objects
    from ffcx.ir.representation import compute_ir

    env = X.sexp_env()
    opts = {k: v[1] for k, v in ffcx.options.FFCX_DEFAULT_OPTIONS.items()}
    for e in entries:
        forms = e.build()
        prefix = "libffcx_forms_" + "0" * 40
        with X.CaptureSha1() as cap:
            analysis = analyze_ufl_objects(forms, opts["scalar_type"])
            ir = compute_ir(analysis, {}, prefix, opts, False)
        caps = list(cap.strings)
        k = 0
        want = []
        for fi, fd in enumerate(analysis.form_data):
            sig = fd.original_form.signature()
            got = DEC(d.ask(f"(encode {env} (forms {sig}) {U(_model_tag_form(d, prefix, fi))})"))
            if got != caps[k]:
                chk.disagree("form pre-hash (compute_ir)", {"entry": e.name, "model": got[-200:], "impl": caps[k][-200:]})
            k += 1
            for itg in fd.integral_data:
                sub = " ".join(X.sexp_scalar(X.scalar(s if isinstance(s, str) else int(s))) for s in itg.subdomain_id)
                tag = DEC(d.ask(f"(integraltag {U(prefix)} {U(itg.integral_type)} {fi} ({sub}))"))
                got = DEC(d.ask(f"(encode {env} (forms {sig}) {U(tag)})"))
                chk.case("encode-integral", key=f"{e.name}:{fi}:{itg.integral_type}:{itg.subdomain_id}")
                if got != caps[k]:
                    chk.disagree("integral pre-hash (compute_ir)", {"entry": e.name, "tag": tag, "model": got[-200:], "impl": caps[k][-200:]})
                want.append("integral_" + hashlib.sha1(caps[k].encode()).hexdigest())
                k += 1
        names = [i.expression.name for i in ir.integrals]
        if sorted(set(names)) != sorted(set(want)):
            chk.disagree("integral name shape", {"entry": e.name, "names": names, "want": want})
        for n in names:
            for cell in ("triangle", "interval", "prism"):
                fac = DEC(d.ask(f"(factory {U(n)} {U(cell)})"))
                if fac != f"{n}_{cell}" or d.ask(f"(validident {U(fac)})") != "true":
                    chk.disagree("factory name", {"name": n, "cell": cell, "model": fac})


# ------------------------------------------------------------------------------ (c) stability
WORKER_ENTRIES_FORMS = ["mass_tri_p1", "laplace_coef_tri_p2", "stokes_mixed", "subdomains", "int_facet_tri",
                        "prism", "p2geom_tri", "math_tri"]
WORKER_ENTRIES_EXPRS = ["expr_grad_tri", "expr_rank1", "expr_facet", "c13_expr_parent_facet_mesh", "c13_expr_two_meshes_same_cel",
                        "c13_expr_three_meshes", "c13_expr_geo_one_new_mesh", "c13_expr_geo_two_meshes"]
# requests also named with part='diagonal' (the rewriting must be as stable as the signature)
WORKER_DIAGONAL = ["stokes_mixed", "c13_diag_blocked", "c13_diag_mixed"]
# expressions that reach >= 2 meshes through geometric quantities only: unstable before /repo 61cd434 (regression key stays armed)
GEO_DEFECT_ENTRIES = {"c13_expr_geo_two_meshes"}


def local_entries():
    """Expressions over SEVERAL meshes (the renumbering of domains in compute_signature): only their names are
    computed here, so they are not part of the shared numeric corpus."""
    import basix.ufl
    import numpy as np
    import ufl

    from .. import corpus

    def parent_facet():
        mesh = ufl.Mesh(basix.ufl.element("Lagrange", "triangle", 1, shape=(2,)))
        fmesh = ufl.Mesh(basix.ufl.element("Lagrange", "interval", 1, shape=(2,)))
        c = ufl.Coefficient(ufl.FunctionSpace(fmesh, basix.ufl.element("P", "interval", 1)))
        return [(c * ufl.FacetNormal(mesh), np.array([[0.3], [0.5], [0.8]]))]

    def same_cel(n):
        def b():
            cel = basix.ufl.element("Lagrange", "triangle", 1, shape=(2,))
            ms = [ufl.Mesh(cel) for _ in range(n)]
            fs = [ufl.Coefficient(ufl.FunctionSpace(m, basix.ufl.element("P", "triangle", 1 + k % 2))) for k, m in enumerate(ms)]
            e = fs[0]
            for f in fs[1:]:
                e = e * f
            return [(e + ufl.SpatialCoordinate(ms[-1])[0], np.array([[0.25, 0.25], [0.1, 0.6]]))]
        return b
    def geo(n_geo_only):
        def b():
            cel = basix.ufl.element("Lagrange", "triangle", 1, shape=(2,))
            m0 = ufl.Mesh(cel)
            f = ufl.Coefficient(ufl.FunctionSpace(m0, basix.ufl.element("P", "triangle", 1)))
            ms = [ufl.Mesh(cel) for _ in range(n_geo_only)]
            e = f * ufl.SpatialCoordinate(m0)[0]
            for k, m in enumerate(ms):
                e = e + (k + 2) * ufl.SpatialCoordinate(m)[k % 2]
            return [(e, np.array([[0.25, 0.25], [0.1, 0.6]]))]
        return b
    return [corpus.Entry("c13_expr_geo_one_new_mesh", geo(1), kind="expression"),
            corpus.Entry("c13_expr_geo_two_meshes", geo(2), kind="expression"),
            corpus.Entry("c13_diag_blocked", lambda: _bilinear("blocked"), kind="form"),
            corpus.Entry("c13_diag_mixed", lambda: _bilinear("mixed"), kind="form"),
            corpus.Entry("c13_expr_parent_facet_mesh", parent_facet, kind="expression"),
            corpus.Entry("c13_expr_two_meshes_same_cel", same_cel(2), kind="expression"),
            corpus.Entry("c13_expr_three_meshes", same_cel(3), kind="expression")]


def worker(spec_json):
    """Subprocess body: build the named corpus entries in the requested order/history and print the
    captured pre-hash strings and names as JSON."""
    spec = json.loads(spec_json)
    import basix.ufl
    import ufl

    from .. import corpus

    for i in range(spec.get("warmup", 0)):
        # unrelated objects: shift UFL's mesh / coefficient / constant / form counters
        cell = ["triangle", "interval", "tetrahedron"][i % 3]
        m = ufl.Mesh(basix.ufl.element("P", cell, 1, shape=({"interval": 1, "triangle": 2, "tetrahedron": 3}[cell],)))
        V = ufl.FunctionSpace(m, basix.ufl.element("P", cell, 1 + i % 2))
        f, c = ufl.Coefficient(V), ufl.Constant(m)
        (c * f * ufl.TestFunction(V) * ufl.dx).signature()
    byname = {e.name: e for e in corpus.fixed() + corpus.expressions() + local_entries()}
    names = [n for n in spec["entries"] if n in byname]
    if spec.get("order") == "rev":
        names = names[::-1]
    out = {}
    with X.hermetic_options():
        if spec.get("other_first"):
            # compile-name another request first (other options), then the real ones
            X.jit_names(byname[names[0]].build(), byname[names[0]].kind, {"scalar_type": "float32"})
        for n in names:
            e = byname[n]
            objs = e.build()
            mname, onames, caps, _ = X.jit_names(objs, e.kind, spec.get("options", {}),
                                                 cffi_extra_compile_args=spec.get("args", []))
            out[n] = {"module": mname, "objects": onames, "prehash": caps}
            if n in spec.get("diagonal", []):
                dm, dn, dc, _ = X.jit_names(e.build(), e.kind, dict(spec.get("options", {}), part="diagonal"),
                                            cffi_extra_compile_args=spec.get("args", []))
                out[n]["diagonal"] = {"module": dm, "objects": dn, "prehash": dc}
            if n in spec.get("deep", []):
                import ffcx.compiler
                import ffcx.options

                with X.CaptureSha1() as cap:
                    ffcx.compiler.compile_ufl_objects(objs, options=ffcx.options.get_options(spec.get("options", {})),
                                                      namespace=mname)
                out[n]["deep"] = list(cap.strings)
    sys.stdout.write("\n@@RESULT@@" + json.dumps(out) + "\n")


class WorkerFailed(RuntimeError):
    pass


def _run_worker_once(spec, hashseed):
    env = dict(os.environ)
    env["PYTHONHASHSEED"] = str(hashseed)
    env["PYTHONPATH"] = str(VERIF) + os.pathsep + env.get("PYTHONPATH", "")
    env["PYTHONDONTWRITEBYTECODE"] = "1"
    try:
        p = subprocess.run(
            [sys.executable, "-c", "import sys; from harness.props.c13 import worker; worker(sys.argv[1])", json.dumps(spec)],
            capture_output=True, text=True, env=env, cwd=str(VERIF), timeout=900,
        )
    except subprocess.TimeoutExpired:
        raise WorkerFailed(f"c13 worker timed out after 900 s (hash seed {hashseed})")
    if "@@RESULT@@" not in p.stdout:
        raise WorkerFailed(f"c13 worker failed (hash seed {hashseed}, rc {p.returncode}): {p.stderr[-1500:]}")
    return json.loads(p.stdout.split("@@RESULT@@", 1)[1])


def _run_worker(spec, hashseed):
    """One subprocess; a crash or the 900 s timeout is retried once (serially, by the caller's thread). Returns the
    result dict or a WorkerFailed instance (reported by the caller as a broken tie, never as exit 2)."""
    try:
        return _run_worker_once(spec, hashseed)
    except WorkerFailed:
        try:
            return _run_worker_once(spec, hashseed)
        except WorkerFailed as ex:
            return ex


def stability(chk, thorough):
    from .. import corpus as _corpus

    have = {e.name for e in _corpus.fixed() + _corpus.expressions() + local_entries()}
    entries = [n for n in WORKER_ENTRIES_FORMS + WORKER_ENTRIES_EXPRS if n in have]
    if len(entries) < 4:
        raise RuntimeError("corpus entries used by the C13 stability search disappeared")
    entries += [n for n in WORKER_DIAGONAL if n in have and n not in entries]
    base = {"entries": entries, "deep": [n for n in ("subdomains", "expr_rank1") if n in entries], "options": {"scalar_type": "float64"}, "args": ["-O2"],
            "diagonal": [n for n in WORKER_DIAGONAL if n in entries]}
    variants = [
        ("baseline", dict(base), 0),
        ("hashseed", dict(base), 1),
        ("reverse-order", dict(base, order="rev"), 2),
        ("counter-offset", dict(base, warmup=7), 3),
        ("other-request-first+offset+rev", dict(base, warmup=3, order="rev", other_first=True), 4),
        # UFL ids crossing a power of ten (repr-sorted ids flip there) and more hash seeds (set orders)
        ("counter-offset-9", dict(base, warmup=9), 5),
        ("counter-offset-99", dict(base, warmup=99), 6),
        ("hashseed7", dict(base), 7), ("hashseed8", dict(base), 8), ("hashseed9", dict(base, warmup=8), 9),
    ]
    if thorough:
        variants += [(f"hashseed{s}", dict(base, warmup=s % 5, order="rev" if s % 2 else "fwd"), s) for s in range(5, 21)]
    with ThreadPoolExecutor(max_workers=6) as ex:
        results = list(ex.map(lambda v: _run_worker(v[1], v[2]), variants))
    for (vname, spec, seed), res in zip(variants, results):
        if isinstance(res, WorkerFailed):
            chk.disagree("stability worker died twice (no names to compare)", {"variant": vname, "hashseed": seed, "error": str(res)[:1500]})
    if isinstance(results[0], WorkerFailed):
        return
    ref = results[0]
    for (vname, spec, seed), res in zip(variants[1:], results[1:]):
        if isinstance(res, WorkerFailed):
            continue
        for n in entries:
            chk.case("stability", key=f"{vname}:{n}")
            if res[n] != ref[n]:
                which = [k for k in ref[n] if res[n].get(k) != ref[n][k]]
                if n in GEO_DEFECT_ENTRIES:
                    geo_violation(chk, {"entry": n, "variant": vname, "hashseed": seed, "warmup": spec.get("warmup", 0),
                                        "module_names": [ref[n]["module"], res[n]["module"]]})
                    continue
                chk.violation(
                    key=f"sig:unstable:{n}",
                    what=f"names of request {n} differ between processes (variant {vname})",
                    payload={"entry": n, "variant": vname, "spec": spec, "hashseed": seed, "differs": which,
                             "baseline": ref[n], "variant_result": res[n]},
                )
    # same process, same request built twice (distinct Python objects, later counters)
    from .. import corpus

    byname = {e.name: e for e in corpus.fixed() + corpus.expressions() + local_entries()}
    with X.hermetic_options():
        for n in entries:
            e = byname[n]
            a = X.jit_names(e.build(), e.kind, base["options"], cffi_extra_compile_args=base["args"])[0]
            b = X.jit_names(e.build(), e.kind, base["options"], cffi_extra_compile_args=base["args"])[0]
            chk.case("stability-inprocess", key=n)
            if not (a == b == ref[n]["module"]) and n in GEO_DEFECT_ENTRIES:
                geo_violation(chk, {"entry": n, "names_in_process_twice_and_subprocess": [a, b, ref[n]["module"]]})
            elif not (a == b == ref[n]["module"]):
                chk.violation(key=f"sig:unstable-inprocess:{n}",
                              what="same request built twice in this process / in a subprocess: different module names",
                              payload={"entry": n, "names": [a, b, ref[n]["module"]]})


# ------------------------------------------------------------------------------ (d) separation
def _tri():
    import basix.ufl
    import ufl

    m = ufl.Mesh(basix.ufl.element("P", "triangle", 1, shape=(2,)))
    V = ufl.FunctionSpace(m, basix.ufl.element("P", "triangle", 1))
    return m, V


def _code_of(objs, options=None, namespace="sep"):
    """Generated C source with every sha1 digest blanked (to compare kernels, not names)."""
    import ffcx.compiler
    import ffcx.options

    code, _ = ffcx.compiler.compile_ufl_objects(list(objs), options=ffcx.options.get_options(options or {}), namespace=namespace)
    return re.sub(r"[0-9a-f]{40}", "H", code[1])


def separation(chk, thorough):
    import ufl
    from ffcx.options import FFCX_DEFAULT_OPTIONS

    def form(scale=1.0, degree=None):
        m, V = _tri()
        u, v = ufl.TrialFunction(V), ufl.TestFunction(V)
        dx = ufl.dx(degree=degree) if degree is not None else ufl.dx
        return [scale * u * v * dx]

    def expr(pts):
        m, V = _tri()
        f = ufl.Coefficient(V)
        return [(ufl.grad(f) * f, pts)]

    def name(objs, kind="form", options=None, **kw):
        return X.jit_names(objs, kind, options or {}, **kw)[0]

    def check(key, what, n1, n2, payload, kernels_differ=True):
        chk.case("separation", key=key)
        if n1 == n2 and kernels_differ:
            chk.violation(key=key, what=what, payload=dict(payload, module_name=n1))

    # integrand, metadata
    check("sig:integrand", "different integrands share a module name", name(form(1.0)), name(form(2.0)), {"pair": "u*v*dx vs 2*u*v*dx"})
    check("sig:metadata-degree", "different quadrature degree shares a module name", name(form(1.0, 1)), name(form(1.0, 3)),
          {"pair": "dx(degree=1) vs dx(degree=3)"})
    check("sig:form-list-order", "[a, L] and [L, a] share a module name", name(form(1.0) + form(2.0)), name(form(2.0) + form(1.0)), {})
    # scalar type, every option, compile args, debug
    for k, (_t, default, _d, choices) in FFCX_DEFAULT_OPTIONS.items():
        if choices:
            other = [c for c in choices if c != default][0]
        elif isinstance(default, bool):
            other = not default
        elif isinstance(default, float):
            other = default * 10
        elif isinstance(default, int):
            other = default + 10
        else:
            other = "numba" if k == "language" else str(default) + "x"
        key = "sig:scalar-type" if k == "scalar_type" else f"sig:option:{k}"
        # the property requires separation only of requests that would generate different kernels: an option that leaves the
        # generated text (comments aside) unchanged for this form (verbosity, an inapplicable sum_factorization) may share a name
        def _nocomment(t):
            return "\n".join(l for l in str(t).splitlines() if not l.lstrip().startswith(("//", "#")))
        try:
            differ = _nocomment(_code_of(form(), {k: other})) != _nocomment(_code_of(form(), {}))
        except Exception:
            differ = True
        check(key, f"option {k}={default!r} and {other!r} share a module name", name(form(), options={}), name(form(), options={k: other}),
              {"option": k, "values": [repr(default), repr(other)], "generated_kernels_differ": differ}, kernels_differ=differ)
    check("sig:compile-args", "different cffi_extra_compile_args share a module name",
          name(form(), cffi_extra_compile_args=["-O2"]), name(form(), cffi_extra_compile_args=["-O3"]), {"args": [["-O2"], ["-O3"]]})
    check("sig:compile-args-split", "['-O2', '-g'] and ['-O2 -g'] share a module name",
          name(form(), cffi_extra_compile_args=["-O2", "-g"]), name(form(), cffi_extra_compile_args=["-O2 -g"]), {})
    check("sig:debug", "cffi_debug True/False share a module name", name(form(), cffi_debug=False), name(form(), cffi_debug=True), {})
    # part='diagonal': jit.compile_forms rewrites the form list before the signature is taken (jit.py:178-195)
    def _nocomment2(t):
        return "\n".join(l for l in str(t).splitlines() if not l.lstrip().startswith(("//", "#")))

    for space in ("scalar", "blocked", "mixed"):
        full, diag = name(_bilinear(space)), name(_bilinear(space), options={"part": "diagonal"})
        try:
            differ = _nocomment2(_code_of(_bilinear(space), {"part": "diagonal"})) != _nocomment2(_code_of(_bilinear(space), {}))
        except Exception:
            differ = True
        check(f"sig:diagonal-vs-full:{space}", f"part='diagonal' and part='full' of a bilinear form on a {space} space share a module name",
              full, diag, {"space": space, "generated_kernels_differ": differ}, kernels_differ=differ)
        if space != "scalar":
            # two forms whose DIAGONAL blocks differ must separate under part='diagonal' …
            check(f"sig:diagonal-block:{space}", "forms with different diagonal blocks share a module name under part='diagonal'",
                  diag, name(_bilinear(space, 1), options={"part": "diagonal"}), {"space": space, "variant": "diagonal block scaled"})
            # … forms that differ in an off-diagonal block only generate the same diagonal kernels: sharing is allowed
            off = name(_bilinear(space, 2), options={"part": "diagonal"})
            try:
                d_off = (_nocomment2(_code_of(X.jit_names(_bilinear(space, 2), "form", {"part": "diagonal"})[3], {"part": "diagonal"}))
                         != _nocomment2(_code_of(X.jit_names(_bilinear(space), "form", {"part": "diagonal"})[3], {"part": "diagonal"})))
            except Exception:
                d_off = True
            check(f"sig:diagonal-offblock:{space}", "forms whose rewritten diagonal forms generate different kernels share a module name",
                  diag, off, {"space": space, "variant": "off-diagonal block scaled", "generated_kernels_differ": d_off}, kernels_differ=d_off)
    # evaluation points
    pA = np.array([[0.123456789, 0.5], [0.25, 0.25]])
    pB = np.array([[0.123456788, 0.5], [0.25, 0.25]])
    nA, nB = name(expr(pA), "expression"), name(expr(pB), "expression")
    differ = _code_of(expr(pA)) != _code_of(expr(pB))
    one_mod = X.jit_names(expr(pA) + expr(pB), "expression", {})
    check("sig:repr-points-9th-digit",
          "expressions whose evaluation points differ in the 9th significant digit share a module name (repr(points) keeps 8 digits)",
          nA, nB, {"points_a": pA.tolist(), "points_b": pB.tolist(), "repr_a": repr(pA), "repr_b": repr(pB),
                   "generated_kernels_differ": differ,
                   "same_module_object_names": one_mod[1],
                   "replay": "ffcx.codegeneration.jit.compile_expressions([(grad(f)*f, points)]) for both point sets"},
          kernels_differ=differ)
    big = np.zeros((501, 2))
    big[:, 0] = np.linspace(0.001, 0.999, 501)
    big[:, 1] = 0.25
    big2 = big.copy()
    big2[250, 1] = 0.5
    nA, nB = name(expr(big), "expression"), name(expr(big2), "expression")
    differ = True
    if thorough:
        differ = _code_of(expr(big)) != _code_of(expr(big2))
    check("sig:repr-points-elided",
          "expressions with > 1000 point coordinates that differ only in the part numpy's repr elides share a module name",
          nA, nB, {"shape": [501, 2], "differing_entry": [250, 1], "values": [0.25, 0.5], "repr_tail": repr(big)[-120:],
                   "generated_kernels_differ": differ}, kernels_differ=differ)
    q = np.array([[0.25, 0.5], [0.5, 0.25]])
    check("sig:points-dtype", "float64 and float32 points of equal value share a module name",
          name(expr(q), "expression"), name(expr(q.astype(np.float32)), "expression"), {"points": q.tolist()})
    # the same expression twice, the same points overall, split differently between the two expressions: the per-expression
    # point counts (hence num_points, the tables and the loop bounds of both kernels) differ, so the requests must separate
    p3 = np.array([[0.125, 0.5], [0.25, 0.25], [0.5, 0.375]])
    for tag, (a1, a2), (b1, b2) in (("2+1-vs-1+2", (p3[:2], p3[2:]), (p3[:1], p3[1:])),
                                     ("3+1-vs-1+3", (np.vstack([p3, p3[:1] / 2])[:3], np.vstack([p3, p3[:1] / 2])[3:]),
                                      (np.vstack([p3, p3[:1] / 2])[:1], np.vstack([p3, p3[:1] / 2])[1:]))):
        check(f"sig:points-split:{tag}",
              "two requests with the same expressions and the same points overall, split differently between the expressions, share a module name",
              name(expr(a1) + expr(a2), "expression"), name(expr(b1) + expr(b2), "expression"),
              {"request_a": [a1.tolist(), a2.tolist()], "request_b": [b1.tolist(), b2.tolist()],
               "replay": "ffcx.codegeneration.jit.compile_expressions([(e, a1), (e, a2)]) vs [(e, b1), (e, b2)] in one cache_dir"})


# ------------------------------------------------------------------------------ (e) distinct names
def _module_names(objs, options=None, namespace="libffcx_forms_" + "a" * 40):
    import ffcx.compiler
    import ffcx.options

    code, _ = ffcx.compiler.compile_ufl_objects(list(objs), options=ffcx.options.get_options(options or {}), namespace=namespace)
    defs = X.c_defined(code[1])
    return [n for n, _st, _t in defs], X.c_declared(code[0])


def distinct_names(chk, thorough):
    import basix.ufl
    import ufl

    from .. import corpus

    byname = {e.name: e for e in corpus.fixed() + corpus.expressions()}
    modules = []
    for n in ["subdomains", "multi_rule", "prism", "stokes_mixed", "int_facet_tri"] + (["geometry_tet", "p2geom_tri", "ext_facet_quad"] if thorough else []):
        if n in byname:
            modules.append((n, byname[n].build, None))

    def cat(*ns):
        return lambda: [o for n in ns if n in byname for o in byname[n].build()]

    modules.append(("three-forms", cat("laplace_coef_tri_p2", "rhs_tri_p2", "mass_tri_p1"), None))
    modules.append(("same-form-twice", lambda: cat("mass_tri_p1")() * 2, None))
    modules.append(("expressions-3", cat("expr_grad_tri", "expr_rank1", "expr_facet"), None))

    def two_domains():
        m1, V1 = _tri()
        m2, V2 = _tri()
        f1, f2 = ufl.Coefficient(V1), ufl.Coefficient(V2)
        return [f1 * ufl.dx(m1) + f2 * ufl.dx(m2)]

    def expr_twice():
        m, V = _tri()
        f = ufl.Coefficient(V)
        pts = np.array([[0.25, 0.25]])
        return [(ufl.grad(f), pts), (ufl.grad(f), pts.copy())]

    modules.append(("two-integration-domains", two_domains, "names:two-domains-same-integral-name"))
    modules.append(("same-expression-twice", expr_twice, "names:duplicate-expression"))
    for label, build, expect_key in modules:
        try:
            names, declared = _module_names(build())
        except Exception as ex:
            # a clean early rejection is acceptable for the exotic inputs
            chk.case("distinct-rejected", key=label)
            chk.notes.setdefault("distinct_rejected", {})[label] = repr(ex)[:200]
            continue
        chk.case("distinct-names", key=f"{label}:{len(names)}")
        chk.programs += 1
        bad = [n for n in names + declared if not X.C_IDENT.match(n)]
        if bad:
            chk.violation(key=f"names:invalid-identifier:{label}", what="generated name is not a C identifier", payload={"module": label, "names": bad})
        dup = sorted({n for n in names if names.count(n) > 1})
        if dup:
            key = expect_key or f"names:duplicate:{label}"
            what = {
                "names:two-domains-same-integral-name": "a form with two integration domains (same type and subdomain id) defines the same integral name twice (integral_name ignores the domain)",
                "names:duplicate-expression": "the same (expression, points) listed twice in one module gets one name twice (expression_name has no index in its tag)",
            }.get(key, "duplicate top-level names in one generated module")
            replay = {
                "names:two-domains-same-integral-name":
                    "m1,m2 = two P1 triangle meshes; V_i = FunctionSpace(m_i, P1); f_i = Coefficient(V_i); "
                    "ffcx.compiler.compile_ufl_objects([f1*dx(m1) + f2*dx(m2)], options=get_options({}), namespace='ns') "
                    "-> the C source defines integral_<sha1>_triangle twice",
                "names:duplicate-expression":
                    "f = Coefficient(P1 triangle); pts = np.array([[0.25, 0.25]]); "
                    "ffcx.compiler.compile_ufl_objects([(grad(f), pts), (grad(f), pts.copy())], ...) (or jit.compile_expressions) "
                    "-> the C source defines expression_<sha1> twice",
            }.get(key, f"harness.props.c13.distinct_names: module '{label}'")
            chk.violation(key=key, what=what, payload={"module": label, "duplicates": [re.sub(r"[0-9a-f]{40}", lambda m: m.group(0)[:8] + "…", x) for x in dup],
                                                        "replay": replay})


# ------------------------------------------------------------------------------ run
def run(chk):
    thorough = chk.tier == "thorough"
    rng = random.Random(1000 + chk.seed)
    chk.rule = ("printer cases: random scalars/option dicts/point arrays (key = type, length class); encode cases: corpus "
                "entry x random options x compile args (every request is non-trivial); stability: request x "
                "process variant; renumbering: seeded program text x history (key = sizes of the four sets, number of geometry-only "
                "meshes); separation: one key per ingredient; distinct-names: one key per generated module")
    chk.trusted += [
        "SHA-1 is uninterpreted in the model; theorems assume injectivity on the hashed strings where stated",
        "UFL signatures are inputs of the model: Form.signature() entirely; for expressions UFL's tree hash over the leaf data "
        "(compute_expression_signature) — the renumbering dict it is given IS modelled (FfcxModel/Jit/Renumber.lean) and tied",
        "shortest round-trip digits of Python floats are computed by the harness (%.{p}e search), the model lays them out",
        "harness/extract_names.py (C/Python lexers for top-level names, hashlib shim, jit cache-lookup stop)",
    ]
    chk.assumptions += [
        "the win32 branch of _compilation_signature is tied by shimming sys.platform for the one call (EXT_SUFFIX of this "
        "install); strings restricted to ASCII in the repr(str) correspondence",
        "renumbering model: every terminal lives on exactly one ufl.Mesh (as naming.py:52-60 requires); UFL's operand sorting / "
        "index numbering are outside the model",
        "the SHA-1 of the point bytes is a parameter of the model (`digest`), computed by the harness with hashlib",
    ]
    X.regenerate()
    chk.lean("FfcxProofs.C13", THEOREMS, extra_files=LEAN_FILES)
    from .. import corpus

    try:
        _run_searches(chk, thorough, rng, corpus)
    except X.CaptureError as ex:
        # the hook points of the capture moved (hashlib spelled differently, a patched function renamed, …): the tie
        # between model and code is broken; nothing can be said about names on this tree
        chk.disagree(str(ex), {"phase": "capture"})
    if thorough:
        chk.leanchecker(["FfcxProofs.C13"])


def _run_searches(chk, thorough, rng, corpus):
    with X.hermetic_options():
        fixed = {e.name: e for e in corpus.fixed() + corpus.expressions()}
        with lean.Driver("driver_names") as d:
            corr_printers(chk, d, rng, 6000 if thorough else 1200)
            corr_pointskey(chk, d, rng, 4000 if thorough else 500)
            corr_renumbering(chk, d, rng, 120 if thorough else 30, 6 if thorough else 4)
            corr_encode(chk, d, rng, [_DiagEntry(sp) for sp in ("scalar", "blocked", "mixed")], 3 if thorough else 2)
            names = list(fixed) if thorough else ["mass_tri_p1", "laplace_coef_tri_p2", "stokes_mixed", "subdomains", "prism",
                                                    "int_facet_tri", "expr_grad_tri", "expr_grad_tet", "expr_rank1", "expr_tensor", "expr_facet"]
            corr_encode(chk, d, rng, [fixed[n] for n in names if n in fixed], 6 if thorough else 4)
            # expressions at random points (exercise pointsKey inside encode)
            import ufl

            class _E:
                kind = "expression"

                def __init__(self, i, pts):
                    self.name = f"rand_expr_{i}"
                    self.pts = pts

                def build(self):
                    m, V = _tri()
                    f = ufl.Coefficient(V)
                    return [(ufl.grad(f), self.pts)]

            rnd = []
            for i in range(40 if thorough else 12):
                pts = rpoints(rng)
                if pts.shape[1] != 2:
                    pts = np.resize(pts, (max(1, pts.size // 2), 2))
                rnd.append(_E(i, pts))
            corr_encode(chk, d, rng, rnd, 1)
            tag_entries = list(fixed.values()) if thorough else [fixed[n] for n in ("subdomains", "multi_rule", "prism", "stokes_mixed", "int_facet_tri", "vertex_tri") if n in fixed]
            corr_integral_tags(chk, d, [e for e in tag_entries if e.kind == "form"])
        separation(chk, thorough)
        distinct_names(chk, thorough)
    stability(chk, thorough)
