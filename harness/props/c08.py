"""C08 — kernels stay inside the extents the UFCx contract gives them."""
import itertools

import numpy as np

from .. import cjit, corpus, kernels, lean, pipeline

THEOREMS = [
    "Ffcx.LNodes.oob_data_independent", "Ffcx.LNodes.sameShape_toShape", "Ffcx.LNodes.bounds_sound",
    "Ffcx.LNodes.subscript_in_extent", "Ffcx.LNodes.flatten_inj",
]


def _entries(chk):
    ents = corpus.fixed() + corpus.expressions()
    if chk.tier == "thorough":
        ents += corpus.demos() + corpus.generated(chk.seed, 80)
    else:
        ents += corpus.generated(chk.seed, 10)
    return ents


def entity_perm_space(c):
    """Every valid (entity_local_index, quadrature_permutation) argument of the kernel."""
    ne, npm = c.sizes["entity_local_index"], c.sizes["quadrature_permutation"]
    ents = c.extra.get("entities") or list(range(max(c.n_entities, 1)))
    perms = list(range(max(c.n_perms, 1)))
    es = list(itertools.product(ents, repeat=ne)) if ne else [()]
    ps = list(itertools.product(perms, repeat=npm)) if npm else [()]
    return [(e, p) for e in es for p in ps]


def shape_inputs(c, ent, prm):
    def arr(name, n):
        return f"(sarr {name} ({n}) " + " ".join("0" for _ in range(n)) + ")"
    s = c.sizes
    parts = [arr("A", s["A"]), arr("w", s["w"]), arr("c", s["c"]), arr("coordinate_dofs", s["coordinate_dofs"]),
             "(iarr entity_local_index " + " ".join(map(str, ent)) + ")",
             "(iarr quadrature_permutation " + " ".join(map(str, prm)) + ")"]
    return "(" + " ".join(parts) + ")"


def lean_bounds(chk, d, ents):
    """Shape runs. Kernels are generated sequentially (the _NoOpt patch is process-global), the runs themselves are
    spread over several driver processes."""
    from concurrent.futures import ThreadPoolExecutor
    from .c17 import _NoOpt
    jobs = []
    for e in ents:
        variants = []
        try:
            variants.append(("opt", kernels.cases_for_entry(e)[0]))
            if chk.tier == "thorough":
                with _NoOpt():
                    variants.append(("noopt", kernels.cases_for_entry(e)[0]))
        except Exception as ex:
            chk.notes.setdefault("skipped", []).append(f"{e.name}: {type(ex).__name__}: {str(ex)[:80]}")
            continue
        for tag, cases in variants:
            for c in cases:
                space = entity_perm_space(c)
                full = len(space)
                if len(space) > (1200 if chk.tier == "thorough" else 300):
                    # large products (hexahedron/prism interior facets): every entity tuple at the extreme
                    # permutation tuples, every permutation tuple at the extreme entity tuples, and a seeded sample
                    es = sorted({s_[0] for s_ in space}); ps = sorted({s_[1] for s_ in space})
                    keep = {(e_, p_) for e_ in es for p_ in (ps[0], ps[-1])} | {(e_, p_) for p_ in ps for e_ in (es[0], es[-1])}
                    rs = np.random.default_rng(chk.seed)
                    keep |= {space[int(i)] for i in rs.choice(len(space), size=20 if chk.tier == "quick" else 200, replace=False)}
                    space = sorted(keep)
                    chk.notes.setdefault("reduced_entity_perm_products", []).append(f"{c.name}: {len(space)} of {full}")
                jobs.append((e, tag, c, space))

    nworkers = min(8, max(1, len(jobs)))
    drivers = [d] + [lean.Driver("driver") for _ in range(nworkers - 1)]

    def run(k):
        dd = drivers[k]
        out = []
        for e, tag, c, space in jobs[k::nworkers]:
            bad = None
            n = 0
            for ent, prm in space:
                r = dd.ask(f"(exec shape {c.ast_sexp} {shape_inputs(c, ent, prm)} ())")
                n += 1
                if r[0] != "ok":
                    bad = (ent, prm, r)
                    break
            m = dd.ask(f"(mentions {c.ast_sexp} entity_local_index quadrature_permutation)") if c.integral_type == "cell" else None
            out.append((e, tag, c, len(space), n, bad, m))
        return out
    try:
        with ThreadPoolExecutor(max_workers=nworkers) as ex:
            results = [r for part in ex.map(run, range(nworkers)) for r in part]
    finally:
        for dd in drivers[1:]:
            dd.close()
    for e, tag, c, nspace, n, bad, m in results:
        chk.programs += 1
        chk.case("shape_run", None, n=n)
        chk.case("kernel", f"{c.name}:{tag}:{c.integral_type}:{nspace}",
                 sample={"kernel": c.name, "extents": c.sizes, "entity_perm_combinations": nspace}
                 if len(chk.samples) < 4 else None, n=0)
        if m is not None and m[1:] != ["false", "false"]:
            chk.violation(f"cell-derefs-entity:{e.name}",
                          "cell kernel mentions entity_local_index / quadrature_permutation",
                          {"kernel": c.name, "mentions": m[1:]})
        if bad is not None:
            ent, prm, r = bad
            if "unsupported" in r and "int array decl" in " ".join(r):
                # model limitation (multi-dimensional integer tables, e.g. facet_edge_vertices): counted, covered by the C search only
                chk.case("model_unsupported_int_array_decl", None)
                chk.notes.setdefault("model_unsupported", []).append(c.name)
                continue
            if "oob" not in r:
                # the model could not run the kernel (unsupported node, bad index expression, parse error): the tie is
                # broken, but that is not an out-of-bounds access
                chk.disagree("shape run of a generated kernel fails in the Lean semantics", {"kernel": c.name, "variant": tag, "entity": ent, "perm": prm, "reply": r})
                continue
            # exec on the real AST with contract-size buffers is the property's own oracle here
            # (instrumented semantics); the C-level confirmation is run by c_search.
            chk.violation(f"oob:{e.name}:{r[1] if len(r) > 1 else '?'}:{r[2] if len(r) > 2 else '?'}",
                          f"kernel leaves the contract extents: {' '.join(r)} for entity={ent} perm={prm}",
                          {"kernel": c.name, "variant": tag, "extents": c.sizes, "entity": ent, "perm": prm, "reply": r})


def _c_worker_factory(ents, seed):
    def work(i):
        e = ents[i]
        rng = np.random.default_rng(seed * 104729 + i)
        out = {"name": e.name, "calls": 0, "bad": []}
        objs = e.build()
        cd = cjit.cache_dir("f64")
        if e.kind == "expression":
            cases, _, _ = kernels.cases_for_expressions(e.name, objs)
            comp, mod, _ = pipeline.jit_expressions(objs, cd)
            kobjs = list(comp)
        else:
            cases, _, _ = kernels.cases_for_forms(e.name, objs)
            comp, mod, _ = pipeline.jit_forms(objs, cd)
            kobjs = []
            for f in comp:
                kobjs += [f.form_integrals[k] for k in range(f.form_integral_offsets[5])]
        if len(kobjs) != len(cases):
            out["note"] = "kernel count mismatch"
            return out
        PAD = 64
        for c, ko in zip(cases, kobjs):
            space = entity_perm_space(c)
            if len(space) > 12:
                idx = rng.choice(len(space), size=12, replace=False)
                space = [space[j] for j in idx]
            for ent, prm in space:
                inp = kernels.random_inputs(c, rng, A0="zeros", entity=ent, perm=prm, dyadic=False)

                def padded(a, fill):
                    buf = np.full(a.size + 2 * PAD, fill)
                    buf[PAD:PAD + a.size] = a
                    return buf
                ent_ = np.full(len(ent) + 2, 0, dtype=np.intc)
                ent_[:len(ent)] = ent
                prm_ = np.full(len(prm) + 2, 0, dtype=np.uint8)
                prm_[:len(prm)] = prm
                res = []
                # the same in-extent data with three different paddings: NaN and two finite values. A result that depends on
                # the padding was computed from a read outside an input extent. (NaN alone is not a witness: a math function
                # outside its domain on the random in-extent data gives NaN as well.)
                for fill in (np.nan, 7.25e11, -3.5e-7):
                    bw, bc, bx = padded(inp["w"], fill), padded(inp["c"], fill), padded(inp["coordinate_dofs"], fill)
                    bA = np.full(c.sizes["A"] + 2 * PAD, 12345.678)
                    bA[PAD:PAD + c.sizes["A"]] = 0.0
                    pipeline.call_kernel(mod, ko, "float64", bA[PAD:PAD + max(c.sizes["A"], 1)], bw[PAD:], bc[PAD:], bx[PAD:], ent_, prm_)
                    out["calls"] += 1
                    if not (np.all(bA[:PAD] == 12345.678) and np.all(bA[PAD + c.sizes["A"]:] == 12345.678)):
                        out["bad"].append({"kernel": c.name, "what": "write outside A", "entity": ent, "perm": prm})
                        break
                    res.append(bA[PAD:PAD + c.sizes["A"]].copy())
                if len(res) == 3 and not (np.array_equal(res[0], res[1], equal_nan=True) and np.array_equal(res[1], res[2], equal_nan=True)):
                    out["bad"].append({"kernel": c.name, "what": "result depends on data outside an input extent (out-of-bounds read)",
                                       "entity": ent, "perm": prm})
        return out
    return work


def c_search(chk, ents):
    work = _c_worker_factory(ents, chk.seed)
    res = cjit.parallel_map(work, list(range(len(ents))))
    for i, (st, r) in sorted(res.items()):
        if st == "died" and not any(c in str(r) for c in ("-11", "-7", "-6")):
            # killed by something else than SIGSEGV / SIGBUS / SIGABRT (OOM killer, operator): not evidence of an access
            chk.disagree("sentinel worker died", {"entry": ents[i].name, "detail": r})
            continue
        if st == "died":
            chk.violation(f"oob:crash:{ents[i].name}", "kernel call crashed the process with exact-size buffers", {"entry": ents[i].name, "detail": r})
            continue
        if st != "ok":
            chk.notes.setdefault("c_search_errors", []).append(f"{ents[i].name}: {st}: {str(r)[:200]}")
            continue
        chk.case("c_sentinel_calls", r["name"], n=max(1, r["calls"]))
        for b in r["bad"]:
            chk.violation(f"oob:c:{r['name']}:{b['what'][:20]}", b["what"], {"entry": r["name"], **b})


def run(chk):
    chk.rule = ("every kernel AST of the corpus is executed by the Lean driver over the one-point domain with arrays of exactly the "
                "contract extents (computed from the UFL form and Basix, not from FFCx's IR), for every valid (entity, permutation) "
                "argument tuple when there are at most 300 (quick) / 1200 (thorough) of them, otherwise for all tuples at the extreme values "
                "of either argument plus a seeded sample (listed in reduced_entity_perm_products); distinct = kernel × variant. search: compiled C kernels called on the same data with three different paddings around w, c and coordinate_dofs (a result that depends on the padding read outside an extent) "
                "and canaries around A.")
    chk.trusted += ["harness/kernels.py contract extents (computed from UFL form data and Basix)",
                    "the driver's evaluation `exec uExtra k τ = ok` is not kernel-checked"]
    chk.lean("FfcxProofs.C08", THEOREMS)
    chk.lean("FfcxProofs.C17", ["Ffcx.LNodes.global_index_value"])
    ents = _entries(chk)
    with lean.Driver("driver") as d:
        lean_bounds(chk, d, ents)
    sel = ents if chk.tier == "thorough" else [e for e in ents if e.name in (
        "laplace_coef_tet_p1", "stokes_mixed", "ext_facet_tet", "int_facet_tri", "int_facet_tet", "vertex_tri",
        "one_sided_dS", "prism", "subdomains", "tensor_constant", "expr_tensor", "expr_facet", "nonaffine_quad",
        "derivative_drop_first", "int_facet_hex")]
    c_search(chk, sel)
    if chk.tier == "thorough":
        chk.leanchecker(["FfcxProofs.C08"])
