"""C19 — accepted input always yields valid C; rejected input fails before the compiler."""
import numpy as np
import ufl
from ufl import Coefficient, TestFunction, TrialFunction, ds, dS, dx, grad, inner

import basix.ufl
import ffcx.compiler

from .. import cjit, corpus, extract_rules, kernels, lean, numeric, pipeline

STRICT = ["-std=c17", "-Wall", "-Werror=implicit-function-declaration", "-Werror=incompatible-pointer-types", "-O0"]


def scoped_all(chk, d, ents):
    from .c17 import _NoOpt
    from .. import scope_checks as SC
    summary = SC.new_summary()
    for e in ents:
        for tag, ctx in (("opt", None), ("noopt", _NoOpt())):
            try:
                if ctx is None:
                    cases = kernels.cases_for_entry(e)[0]
                else:
                    with ctx:
                        cases = kernels.cases_for_entry(e)[0]
            except Exception as ex:
                chk.notes.setdefault("skipped", []).append(f"{e.name}: {type(ex).__name__}")
                break
            for c in cases:
                r = d.ask(f"(scoped {c.ast_sexp})")
                chk.programs += 1
                chk.case("scoped", f"{c.name}:{tag}", sample={"kernel": c.name, "reply": r} if len(chk.samples) < 2 else None)
                if r[0] != "ok" and not any(t in ("undeclared", "redeclared") for t in r):
                    chk.disagree("scoping checker could not be applied to a generated kernel", {"kernel": c.name, "variant": tag, "reply": r})
                elif r[0] != "ok":
                    chk.violation(f"c19:scope:{r[1] if len(r) > 1 else '?'}:{e.name}",
                                  f"generated kernel violates C block scoping: {' '.join(r)}", {"kernel": c.name, "variant": tag, "reply": r})
                else:
                    # certificate of kernel_flat_faithful: the flat semantics used by all other theorems is faithful
                    # to C's block scoping on this kernel (no use of a clobbered outer name, uniform declaration kinds)
                    SC.check_scope_kernel(chk, d, c, tag, e.name, summary)
    SC.note_summary(chk, summary)


def rule_pair_entries(seed, n):
    """forms in which several quadrature rules meet in one kernel (incl. the historically colliding ids)"""
    rng = np.random.default_rng(seed)
    out = []

    def mk(cell, degs, fam="P"):
        def b():
            m, V = corpus.space(cell, fam, 1)
            v = TestFunction(V)
            f = Coefficient(V)
            form = None
            for k, q in enumerate(degs):
                t = (f ** (k + 1)) * v * dx(degree=int(q))
                form = t if form is None else form + t
            return [form]
        return b
    out.append(corpus.Entry("rules_tri_15_26", mk("triangle", [15, 26]), tags=("c19",)))
    out.append(corpus.Entry("rules_interval_6_7", mk("interval", [6, 7, 3]), tags=("c19",)))
    for i in range(n):
        cell = ["triangle", "tetrahedron", "interval", "quadrilateral"][i % 4]
        degs = sorted({int(v) for v in rng.integers(0, 31 if cell != "tetrahedron" else 12, size=3)})
        out.append(corpus.Entry(f"rules_{cell}_{'_'.join(map(str, degs))}", mk(cell, degs, "Q" if cell == "quadrilateral" else "P"), tags=("c19",)))

    def gll():
        m, V = corpus.space("interval", "P", 2)
        v = TestFunction(V)
        f = Coefficient(V)
        return [f * v * dx(degree=6) + f * f * v * dx(degree=6, scheme="GLL")]
    out.append(corpus.Entry("rules_interval_default_gll_6", gll, tags=("c19",)))
    out += equal_size_rule_entries()
    return out


def equal_size_rule_entries():
    """Two DIFFERENT rules with the SAME number of points in one kernel (anything keyed by the point count instead
    of the rule would confuse them): found by tabulating the rules, not hard-wired."""
    import basix
    out = []
    for cell, fam in (("triangle", "P"), ("tetrahedron", "P"), ("quadrilateral", "Q"), ("interval", "P")):
        ct = getattr(basix.CellType, cell)
        rules = []
        for q in range(0, 9):
            pts, _ = basix.make_quadrature(ct, q)
            rules.append((int(q), "default", pts))
        nv = len(basix.geometry(ct))
        rules.append((1, "vertex", basix.geometry(ct)))
        found = []
        for i in range(len(rules)):
            for j in range(i + 1, len(rules)):
                a, b = rules[i], rules[j]
                if a[2].shape[0] == b[2].shape[0] and not (a[2].shape == b[2].shape and np.allclose(a[2], b[2])):
                    found.append((a[:2], b[:2]))
        for (qa, sa), (qb, sb) in found[:2]:
            def b(cell=cell, fam=fam, qa=qa, sa=sa, qb=qb, sb=sb):
                m, V = corpus.space(cell, fam, 1)
                u, v = TrialFunction(V), TestFunction(V)
                f = Coefficient(V)
                da, db = dx(degree=qa, scheme=sa), dx(degree=qb, scheme=sb)
                # different and IDENTICAL integrands under the two rules (identical ones get equal factor indices)
                return [f * u * v * da + f * f * u * v * db, f * v * da + v * db, u * v * da + u * v * db, f * v * da + f * v * db]
            out.append(corpus.Entry(f"rules_equal_size_{cell}_{qa}{sa[0]}_{qb}{sb[0]}", b, tags=("c19",)))
    return out


def compile_all(chk, ents):
    def work(i):
        e = ents[i]
        try:
            objs = e.build()
            cd = cjit.cache_dir("strict")
            if e.kind == "expression":
                pipeline.jit_expressions(objs, cd, dict(e.options), cffi_extra_compile_args=STRICT)
            else:
                pipeline.jit_forms(objs, cd, dict(e.options), cffi_extra_compile_args=STRICT)
            return {"name": e.name, "ok": True}
        except BaseException as ex:  # noqa
            msg = str(ex)
            first = next((l for l in msg.splitlines() if "error" in l.lower()), msg[:200])
            return {"name": e.name, "ok": False, "exc": type(ex).__name__, "first_error": first[:300]}
    res = cjit.parallel_map(work, list(range(len(ents))))
    for i, (st, r) in sorted(res.items()):
        e = ents[i]
        if st != "ok":
            chk.notes.setdefault("errors", []).append(f"{e.name}: {st}: {str(r)[:200]}")
            continue
        chk.case("strict_compile", e.name)
        if not r["ok"]:
            cause = "c-compiler" if r["exc"] == "VerificationError" else "python-exception"
            chk.violation(f"c19:{cause}:{e.name}", f"a form of the supported fragment fails to build ({r['exc']}): {r['first_error']}", r)


def malformed_stream():
    """inputs FFCx does not support: each must raise a Python exception from compile_ufl_objects
    (analysis / IR / code generation), i.e. before any C compiler could run"""
    def sp(cell="triangle", fam="P", deg=1, **kw):
        m, V = corpus.space(cell, fam, deg, **kw)
        return m, V, TrialFunction(V), TestFunction(V), Coefficient(V)
    items = []

    def add(name, f):
        items.append((name, f))
    add("nonlinear_arg_sin", lambda: [ufl.sin(sp()[3]) * dx])
    add("arg_squared", lambda: (lambda m, V, u, v, f: [v * v * dx])(*sp()))
    add("arg_in_condition", lambda: (lambda m, V, u, v, f: [ufl.conditional(ufl.lt(v, 0.5), f, 1.0) * dx])(*sp()))
    add("arg_in_divisor", lambda: (lambda m, V, u, v, f: [f / v * dx])(*sp()))
    add("affine_form", lambda: (lambda m, V, u, v, f: [(v + f) * dx])(*sp()))
    add("affine_expression", lambda: (lambda m, V, u, v, f: [(u + f, np.array([[0.25, 0.25]]))])(*sp()))
    add("two_args_expression", lambda: (lambda m, V, u, v, f: [(u * v, np.array([[0.25, 0.25]]))])(*sp()))
    add("abs_of_arg", lambda: (lambda m, V, u, v, f: [abs(v) * dx])(*sp()))
    add("custom_integral", lambda: (lambda m, V, u, v, f: [f * v * ufl.Measure("dc", domain=m)])(*sp()))
    add("vertex_dg", lambda: (lambda m, V, u, v, f: [f * v * ufl.dP])(*sp(fam="DP")))
    # discontinuous COEFFICIENT at a vertex (continuous / no arguments): the value is not single valued either
    add("vertex_dg_coefficient", lambda: (lambda m, V, u, v, f: [sp(fam="DP")[4] * v * ufl.dP])(*sp()))
    add("vertex_dg_functional", lambda: (lambda m, V, u, v, f: [f * ufl.dP])(*sp(fam="DP")))
    add("negative_subdomain", lambda: (lambda m, V, u, v, f: [f * v * dx(-3)])(*sp()))
    add("empty_form", lambda: (lambda m, V, u, v, f: [0 * f * v * dx])(*sp()))
    add("prism_interior_facet", lambda: (lambda m, V, u, v, f: [f("+") * v("-") * dS])(*sp("prism")))
    add("points_wrong_dim", lambda: (lambda m, V, u, v, f: [(f, np.array([[0.25, 0.25, 0.1, 0.3]]))])(*sp()))
    return items


def rejected_early(chk):
    import ffcx.codegeneration.jit as jit
    for name, build in malformed_stream():
        try:
            objs = build()
        except BaseException as ex:  # noqa  UFL itself refuses to build it
            chk.case("malformed", f"{name}:ufl:{type(ex).__name__}")
            continue
        try:
            code = ffcx.compiler.compile_ufl_objects(objs, options=pipeline.default_options(), namespace="x")
        except BaseException as ex:  # noqa
            chk.case("malformed", f"{name}:{type(ex).__name__}",
                     sample={"input": name, "rejected_with": type(ex).__name__} if len(chk.samples) < 8 else None)
            continue
        chk.violation(f"c19:accepted-unsupported:{name}", f"unsupported input `{name}` was accepted and code was generated",
                      {"input": name, "code_len": len(code[0][-1])})


def run(chk):
    chk.rule = ("every corpus form/expression (+ seeded forms with 2-3 quadrature rules in one kernel, incl. the historically colliding ids) is "
                "really compiled with -std=c17 -Wall -Werror=implicit-function-declaration; every kernel AST is checked by the Lean block-scoping "
                "checker (optimised and unoptimised); the complete rule table (cell × degree 0..30 × scheme) is regenerated and its ids proved "
                "pairwise distinct; a stream of unsupported inputs must be rejected with a Python exception before any compiler runs. distinct = form / input.")
    chk.trusted += ["the C compiler (gcc) as the judge of valid C17", "Generated/Rules.lean is produced by harness/extract_rules.py from FFCx's create_quadrature and QuadratureRule.id()"]
    rs = extract_rules.regenerate()
    chk.notes["rules_in_table"] = len(rs)
    chk.notes["exhaustive_part"] = "the rule table (cell x degree 0..30 x default/GLL/vertex) is decided completely; forms are sampled"
    chk.lean("FfcxProofs.C19", ["Ffcx.LNodes.rule_ids_distinct", "Ffcx.LNodes.declare_spec", "Ffcx.LNodes.declare_mono",
                               "Ffcx.LNodes.scoped_inv", "Ffcx.LNodes.scopedL_inv"])
    from .. import scope_checks as SC
    chk.lean(SC.SCOPE_MODULE, SC.SCOPE_THEOREMS, extra_files=SC.SCOPE_FILES)
    chk.lean("FfcxProofs.Lemmas.TablesFactorize", ["Ffcx.IR.factorize_rejects", "Ffcx.IR.factorize_rejects_nonlinear", "Ffcx.IR.factorize_rejects_divisor"])
    ents = corpus.fixed() + corpus.expressions()
    rp = rule_pair_entries(chk.seed, 6 if chk.tier == "quick" else 40)
    if chk.tier == "thorough":
        ents += corpus.demos() + corpus.generated(chk.seed, 60)
    with lean.Driver("driver") as d:
        scoped_all(chk, d, ents + rp)
    compile_all(chk, ents + rp)
    rejected_early(chk)
    # rule pairs must also be numerically right (they compile AND compute the right thing)
    def work(i):
        return numeric.compare_entry(rp[i], {}, seed=chk.seed + i)
    res = cjit.parallel_map(work, list(range(len(rp))))
    for i, (st, r) in sorted(res.items()):
        if st == "ok" and "error" not in r:
            chk.case("rule_pair_numeric", rp[i].name)
            for b in r["bad"]:
                chk.violation(f"c19:rule-pair-wrong:{rp[i].name}", "kernel with several rules differs from the oracle", {"entry": rp[i].name, **b})
    if chk.tier == "thorough":
        chk.leanchecker(["FfcxProofs.C19"])
