"""C14 — concurrent JIT requests on a shared cache all get one complete, correct module.

(a) Lean obligations: FfcxProofs/C14.lean (every reachable state of the cache protocol model).
(b) Correspondence: the real `jit.compile_forms` - and, on a subset of the schedules,
    `jit.compile_expressions`: same protocol, same model - under `harness/sched.py` vs the Lean model
    (`driver_jit`, command `cache`) on forced failure-free schedules: per-step observable trace,
    final directory, final state of every request, acquisition/compile counters.
(c) Failing-input search on the real code with the property's own oracle (no model involved):
    nobody imports an incomplete module, exactly one request compiles, every request returns
    kernels that compute the known element matrix or raises TimeoutError after exactly `timeout`
    polls, all requests that return got the same module, a late request reuses the cached module
    without compiling.
    The oracle's counters are maintained by the scheduler's gates: for a schedule whose trace
    correspondence is broken (a gate was bypassed, the code no longer has the modelled shape) its
    complaints are reported as a broken correspondence (no failing input), not as a violation.
"""
import random

from harness import lean, pipeline, sched

THEOREMS = [
    "Ffcx.Jit.at_most_one_builder",
    "Ffcx.Jit.exactly_one_builder",
    "Ffcx.Jit.marker_implies_complete",
    "Ffcx.Jit.load_only_complete",
    "Ffcx.Jit.reuse",
    "Ffcx.Jit.timeout_bound",
    "Ffcx.Jit.no_failure_all_succeed",
]

LEAN_FILES = [
    lean.LEAN / "FfcxProofs" / "Lemmas" / "Cache.lean",
    lean.LEAN / "FfcxModel" / "Jit" / "Cache.lean",
]


# set by run_one while the oracle of a schedule runs: the differences between the real trace and the model's
_ROUTE = {"diffs": None}


def report(chk, key, what, payload):
    """chk.violation once per canonical key (first failing input); occurrences are counted.
    While the oracle judges a schedule whose trace correspondence is broken the complaint goes to
    chk.disagree: the oracle reads counters kept by the gates, and a bypassed gate (a harmless
    rewrite of jit.py) must not produce a concrete violation."""
    # complaints read off the OUTCOME of a request (it raised something other than TimeoutError in a run without injected
    # faults, it returned a kernel computing wrong values) do not depend on the gates' counters: they are observations of
    # the real code on this schedule and stay concrete failing inputs even when the trace no longer matches the model
    outcome_based = key.startswith("request:raised:") or key == "kernel:wrong-result"
    if _ROUTE["diffs"] and not outcome_based:
        cnt = chk.notes.setdefault("oracle_complaints_on_broken_tie", {})
        cnt[key] = cnt.get(key, 0) + 1
        if cnt[key] == 1:
            chk.disagree(f"property oracle complains ({key}) on a schedule whose trace correspondence with the model is broken",
                         {"input": {k: payload.get(k) for k in ("api", "n", "timeout", "schedule")} if isinstance(payload, dict) else payload,
                          "what": what, "diffs": _ROUTE["diffs"][:4]})
        return False
    cnt = chk.notes.setdefault("violation_occurrences", {})
    cnt[key] = cnt.get(key, 0) + 1
    if cnt[key] == 1:
        return chk.violation(key=key, what=what, payload=payload)
    return False


def sched_key(schedule):
    return "".join(str(p) if c == "none" else f"{p}{c[0]}" for p, c in schedule)


def oracle_failure_free(chk, sc, schedule, late_pids, prop="C14"):
    """The property's own oracle on one finished failure-free scenario (real side only)."""
    payload = {"api": sc.ref.api, "n": sc.n, "timeout": sc.timeout, "schedule": [list(x) for x in schedule], "trace": [list(t) for t in sc.trace]}
    bad = False
    for st in sc.procs:
        if any(x != "complete" for x in st.loaded):
            bad |= report(chk, "load:incomplete-module", f"request {st.pid} imported a {st.loaded} module", payload)
    # all requests that returned got the same module: the same file, the same link generation
    got = {st.pid: st.loaded_from[-1] for st in sc.procs if st.finished and st.outcome[0] == "done" and st.loaded_from}
    if len(set(got.values())) > 1:
        bad |= report(chk, "module:not-the-same", f"requests returned different modules {got}", payload)
    if sc.counters["compile"] > 1 or sc.counters["lock_ok"] > 1:
        bad |= report(chk, "compile:more-than-once", f"{sc.counters} in a failure-free run", payload)
    finished = [st for st in sc.procs if st.finished]
    for st in finished:
        o = st.outcome
        if o[0] == "done":
            ok, val = sc.ref.check(o[2][0], o[3])
            if not ok:
                bad |= report(chk, "kernel:wrong-result", f"request {st.pid} returned a kernel computing {val}", payload)
            if st.pid in late_pids and (o[1] or st.compiles):
                bad |= report(chk, "reuse:recompiled", f"late request {st.pid} compiled although the marker existed", payload)
        elif o[0] == "raised":
            e = o[1]
            if isinstance(e, TimeoutError):
                if st.polls != sc.timeout:
                    bad |= report(chk, "timeout:wrong-poll-count", f"request {st.pid}: TimeoutError after {st.polls} polls, timeout={sc.timeout}", payload)
                if st.pid in late_pids:
                    bad |= report(chk, "reuse:timeout", f"late request {st.pid} timed out although the marker existed", payload)
            else:
                bad |= report(chk, f"request:raised:{type(e).__name__}", f"request {st.pid} raised {e!r} in a failure-free run", payload)
    if finished and all(st.finished for st in sc.procs) and any(st.outcome[0] == "done" for st in finished):
        if sc.counters["compile"] != 1:
            bad |= report(chk, "compile:not-exactly-one", f"{sc.counters['compile']} compiles", payload)
    return bad


def run_one(chk, P, d, root, idx, n, timeout, schedule, late_pids=(), kind="schedule", key=None, oracle=oracle_failure_free):
    api = P.ref.api
    sc = P.scenario(n, timeout, root / f"{api[0]}{idx:06d}")
    try:
        sc.run(schedule)
        reply = d.ask(sched.schedule_sexp(n, timeout, schedule))
        diffs = sched.compare(sc, reply, schedule)
        # the oracle judges complete executions: whatever is still running is run to its end
        sc.drain()
        _ROUTE["diffs"] = diffs or None
        try:
            oracle(chk, sc, schedule, set(late_pids))
        finally:
            _ROUTE["diffs"] = None
        trace = [list(t) for t in sc.trace]
    finally:
        sc.close()
    if diffs:
        chk.disagree(f"cache protocol: forced schedule, model vs jit.{P.ref.entry}", {
            "input": {"api": api, "n": n, "timeout": timeout, "schedule": [list(x) for x in schedule]},
            "diffs": diffs[:4], "impl_trace": trace, "model": reply[1][:40],
        })
    if api != "forms":
        kind, key = f"{kind}:{api}", key
    chk.case(kind=kind, key=key, sample={"api": api, "n": n, "timeout": timeout, "schedule": sched_key(schedule)} if idx % 97 == 0 else None)
    return diffs


def cannot_gate(chk, e):
    """jit.py lost a module global the gates are installed into: the tie is broken, there is no failing input."""
    chk.disagree(f"scheduler cannot gate jit.py: {e}", {"input": "ffcx/codegeneration/jit.py module globals",
                                                        "model": list(sched.Patches.REQUIRED), "impl": str(e)})


def completion(pids, rounds):
    return [(p, "none") for _ in range(rounds) for p in pids]


def run(chk):
    chk.rule = (
        "a case is one forced schedule of the file-system/global-state steps of N real jit.compile_forms "
        "(kinds '...:expressions': jit.compile_expressions) calls on one cache directory; distinct = distinct schedule string; non-trivial = at least two "
        "requests take steps before the ready marker exists (a waiter is scheduled inside the build window)"
    )
    chk.trusted += [
        "atomicity of open(...,'x'), os.replace, os.path.exists and of each cffi build phase (DESIGN §5)",
        "harness/sched.py: the gates are placed at the real call sites by monkeypatching jit.py's module globals; "
        "cffi.FFI.compile is replayed phase by phase from one real build (real phase order observed once per run)",
        "threads of one process stand for processes; the import machinery is exercised for byte-complete modules only",
    ]
    chk.assumptions += [
        "no other program writes into the cache directory; the file system implements O_EXCL",
        "all requests of a scenario ask for the same forms/options (same module name)",
    ]
    chk.lean("FfcxProofs.C14", THEOREMS, extra_files=LEAN_FILES)

    thorough = chk.tier == "thorough"
    rng = random.Random(chk.seed * 7919 + 14)
    with pipeline.TmpCache() as root:
        ref = sched.Reference(root)
        chk.notes["reference_build_s"] = round(ref.build_s, 2)
        chk.notes["real_cffi_stages"] = ref.real_stages
        # the model's phase order of ffibuilder.compile, against the one real build of this run
        want = [("before-src", ["c:empty"]), ("after-src", ["c:source"]), ("after-compile", ["c:source", "obj", "so"]),
                ("end", ["c:source", "marker", "obj", "so"])]
        if [(a, list(b)) for a, b in ref.real_stages] != want:
            chk.disagree("phase order of the real cffi build", {"input": "tiny form", "model": want, "impl": ref.real_stages})
        if not ref.kernel_ok[0]:
            report(chk, "kernel:wrong-result", f"sequential build returns {ref.kernel_ok[1]}", {"form": "P1 mass matrix, interval [0,2]"})
        ref_e = sched.Reference(root, api="expressions")
        chk.notes["reference_build_expressions_s"] = round(ref_e.build_s, 2)
        if [(a, list(b)) for a, b in ref_e.real_stages] != want:
            chk.disagree("phase order of the real cffi build (compile_expressions)", {"input": "tiny expression", "model": want, "impl": ref_e.real_stages})
        if not ref_e.kernel_ok[0]:
            report(chk, "kernel:wrong-result", f"sequential compile_expressions returns {ref_e.kernel_ok[1]}",
                   {"api": "expressions", "expression": "P1 coefficient at 1/4, 3/4 (harness.sched.tiny_expression)"})
        idx = 0
        with lean.Driver("driver_jit") as d:
            try:
                with sched.Patches(ref) as P:
                    # -- exhaustive: two requests, every interleaving up to the first marker, then completion
                    #    and a late third request
                    confs = [(2, 40)] + ([(1, 40), (3, 40)] if thorough else [])
                    all_prefixes = {}
                    for timeout, depth in confs:
                        rep = d.ask(f"(schedules 3 {timeout} {depth} (pids 0 1))")
                        assert rep[0] == "ok", rep
                        prefixes = [[int(x) for x in s[1:]] for s in rep[1:]]
                        all_prefixes[timeout] = prefixes
                        chk.notes[f"exhaustive_2proc_timeout{timeout}"] = len(prefixes)
                        for pre in prefixes:
                            schedule = [(p, "none") for p in pre] + completion([0, 1], 6) + completion([2], 5)
                            nontrivial = len(set(pre)) > 1
                            run_one(chk, P, d, root, idx, 3, timeout, schedule, late_pids=[2], kind="exhaustive2",
                                    key=("t%d:" % timeout + "".join(map(str, pre))) if nontrivial else None)
                            idx += 1
                    # -- seeded random schedules, 3 (and 4) requests
                    nrand = 2500 if thorough else 300
                    randoms = []
                    for k in range(nrand):
                        n = rng.choice([3, 3, 4] if thorough else [3])
                        timeout = rng.choice([1, 2, 3, 5] if thorough else [2, 3])
                        L = rng.randint(6, 14 + 6 * n)
                        # biased pid choice so that long builder runs and long waiter runs both occur
                        w = [rng.random() + 0.15 for _ in range(n)]
                        pre = rng.choices(range(n), weights=w, k=L)
                        schedule = [(p, "none") for p in pre]
                        tail = rng.random() < 0.7
                        if tail:
                            schedule += completion(range(n), timeout + 17)
                        key = f"n{n}t{timeout}:" + "".join(map(str, pre)) if len(set(pre[:9])) > 1 else None
                        randoms.append((n, timeout, schedule, key))
                        run_one(chk, P, d, root, idx, n, timeout, schedule, kind="random", key=key)
                        idx += 1
                    chk.notes["real_dlopens"] = P.real_loads
                # -- compile_expressions: same protocol, same model; every 6th exhaustive prefix, every 8th random schedule
                with sched.Patches(ref_e) as P:
                    step_e, step_r = (3, 4) if thorough else (6, 8)
                    for timeout, prefixes in all_prefixes.items():
                        for pre in prefixes[::step_e]:
                            schedule = [(p, "none") for p in pre] + completion([0, 1], 6) + completion([2], 5)
                            run_one(chk, P, d, root, idx, 3, timeout, schedule, late_pids=[2], kind="exhaustive2",
                                    key=("t%d:" % timeout + "".join(map(str, pre))) if len(set(pre)) > 1 else None)
                            idx += 1
                    for n, timeout, schedule, key in randoms[::step_r]:
                        run_one(chk, P, d, root, idx, n, timeout, schedule, kind="random", key=key)
                        idx += 1
            except sched.CannotGate as e:
                cannot_gate(chk, e)
            if not sched.patches_intact():
                raise RuntimeError("sched.Patches left jit.py patched")
        if sched.leftover_threads():
            raise RuntimeError(f"leftover worker threads {sched.leftover_threads()}")
        # -- end to end: real processes, real compiler, no patches
        rounds = 4 if thorough else 1
        for r in range(rounds + 1):
            n = 3 + (r % 2)
            api = "expressions" if r == rounds else "forms"  # the last round: compile_expressions
            cdir = root / f"real{r}"
            res = sched.real_processes(cdir, root / f"barrier{r}", n=n, timeout=120, api=api)
            payload = {"mode": "real processes", "api": api, "n": n, "results": res}
            built = [x for x in res if x.get("built")]
            if any("exc" in x for x in res):
                report(chk, "real:request-raised", f"a request raised: {[x for x in res if 'exc' in x][:2]}", payload)
            elif len(built) != 1:
                report(chk, "compile:not-exactly-one", f"{len(built)} of {n} real processes compiled", payload)
            elif not all(x.get("kernel_ok") for x in res):
                report(chk, "kernel:wrong-result", "a real process got a wrong kernel", payload)
            fs, extra = (ref if api == "forms" else ref_e).abstract_fs(cdir)
            # (the `.so` of another directory embeds other paths: only its presence is compared here)
            good = fs["lock"] == "source" and fs["obj"] and fs["marker"] and not fs["failed"] and fs["so"] != "absent"
            if not good or extra:
                chk.disagree("final directory of a real concurrent build", {"input": payload, "impl": [fs, extra], "model": "source/so/obj/marker"})
            chk.case(kind="real-processes", key=f"{api}:n{n}", sample=payload if r == 0 else None)
    if thorough:
        chk.leanchecker(["FfcxProofs.C14"])
