"""C04 — expression kernels evaluate the expression at the given points."""
import numpy as np

from .. import cjit, corpus, kernels, layout_checks as L, lean, numeric


def run(chk):
    chk.rule = ("expression kernels (rank 0/1; scalar/vector/tensor value shapes; affine and P2 geometry; cell points, facet points with "
                "EVERY local facet and permutation code, vertex points) compiled to C and compared with the independent oracle evaluating the expression "
                "pointwise, rel. tol 1e-10; descriptor fields (IR, generated C and cffi read-back) vs the Lean descriptor model; "
                "distinct = expression kernel × entity.")
    chk.trusted += ["harness/oracle.py (own sequence of UFL passes + NumPy interpreter + Basix)",
                    "facet expressions are run for every (local facet, permutation code): the oracle evaluates at the facet points "
                    "rotated/reflected as the code documents (harness/oracle.permuted_facet_points)"]
    chk.lean(L.LAYOUT_MODULE, L.C04_THEOREMS, extra_files=L.LAYOUT_FILES)
    chk.lean("FfcxProofs.C08", ["Ffcx.LNodes.subscript_in_extent", "Ffcx.LNodes.flatten_inj"])
    chk.lean("FfcxProofs.C17", ["Ffcx.LNodes.global_index_value"])
    chk.lean(L.C04_STORE_MODULE, L.C04_STORE_THEOREMS, extra_files=L.C04_STORE_FILES)
    with lean.Driver("driver_layout") as d:
        L.check_c04_descriptor(chk, d)
        L.check_c04_stores(chk, d)
    ents = corpus.expressions()
    reps = 3 if chk.tier == "thorough" else 1

    def work(i):
        return numeric.compare_entry(ents[i], {}, seed=chk.seed * 31 + i, reps=reps, all_entities=True, all_perms=True)
    res = cjit.parallel_map(work, list(range(len(ents))))
    for i, (st, r) in sorted(res.items()):
        e = ents[i]
        if st != "ok" or "error" in r:
            chk.notes.setdefault("errors", []).append(f"{e.name}: {st}: {str(r)[:200]}")
            if st == "ok":
                chk.disagree("expression of the corpus no longer compiles / runs", {"entry": e.name, "error": r.get("error")})
            continue
        chk.programs += r["cases"]
        chk.case("oracle_compare", e.name if r["compared"] else None, n=max(r["compared"], 1),
                 sample={"entry": e.name, "kernels": r["cases"], "compared": r["compared"], "max_rel_err": r["maxrel"]}
                 if len(chk.samples) < 6 else None)
        for u in r["unsupported"][:3]:
            chk.notes.setdefault("oracle_unsupported", []).append(u)
        for b in r["bad"]:
            chk.violation(f"c04:{e.name}", f"expression kernel differs from the oracle (rel err {b.get('relerr')})", {"entry": e.name, **b})
    # Lean semantics of the expression ASTs (exact) agree with C: A layout [point][component][dof]
    rng = np.random.default_rng(chk.seed)
    with lean.Driver("driver") as d:
        for e in ents:
            try:
                objs, cases, comp, mod = numeric.build(e, {})
            except Exception:
                continue
            for c in cases:
                inp = numeric.make_data(c, rng)
                A = numeric.call_c(mod, kernels.compiled_kernel(comp, c), c, inp, "float64")
                st, B = kernels.lean_exec(d, c, inp, "float")
                chk.case("sem_vs_c", c.name)
                if st != "ok":
                    chk.disagree("Lean exec fails on an expression kernel", {"kernel": c.name, "reply": B})
                elif not np.isnan(B).any() and float(np.abs(A - B[:len(A)]).max()) > 1e-11 * max(1.0, float(np.abs(A).max())):
                    chk.disagree("LNodes semantics (Lean, Float) vs compiled C expression kernel", {"kernel": c.name})
    if chk.tier == "thorough":
        chk.leanchecker([L.LAYOUT_MODULE, L.C04_STORE_MODULE])
