"""C06 — form descriptor dispatch.

(a) Lean obligations (FfcxProofs/C06.lean) incl. `enum_order` over Generated/IntegralTypes.lean, regenerated from
    /repo on this run by harness/extract_layout.py.
(b) correspondence `_compute_form_ir` / `common.integral_data` vs FfcxModel/IR/Layout.lean on real FormIRs (corpus,
    demos, generated forms, the dispatch families below) and on seeded synthetic FormIR-like inputs.
(c) descriptor read-back of compiled forms through cffi vs values computed from the UFL form and basix.
(d) summation search: all kernels listed under (type, id), applied one after another to the same A, vs the sum of
    the kernels of separately compiled single-integrand forms.
"""
import random
import re
import warnings
from dataclasses import dataclass
from types import SimpleNamespace

import basix
import basix.ufl
import numpy as np
import ufl

from .. import corpus, extract_layout, layout_checks, lean, pipeline
from ..layout_checks import TYPES, ints, sx

THEOREMS = [
    "Ffcx.C06.enum_order",
    "Ffcx.C06.width_on_types",
    "Ffcx.C06.ids_sorted",
    "Ffcx.C06.triples_preserved",
    "Ffcx.C06.offsets_delimit",
    "Ffcx.C06.prism_offsets",
    "Ffcx.C06.kernels_of_type",
    "Ffcx.C06.expand_ids",
    "Ffcx.C06.listed_iff",
    "Ffcx.C06.formIR_accepts",
    "Ffcx.C06.formIR_rejects",
    "Ffcx.C06.formIR_rejects_message",
    "Ffcx.C06.formIR_rejects_large",
    "Ffcx.C06.formIR_rejects_large_message",
    "Ffcx.C06.formIR_ids_in_range",
    "Ffcx.C06.large_id_boundary",
    "Ffcx.C06.minus_one_only_otherwise",
    "Ffcx.C06.otherwise_not_folded",
    "Ffcx.C06.explicit_minus_one_rejected",
    "Ffcx.C06.dispatch",
    "Ffcx.Layout.argsortStable_isArgsort",
]

KEY_OFFSETS = "offsets:multi-domain:prism-ds"
KEY_OFFSETS_SYN = "offsets:multi-domain:synthetic"
KEY_MINUS_ONE = "formir:explicit-id:-1-accepted"

MEASURE = {"cell": ufl.dx, "exterior_facet": ufl.ds, "interior_facet": ufl.dS, "vertex": ufl.dP, "ridge": ufl.dr}


# =============================================================================== dispatch families
@dataclass
class Term:
    integrand: object
    itype: str
    ids: object = None  # None (everywhere) | int | tuple of ints
    md: tuple = ()  # (("quadrature_degree", 2), ...)

    def measure(self, everywhere=False):
        kw = {"metadata": dict(self.md)} if self.md else {}
        if everywhere or self.ids is None:
            return MEASURE[self.itype](**kw)
        return MEASURE[self.itype](self.ids, **kw)

    def idset(self):
        if self.ids is None:
            return {-1}
        return set(self.ids) if isinstance(self.ids, tuple) else {self.ids}


def _deg(d):
    return (("quadrature_degree", d),)


def fam_tri_many():
    m, V = corpus.space("triangle", "P", 1)
    u, v = ufl.TrialFunction(V), ufl.TestFunction(V)
    f, g = ufl.Coefficient(V), ufl.Coefficient(V)
    s = ufl.Constant(m)
    K = ufl.Constant(m, shape=(2, 2))
    return [
        Term(2 * u * v, "cell", 0),
        Term(3 * f * u * v, "cell", (1, 2)),
        Term(5 * g * u * v, "cell", None),
        Term(7 * u * v, "cell", 2, _deg(1)),  # id 2 again, other degree, no shared sub-expression
        Term(K[1, 0] * ufl.inner(ufl.grad(u), ufl.grad(v)), "cell", (2, 5), _deg(3)),
        Term(s * u * v, "exterior_facet", 3),
        Term(f * u * v, "exterior_facet", None),
        Term(11 * u * v, "exterior_facet", (3, 1)),
        Term(ufl.avg(f) * u("+") * v("-"), "interior_facet", 7),
        Term(u("+") * v("+"), "interior_facet", None),
        Term(13 * ufl.jump(u) * ufl.jump(v), "interior_facet", (7, 0)),
        Term(u * v, "vertex", 4),
        Term(g * u * v, "vertex", None),
    ]


def fam_tet_rank1():
    m, V = corpus.space("tetrahedron", "P", 1)
    v = ufl.TestFunction(V)
    f, g = ufl.Coefficient(V), ufl.Coefficient(V)
    return [
        Term(f * v, "cell", 5),
        Term(2 * g * v, "cell", (5, 6)),
        Term(3 * v, "cell", None),
        Term(f * g * v, "exterior_facet", 2),
        Term(5 * v, "exterior_facet", (2, 9, 4)),
        Term(v, "ridge", 1),
        Term(7 * f * v, "ridge", None),
    ]


def fam_interval():
    m, V = corpus.space("interval", "P", 2)
    u, v = ufl.TrialFunction(V), ufl.TestFunction(V)
    f = ufl.Coefficient(V)
    return [
        Term(f * u * v, "cell", (3, 1)),
        Term(u.dx(0) * v.dx(0), "cell", None),
        Term(2 * u * v, "exterior_facet", 1),
        Term(3 * f * u * v, "exterior_facet", None),
        Term(u("+") * v("-"), "interior_facet", None),
        Term(5 * u * v, "vertex", (0, 2)),
    ]


def fam_functional():
    m, V = corpus.space("quadrilateral", "Q", 1)
    f, g = ufl.Coefficient(V), ufl.Coefficient(V)
    k = ufl.Constant(m, shape=(2,))
    return [
        Term(f, "cell", 1),
        Term(k[1] * g, "cell", (1, 2)),
        Term(f * g, "exterior_facet", None),
        Term(k[0] * g, "exterior_facet", 8),
    ]


def fam_dropped():
    """coefficient g (position 1 of 3) disappears by differentiation: original_coefficient_positions = [0, 2]"""
    m, V = corpus.space("triangle", "P", 1)
    f, g, h = ufl.Coefficient(V), ufl.Coefficient(V), ufl.Coefficient(V)
    v = ufl.TestFunction(V)

    def D(expr):  # unevaluated Gateaux derivative: the ORIGINAL form still mentions g
        return ufl.derivative(expr * ufl.dx, f, v).integrals()[0].integrand()

    return [
        Term(D(f * f * h + g), "cell", 1),
        Term(D(f * h + 2 * g), "cell", None),
        Term(D(f * f * h + g * g), "exterior_facet", (1, 3)),
    ]


def fam_rules_shared():
    """DESIGN §7 F14 (fixed in /repo): two rules under one id sharing a coefficient sub-expression"""
    m, V = corpus.space("triangle", "P", 2)
    v = ufl.TestFunction(V)
    f = ufl.Coefficient(V)
    return [Term(f * v, "cell", None, _deg(1)), Term(f * f * v, "cell", None, _deg(4))]


def fam_rules_distinct():
    """two rules under one id, no shared coefficient-dependent sub-expression"""
    m, V = corpus.space("triangle", "P", 2)
    u, v = ufl.TrialFunction(V), ufl.TestFunction(V)
    f = ufl.Coefficient(V)
    return [Term(u * v, "cell", 3, _deg(1)), Term(f * u * v, "cell", 3, _deg(4)), Term(2 * u * v, "cell", 3, _deg(2))]


def fam_interleaved():
    """FormIR id lists that are NOT already sorted with different kernels involved (argsort is not the identity)"""
    m, V = corpus.space("triangle", "P", 1)
    v = ufl.TestFunction(V)
    f = ufl.Coefficient(V)
    return [
        Term(2 * v, "cell", (0, 3)),
        Term(3 * f * v, "cell", 1),
        Term(5 * f * f * v, "cell", (2, 0)),
        Term(7 * v, "cell", None),
        Term(11 * v, "exterior_facet", (4, 1)),
        Term(13 * f * v, "exterior_facet", (2, 3)),
    ]


def fam_prism_ds():
    """DESIGN §7 F6 (fixed in /repo): two facet cell types, then another integral type"""
    m, V = corpus.space("prism", "P", 1)
    u, v = ufl.TrialFunction(V), ufl.TestFunction(V)
    return [Term(u * v, "exterior_facet", 1), Term(2 * u * v, "exterior_facet", 2), Term(u * v, "vertex", None)]


def fam_prism_ok():
    m, V = corpus.space("prism", "P", 1)
    u, v = ufl.TrialFunction(V), ufl.TestFunction(V)
    f = ufl.Coefficient(V)
    return [Term(f * u * v, "cell", None), Term(u * v, "exterior_facet", (1, 2)), Term(3 * u * v, "exterior_facet", None)]


def fam_prism_many():
    """several kernels listed under ONE (type, id): every prism facet integral has two domains (triangle, quadrilateral);
    explicit ids, a tuple, 'everywhere' and a repeated id with other quadrature metadata side by side"""
    m, V = corpus.space("prism", "P", 1)
    u, v = ufl.TrialFunction(V), ufl.TestFunction(V)
    f = ufl.Coefficient(V)
    k = ufl.Constant(m)
    return [
        Term(f * u * v, "exterior_facet", 1),
        Term(2 * u * v, "exterior_facet", (1, 2)),
        Term(3 * k * u * v, "exterior_facet", None),
        Term(5 * u * v, "exterior_facet", 2, _deg(1)),
        Term(7 * u * v, "cell", None),
        Term(11 * f * u * v, "cell", 4),
    ]


def fam_prism_rank1():
    m, V = corpus.space("prism", "P", 1)
    v = ufl.TestFunction(V)
    f, g = ufl.Coefficient(V), ufl.Coefficient(V)
    return [
        Term(f * v, "exterior_facet", None),
        Term(2 * g * v, "exterior_facet", (3, 0)),
        Term(3 * f * g * v, "exterior_facet", 3),
        Term(5 * v, "vertex", 2),
        Term(7 * f * v, "vertex", None),
    ]


def fam_otherwise_explicit():
    """'otherwise' and explicit ids of the same type coexist: the kernel under an explicit id must add the integrands declared
    for THAT id only (do_append_everywhere_integrals=False: the everywhere integral is not folded in), theorem otherwise_not_folded"""
    m, V = corpus.space("triangle", "P", 1)
    v = ufl.TestFunction(V)
    f, g = ufl.Coefficient(V), ufl.Coefficient(V)
    return [
        Term(f * v, "cell", None),
        Term(2 * g * v, "cell", 1),
        Term(3 * v, "cell", (1, 2)),
        Term(5 * f * v, "exterior_facet", None),
        Term(7 * v, "exterior_facet", 3),
        Term(11 * g * v("+"), "interior_facet", None),
        Term(13 * f("-") * v("-"), "interior_facet", (0, 3)),
    ]


def fam_otherwise_explicit_tet():
    m, V = corpus.space("tetrahedron", "P", 1)
    u, v = ufl.TrialFunction(V), ufl.TestFunction(V)
    f = ufl.Coefficient(V)
    return [
        Term(u * v, "cell", None),
        Term(2 * f * u * v, "cell", (7, 2)),
        Term(3 * u * v, "exterior_facet", None),
        Term(5 * f * u * v, "exterior_facet", 7),
        Term(7 * u * v, "exterior_facet", (7, 1), _deg(1)),
    ]


FAMILIES = [
    ("prism_many", fam_prism_many), ("prism_rank1", fam_prism_rank1),
    ("otherwise_explicit", fam_otherwise_explicit), ("otherwise_explicit_tet", fam_otherwise_explicit_tet),
    ("tri_many", fam_tri_many), ("tet_rank1", fam_tet_rank1), ("interval", fam_interval), ("functional", fam_functional),
    ("dropped", fam_dropped), ("rules_shared", fam_rules_shared), ("rules_distinct", fam_rules_distinct),
    ("interleaved", fam_interleaved), ("prism_ds", fam_prism_ds), ("prism_ok", fam_prism_ok),
]


def random_family(seed):
    """seeded family: random cell/rank, 3-8 terms over random types with random id sets (default quadrature)"""
    def build():
        rng = random.Random(seed)
        cell = rng.choice(["triangle", "tetrahedron", "quadrilateral", "interval"])
        m, V = corpus.space(cell, "Q" if cell == "quadrilateral" else "P", rng.choice([1, 2]))
        u, v = ufl.TrialFunction(V), ufl.TestFunction(V)
        f, g = ufl.Coefficient(V), ufl.Coefficient(V)
        k = ufl.Constant(m)
        rank = rng.choice([1, 2])
        types = ["cell", "exterior_facet", "interior_facet"] + (["vertex"] if cell in ("triangle", "interval") else []) \
            + (["ridge"] if cell == "tetrahedron" else [])
        terms = []
        for j in range(rng.randrange(3, 9)):
            t = rng.choice(types)
            R = (lambda e: e("+")) if t == "interior_facet" else (lambda e: e)
            e = (2 * j + 3) * R(rng.choice([1.0, f, g, k, f * g]) * v)
            if rank == 2:
                e = e * (u("-") if t == "interior_facet" else u)
            ids = rng.choice([None, None, 0, 1, 2, 3, (0, 1), (1, 3), (2, 0), (3, 2, 1)])
            terms.append(Term(e, t, ids))
        return terms
    return build


def families(chk):
    n = 2 if chk.tier == "quick" else 12
    return FAMILIES + [(f"random_{chk.seed}_{i}", random_family(chk.seed * 101 + i)) for i in range(n)]


def multi_form(terms):
    form = None
    for t in terms:
        part = t.integrand * t.measure()
        form = part if form is None else form + part
    return form


# =============================================================================== (b) correspondence
_REPORTED = set()


def _viol(chk, key, what, payload=None):
    """report each canonical key once per run"""
    if key in _REPORTED:
        return
    _REPORTED.add(key)
    chk.violation(key, what, payload)


def _dom_tags(domains):
    return sorted(int(d) for d in domains)


def formir_groups(fir):
    return [[(int(i), n, _dom_tags(d)) for i, n, d in zip(fir.subdomain_ids[t], fir.integral_names[t], fir.integral_domains[t])]
            for t in TYPES]


def compare_intdata(chk, d, what, groups, perms, impl):
    """`intData` with NumPy's actual argsort results vs the implementation: exact equality.
    Returns (kernel counts, model says offsets delimit)."""
    reply = d.ask(f"(intdatap {sx([[int(p) for p in pi] for pi in perms])} {sx(groups)})")
    mnames, mids, moffs, mdoms, counts, delim, okp = reply
    if okp != "true":
        chk.disagree("np.argsort is not an argsort (IsArgsort fails)", {"ids": [[r[0] for r in g] for g in groups], "perms": [[int(p) for p in pi] for pi in perms]})
    model = [list(mnames), ints(mids), ints(moffs), [ints(x) for x in mdoms]]
    got = [list(impl.names), [int(i) for i in impl.ids], [int(o) for o in impl.offsets], [_dom_tags(x) for x in impl.domains]]
    if model != got:
        chk.disagree(what, {"input": groups, "perms": [[int(p) for p in pi] for pi in perms], "model": model[:3], "impl": got[:3]})
    return ints(counts), delim == "true"


def emit_groups(fir):
    """groups for `(emit …)`: the domain tags of every entry in the order the generator iterates the real set"""
    return [[(int(i), n, [int(x) for x in dm]) for i, n, dm in zip(fir.subdomain_ids[t], fir.integral_names[t], fir.integral_domains[t])]
            for t in TYPES]


def model_emit(d, fir, perms):
    """`emitKernels` / `emitIds` / `offsets` / `emit` of the model for a FormIR(-like) object"""
    ker, ids, offs, rows = d.ask(f"(emit {sx([[int(p) for p in pi] for pi in perms])} {sx(emit_groups(fir))})")
    return ([f"{n}_{basix.CellType(int(t)).name}" for n, t in ker], ints(ids), ints(offs), [(int(i), n, int(t)) for i, n, t in rows])


def check_emit(chk, d, name, fir, perms, what="real"):
    """(f) `emitKernels` / `emitIds` / `offsets` (Layout.lean: the model of the table emission of C/form.py) vs the initialisers the
    REAL `ffcx.codegeneration.C.form.generator` writes for this FormIR: `form_integrals_<name>[] = {&<integral>_<celltype>, …}`,
    `form_integral_ids_<name>[]`, `form_integral_offsets_<name>[]` and their declared lengths (parsed with descr_checks.parse_c_form)."""
    import ffcx.codegeneration.C.form as cform

    from .. import descr_checks

    mker, mids, moffs, _ = model_emit(d, fir, perms)
    try:
        with warnings.catch_warnings():
            warnings.simplefilter("ignore")
            text = cform.generator(fir, pipeline.default_options())[1]
        parsed, decls = descr_checks.parse_c_form(text, fir.name)
    except Exception as ex:
        chk.disagree("form_integrals template changed: cannot read the form_integrals / form_integral_ids / form_integral_offsets initialisers",
                     {"form": name, "error": f"{type(ex).__name__}: {str(ex)[:200]}"})
        return
    if isinstance(parsed, tuple):
        chk.disagree("form_integrals template changed: cannot read the form_integrals / form_integral_ids / form_integral_offsets initialisers",
                     {"form": name, "error": parsed[1]})
        return
    impl = {"form_integrals": parsed["form_integrals"] or [], "form_integral_ids": parsed["form_integral_ids"] or [],
            "form_integral_offsets": parsed["form_integral_offsets"]}
    model = {"form_integrals": mker, "form_integral_ids": mids, "form_integral_offsets": moffs}
    if impl != model:
        chk.disagree("emitKernels/emitIds/offsets vs the generated C initialisers", {"form": name, "model": model, "impl": impl})
    sizes = {n: (sz, ln) for n, sz, ln in decls}
    for arr, ln in (("form_integrals_" + fir.name, len(mker)), ("form_integral_ids_" + fir.name, len(mids)),
                    ("form_integral_offsets_" + fir.name, len(moffs))):
        if ln and sizes.get(arr) != (ln, ln):
            chk.disagree("declared length of an emitted table vs the model", {"form": name, "array": arr, "declared,initialisers": sizes.get(arr), "model": ln})
    multi = any(len(dm) > 1 for t in TYPES for dm in fir.integral_domains[t])
    chk.case("emit-" + what, key=(f"{[len(fir.subdomain_ids[t]) for t in TYPES]}|{moffs}|{mids}" if (len(mker) >= 2 or multi) else None))


def _prefix(counts):
    out = [0]
    for c in counts:
        out.append(out[-1] + c)
    return out


def _check_form_ir(chk, d, name, fd, fi, fir, iirs, state):
    """One real form: `_compute_form_ir` and `integral_data` vs the model + the property's own oracles."""
    from ffcx.codegeneration.common import integral_data

    # model input from UFL's integral data + the IntegralIRs (names, domain sets)
    itgs = []
    for itg, iir in zip(fd.integral_data, iirs):
        doms = _dom_tags({k[0] for k in iir.expression.integrand.keys()})
        sids = ["otherwise" if s == "otherwise" else int(s) for s in itg.subdomain_id]
        itgs.append((itg.integral_type, sids, iir.expression.name, doms))
    reply = d.ask(f"(formir {sx(itgs)})")
    groups = formir_groups(fir)
    if reply[0] != "ok" or [[(int(i), n, ints(dd)) for i, n, dd in g] for g in reply[1]] != groups:
        chk.disagree("_compute_form_ir", {"form": name, "input": itgs, "model": reply, "impl": groups})
    idata = integral_data(fir)
    perms = [np.argsort(fir.subdomain_ids[t]) for t in TYPES]
    counts, _ = compare_intdata(chk, d, "integral_data", groups, perms, idata)
    check_emit(chk, d, name, fir, perms)
    # ---- oracle 1: offsets delimit the emitted kernel table (independent of the model)
    emitted = sum(len(dm) for dm in idata.domains)
    want = _prefix([sum(len(r[2]) for r in g) for g in groups])
    multi = any(len(r[2]) > 1 for g in groups for r in g)
    if list(idata.offsets) != want:
        state["offsets_real"] = True
        _viol(chk, KEY_OFFSETS, "form_integral_offsets do not delimit the kernel table when an integral has several domains "
                      "(integral_data indexes `domains` by a kernel count)",
                      {"form": name, "ufl": str(fd.original_form)[:400], "subdomain_ids": {t: [r[0] for r in g] for t, g in zip(TYPES, groups) if g},
                       "domains": {t: [r[2] for r in g] for t, g in zip(TYPES, groups) if g},
                       "offsets": [int(o) for o in idata.offsets], "expected": want, "kernels_emitted": emitted})
    # ---- oracle 2: ids sorted inside each type, (id, name, domains) triples only permuted inside the type
    pos = 0
    for t, g in zip(TYPES, groups):
        seg = [int(i) for i in idata.ids[pos:pos + len(g)]]
        if seg != sorted(seg):
            _viol(chk, f"ids-unsorted:{name}:{t}", "ids not non-decreasing inside a type group", {"form": name, "type": t, "ids": seg})
        rows = sorted(zip(seg, idata.names[pos:pos + len(g)], [_dom_tags(x) for x in idata.domains[pos:pos + len(g)]]))
        if rows != sorted(g):
            _viol(chk, f"triples-changed:{name}:{t}", "integral_data changed the (id, name, domains) triples of a type",
                  {"form": name, "type": t, "formir": g, "integral_data": rows})
        pos += len(g)
    if any([r[0] for r in g] != sorted(r[0] for r in g) for g in groups):
        chk.hist["formir-real:argsort-not-identity"] = chk.hist.get("formir-real:argsort-not-identity", 0) + 1
    # ---- oracle 3: kernels listed under (type, id) = integrals whose tuple contains id; -1 only for 'otherwise'
    for t, g in zip(TYPES, groups):
        listed = {}
        for i, n, _ in g:
            listed.setdefault(i, []).append(n)
        want_l = {}
        for itg, iir in zip(fd.integral_data, iirs):
            if itg.integral_type != t:
                continue
            for s in itg.subdomain_id:
                if s == "otherwise":
                    want_l.setdefault(-1, []).append(iir.expression.name)
                else:
                    want_l.setdefault(int(s), []).append(iir.expression.name)
                    if int(s) == -1:
                        _viol(chk, KEY_MINUS_ONE, "an explicit subdomain id -1 is accepted (the test is `< -1`, the message says "
                                      "'non-negative') and its kernel is listed in the 'everywhere' slot -1",
                                      {"form": name, "ufl": str(fd.original_form)[:300], "type": t, "subdomain_id": [str(x) for x in itg.subdomain_id]})
        if {k: sorted(v) for k, v in listed.items()} != {k: sorted(v) for k, v in want_l.items()}:
            _viol(chk, f"expand-ids:{name}:{t}", "kernels listed under (type,id) differ from the integrals declared for that id",
                          {"form": name, "type": t, "listed": listed, "expected": want_l})
    ntypes = sum(1 for g in groups if g)
    nontrivial = ntypes >= 2 or any(len(g) >= 2 for g in groups) or multi
    sig = "|".join(f"{t[:3]}{[r[0] for r in g]}{'*' if any(len(r[2]) > 1 for r in g) else ''}" for t, g in zip(TYPES, groups) if g)
    chk.case("formir-real", key=(sig if nontrivial else None),
             sample=({"form": name, "ids": sig, "offsets": [int(o) for o in idata.offsets]} if nontrivial and ntypes >= 3 else None))


def correspond_real(chk, d, state):
    quick = chk.tier == "quick"
    entries = layout_checks.corpus_forms(chk, 20 if quick else 200)
    entries += [(n, b, {}) for n, b in layout_checks.synthetic_forms(chk.seed + 1, 30 if quick else 300)]
    # the dispatch families: each alone, and all non-prism ones together in ONE module (several forms per module)
    fams = [(n, (lambda f=f: [multi_form(f())]), {}) for n, f in families(chk)]
    fams.append(("all_families_one_module", (lambda: [multi_form(f()) for n, f in families(chk)]), {}))
    n = 0
    for name, build, options in entries + fams:
        r = layout_checks.compute_entry(chk, name, build, options)
        if r is None:
            continue
        objs, an, ir = r
        k = 0
        for fi, (fd, fir) in enumerate(zip(an.form_data, ir.forms)):
            iirs = ir.integrals[k:k + len(fd.integral_data)]
            k += len(fd.integral_data)
            _check_form_ir(chk, d, f"{name}#{fi}", fd, fi, fir, iirs, state)
            n += 1
    chk.programs += n
    return n


_CT = [basix.CellType.point, basix.CellType.interval, basix.CellType.triangle, basix.CellType.quadrilateral,
       basix.CellType.tetrahedron, basix.CellType.hexahedron, basix.CellType.prism]


def correspond_synthetic(chk, d, state):
    """Seeded FormIR-like stand-ins for `integral_data`, and stand-in form data for `_compute_form_ir`."""
    from ffcx.codegeneration.common import integral_data
    from ffcx.ir.integral import TensorPart
    from ffcx.ir.representation import _compute_form_ir

    rng = random.Random(chk.seed * 1000003 + 17)
    quick = chk.tier == "quick"
    syn_viol = None
    # ---------------- integral_data
    for it in range(300 if quick else 5000):
        multi_ok = rng.random() < 0.4
        big = rng.random() < 0.1
        ids, names, doms, groups = {}, {}, {}, []
        for t in TYPES:
            n = rng.choice([0, 0, 1, 2, 3, 6]) if not big else rng.randrange(17, 60)
            idl = [rng.choice([-1, 0, 1, 2, 2, 3, 7, 100]) for _ in range(n)]
            nml = [f"k{it}_{t[:2]}{j}" for j in range(n)]
            dml = [set(rng.sample(_CT, rng.choice([1, 1, 2, 3]) if multi_ok else 1)) for _ in range(n)]
            ids[t], names[t], doms[t] = idl, nml, dml
            groups.append([(i, nm, _dom_tags(dm)) for i, nm, dm in zip(idl, nml, dml)])
        stand_in = SimpleNamespace(subdomain_ids=ids, integral_names=names, integral_domains=doms)
        idata = integral_data(stand_in)
        perms = [np.argsort(ids[t]) for t in TYPES]
        counts, delim = compare_intdata(chk, d, "integral_data(synthetic)", groups, perms, idata)
        want = _prefix([sum(len(r[2]) for r in g) for g in groups])
        good = list(idata.offsets) == want
        if good != delim:
            chk.disagree("Delimits (model) vs prefix sums (harness)", {"input": groups, "offsets": list(idata.offsets), "expected": want})
        multi = any(len(r[2]) > 1 for g in groups for r in g)
        if not good:
            if not multi:
                _viol(chk, "offsets:single-domain:synthetic", "offsets wrong although every integral has one domain",
                              {"input": groups, "offsets": list(idata.offsets), "expected": want})
            elif syn_viol is None:
                syn_viol = {"input": groups, "offsets": [int(o) for o in idata.offsets], "expected": want}
        dup = any(len(set(r[0] for r in g)) < len(g) for g in groups)
        kind = ("multi-bad" if not good else "multi-ok") if multi else "single"
        chk.case("intdata-synth", key=(f"{kind}|{[len(g) for g in groups]}|{want}" if (multi or dup) else None))
        chk.hist[f"intdata-synth:{kind}"] = chk.hist.get(f"intdata-synth:{kind}", 0) + 1
    if syn_viol is not None and not state.get("offsets_real"):
        _viol(chk, KEY_OFFSETS_SYN, "integral_data offsets do not delimit the kernel table for multi-domain integrals (synthetic FormIR)", syn_viol)
    chk.notes["synthetic_multi_domain_offset_failures"] = chk.hist.get("intdata-synth:multi-bad", 0)
    # ---------------- _compute_form_ir on stand-in form data
    form = SimpleNamespace(signature=lambda: "0" * 128, arguments=lambda: (), constants=lambda: (), coefficients=lambda: ())
    usable = True
    for it in range(300 if quick else 5000):
        n = rng.randrange(0, 7)
        itgs, idatas, inames, idoms = [], [], {}, {}
        for j in range(n):
            t = rng.choice(TYPES) if rng.random() < 0.97 else "custom"
            L = rng.choice([1, 1, 1, 2, 3]) if rng.random() < 0.97 else 0
            sids = []
            for _ in range(L):
                r = rng.random()
                if r < 0.25:
                    sids.append("otherwise")
                elif r < 0.33:  # negative user ids, down to below -2^31
                    sids.append(rng.choice([-1, -2, -5, -2**31 + 1, -2**31, -2**31 - 1, -2**40]))
                elif r < 0.43:  # around the upper guard 2^31 - 1 (commit 9a772cd)
                    sids.append(rng.choice([2**31 - 2, 2**31 - 1, 2**31, 2**31 + 1, 2**32 - 1, 2**32 + 3, 2**63]))
                else:
                    sids.append(rng.choice([0, 1, 2, 3, 9, 41]))
            nm = f"i{it}_{j}"
            dm = set(rng.sample(_CT, rng.choice([1, 1, 2])))
            itgs.append((t, sids, nm, _dom_tags(dm)))
            idatas.append(SimpleNamespace(integral_type=t, subdomain_id=tuple(sids)))
            inames[(3, j)] = nm
            idoms[nm] = dm
        fd = SimpleNamespace(original_form=form, reduced_coefficients=[], original_coefficient_positions=[],
                             argument_elements=(), coefficient_elements=(), integral_data=idatas)
        try:
            fir = _compute_form_ir(fd, 3, "p", {3: "form_x"}, inames, idoms, {}, TensorPart.full)
            impl = ("ok", formir_groups(fir))
        except (ValueError, KeyError) as ex:
            impl = ("error", type(ex).__name__, str(ex))
        except (TypeError, AttributeError) as ex:  # the stand-in no longer fits the function: only real forms are used
            usable = False
            chk.notes["compute_form_ir_standin"] = f"unusable: {ex!r}"
            break
        reply = d.ask(f"(formir {sx(itgs)})")
        if impl[0] == "ok":
            same = reply[0] == "ok" and [[(int(i), nn, ints(dd)) for i, nn, dd in g] for g in reply[1]] == impl[1]
        else:
            mcls = "KeyError" if reply[0] == "error" and reply[1].startswith("KeyError") else "ValueError"
            same = reply[0] == "error" and mcls == impl[1] and (impl[1] == "KeyError" or reply[1] == impl[2])
        if not same:
            chk.disagree("_compute_form_ir(synthetic)", {"input": itgs, "model": reply, "impl": impl})
        flat = [s for _, ss, _, _ in itgs for s in ss if s != "otherwise"]
        if any(s > 2**31 - 1 for s in flat):
            chk.hist["formir-synth:has-id-above-int32"] = chk.hist.get("formir-synth:has-id-above-int32", 0) + 1
        if any(s < 0 for s in flat):
            chk.hist["formir-synth:has-negative-id"] = chk.hist.get("formir-synth:has-negative-id", 0) + 1
        chk.case("formir-synth", key=(f"{impl[0]}|{[(t[:3], ss) for t, ss, _, _ in itgs]}" if (len(itgs) >= 2 or impl[0] == "error") else None))
        chk.hist[f"formir-synth:{impl[0] if impl[0] == 'ok' else impl[1]}"] = chk.hist.get(f"formir-synth:{impl[0] if impl[0] == 'ok' else impl[1]}", 0) + 1
    return usable


def correspond_emit_synthetic(chk, d, state):
    """(f) on hand-built FormIR tuples (harness/descr_checks.synthetic_form_irs: many domains per integral, empty types, duplicate /
    unsorted / huge ids) pushed through the REAL C form generator: its three table initialisers vs `emit*`/`offsets`."""
    from .. import descr_checks

    n = 0
    for fir in descr_checks.synthetic_form_irs(chk.seed + 5, 80 if chk.tier == "quick" else 800):
        if any(len({len(fir.subdomain_ids[t]), len(fir.integral_names[t]), len(fir.integral_domains[t])}) != 1 for t in TYPES):
            continue  # deliberately inconsistent record (IndexError in integral_data): C18's business
        if any(r > 0 and len(sh) == 0 for r, sh in zip(fir.constant_ranks, fir.constant_shapes)):
            continue  # deliberately refers to an undefined constant_shapes array
        perms = [np.argsort(fir.subdomain_ids[t]) for t in TYPES]
        check_emit(chk, d, fir.name, fir, perms, what="synthetic")
        n += 1
    return n


# =============================================================================== (c) + (d) compiled forms
_NENT = {
    "interval": {"facets": 2, "vertices": 2}, "triangle": {"facets": 3, "vertices": 3}, "quadrilateral": {"facets": 4, "vertices": 4},
    "tetrahedron": {"facets": 4, "vertices": 4}, "hexahedron": {"facets": 6, "vertices": 8}, "prism": {"facets": 5, "vertices": 6},
}


def _expected_domain_tags(cellname, itype):
    ct = getattr(basix.CellType, cellname)
    tdim = len(basix.topology(ct)) - 1
    if itype == "cell":
        return {int(ct)}
    if itype in ("exterior_facet", "interior_facet"):
        return {int(s) for s in basix.cell.subentity_types(ct)[tdim - 1]}
    if itype == "vertex":
        return {int(basix.CellType.point)}
    return {int(s) for s in basix.cell.subentity_types(ct)[tdim - 2]}


def _entities(cellname, itype, tag):
    """valid entity_local_index arrays for kernels of domain tag `tag`"""
    ct = getattr(basix.CellType, cellname)
    tdim = len(basix.topology(ct)) - 1
    if itype == "cell":
        return [[0]]
    if itype in ("exterior_facet", "interior_facet"):
        types = basix.cell.subentity_types(ct)[tdim - 1]
        fs = [i for i, s in enumerate(types) if int(s) == tag]
        if itype == "exterior_facet":
            return [[f] for f in fs]
        return [[f, fs[(k + 1) % len(fs)]] for k, f in enumerate(fs)]
    if itype == "vertex":
        return [[i] for i in range(len(basix.topology(ct)[0]))]
    return [[i] for i in range(len(basix.topology(ct)[tdim - 2]))]


def _coords(cellname, rng, copies):
    ct = getattr(basix.CellType, cellname)
    g = np.asarray(basix.geometry(ct), dtype=float)
    x = np.zeros((copies, g.shape[0], 3))
    for c in range(copies):
        x[c, :, : g.shape[1]] = g + 0.05 * rng.standard_normal(g.shape) + 0.3 * c
    return x.reshape(-1, 3).copy()


def _ufl_fd(form):
    with warnings.catch_warnings():
        warnings.simplefilter("ignore")
        return ufl.algorithms.compute_form_data(
            form, do_apply_function_pullbacks=True, do_apply_integral_scaling=True, do_apply_geometry_lowering=True,
            preserve_geometry_types=(ufl.classes.Jacobian,), do_apply_restrictions=True,
            do_append_everywhere_integrals=False, complex_mode=False)


def _declared_ids(form):
    out = {t: set() for t in TYPES}
    for itg in form.integrals():
        s = itg.subdomain_id()
        for x in (s if isinstance(s, tuple) else (s,)):
            out[itg.integral_type()].add(-1 if x in ("otherwise", "everywhere") else int(x))
    return out


def _readback(chk, name, form, obj, ffi, table_len, state):
    """(c) descriptor of a compiled form vs the UFL form / basix. Returns (offsets, ids, tags) or None if unusable."""
    fd = _ufl_fd(form)
    cellname = fd.integral_data[0].domain.ufl_cell().cellname
    bad = {}

    def want(field, got, exp):
        if got != exp:
            bad[field] = {"descriptor": got, "expected": exp}

    coeffs = list(form.coefficients())
    red = list(fd.reduced_coefficients)
    want("rank", obj.rank, len(form.arguments()))
    want("num_coefficients", obj.num_coefficients, len(red))
    n = max(0, min(obj.num_coefficients, 64))
    want("original_coefficient_positions", [obj.original_coefficient_positions[i] for i in range(n)], [coeffs.index(c) for c in red])
    want("coefficient_name_map", [ffi.string(obj.coefficient_name_map[i]).decode() for i in range(n)], [f"w{i}" for i in range(len(red))])
    ks = list(form.constants())
    want("num_constants", obj.num_constants, len(ks))
    nk = max(0, min(obj.num_constants, 64))
    ranks = [obj.constant_ranks[i] for i in range(nk)]
    want("constant_ranks", ranks, [len(k.ufl_shape) for k in ks])
    want("constant_shapes", [[obj.constant_shapes[i][j] for j in range(ranks[i])] for i in range(nk)], [list(k.ufl_shape) for k in ks])
    want("constant_name_map", [ffi.string(obj.constant_name_map[i]).decode() for i in range(nk)], [f"c{i}" for i in range(len(ks))])
    args = sorted(form.arguments(), key=lambda a: a.number())
    hashes = [int(a.ufl_function_space().ufl_element().basix_hash()) % (1 << 64) for a in args]
    hashes += [int(c.ufl_function_space().ufl_element().basix_hash()) % (1 << 64) for c in red]
    want("finite_element_hashes", [int(obj.finite_element_hashes[i]) for i in range(len(hashes))], hashes)
    # ---- integral table
    offs = [int(obj.form_integral_offsets[i]) for i in range(len(TYPES) + 1)]
    declared = _declared_ids(form)
    exp_counts = []
    for t in TYPES:
        nd = len(_expected_domain_tags(cellname, t))
        exp_counts.append(sum(len(itg.subdomain_id) * nd for itg in fd.integral_data if itg.integral_type == t))
    exp_offs = _prefix(exp_counts)
    usable = True
    if offs != exp_offs or table_len != exp_offs[-1]:
        usable = False
        if offs[0] == 0 and table_len == exp_offs[-1] and any(len(_expected_domain_tags(cellname, t)) > 1 and c for t, c in zip(TYPES, exp_counts)):
            state["offsets_real"] = True
            _viol(chk, KEY_OFFSETS, "form_integral_offsets of the COMPILED form do not delimit form_integrals (multi-domain integrals)",
                          {"form": name, "ufl": str(form)[:300], "form_integral_offsets": offs, "expected": exp_offs,
                           "form_integrals_length": table_len})
        else:
            _viol(chk, f"offsets:compiled:{name}", "form_integral_offsets of the compiled form do not delimit form_integrals",
                          {"form": name, "form_integral_offsets": offs, "expected": exp_offs, "form_integrals_length": table_len})
    ids = [int(obj.form_integral_ids[i]) for i in range(table_len)]
    tags = [int(obj.form_integrals[i].domain) for i in range(table_len)]
    ch = int(fd.integral_data[0].domain.ufl_coordinate_element().basix_hash()) % (1 << 64)
    want("coordinate_element_hash", sorted({int(obj.form_integrals[i].coordinate_element_hash) for i in range(table_len)}), [ch])
    for ti, t in enumerate(TYPES):
        a, b = exp_offs[ti], exp_offs[ti + 1]  # the TRUE segments (so that a broken offset is reported once, above)
        seg = ids[a:b]
        if seg != sorted(seg):
            bad[f"ids-sorted:{t}"] = {"ids": seg}
        if set(seg) != declared[t]:
            bad[f"ids-set:{t}"] = {"descriptor": sorted(set(seg)), "declared": sorted(declared[t])}
        if b > a and set(tags[a:b]) != _expected_domain_tags(cellname, t):
            bad[f"domain-tag:{t}"] = {"descriptor": sorted(set(tags[a:b])), "expected": sorted(_expected_domain_tags(cellname, t))}
    if bad:
        _viol(chk, f"descriptor:{name}:{'+'.join(sorted(bad))}", "compiled ufcx_form descriptor disagrees with the UFL form",
                      {"form": name, "ufl": str(form)[:300], "fields": bad})
    chk.case("readback", key=f"{name}|{offs}|{ids}|{tags}", sample={"form": name, "offsets": offs, "ids": ids, "domain": tags})
    return (exp_offs if usable else None), ids, tags


def _pack(obj, form, width, values, cvalues):
    coeffs = list(form.coefficients())
    w = []
    for j in range(obj.num_coefficients):
        c = coeffs[obj.original_coefficient_positions[j]]
        dim = int(c.ufl_function_space().ufl_element().dim)
        w.append(values[c][: width * dim])
    w = np.concatenate(w) if w else np.zeros(0)
    ks = [cvalues[k].flatten() for k in form.constants()]
    c = np.concatenate(ks) if ks else np.zeros(0)
    return np.ascontiguousarray(np.concatenate([w, np.zeros(1)])), np.ascontiguousarray(np.concatenate([c, np.zeros(1)]))


def _asize(form, width):
    n = 1
    for a in sorted(form.arguments(), key=lambda a: a.number()):
        n *= width * int(a.ufl_function_space().ufl_element().dim)
    return n


def readback_and_sum(chk, d, state):
    rng = np.random.default_rng(chk.seed + 12345)
    fams = [(n, f()) for n, f in families(chk)]
    forms, index = [], {}
    for n, terms in fams:
        index[(n, "multi")] = len(forms)
        forms.append(multi_form(terms))
        for j, t in enumerate(terms):
            index[(n, j)] = len(forms)
            forms.append(t.integrand * t.measure(everywhere=True))
    with pipeline.TmpCache() as tmp:
        with warnings.catch_warnings():
            warnings.simplefilter("ignore")
            objs, mod, code = pipeline.jit_forms(forms, tmp, cffi_extra_compile_args=["-O0"])
        ffi = mod.ffi
        lens = [int(x) for x in re.findall(r"static ufcx_integral\* form_integrals_form_[0-9a-f]+\[(\d+)\]", code[1])]
        if len(lens) != len(forms):
            chk.disagree("form template changed: cannot read the lengths of the form_integrals tables from the generated C",
                         {"tables_found": len(lens), "forms": len(forms)})
            return
        chk.notes["compiled_forms"] = len(forms)
        chk.notes["compiled_kernels"] = sum(lens)
        for n, terms in fams:
            mi = index[(n, "multi")]
            form, obj = forms[mi], objs[mi]
            cellname = _ufl_fd(form).integral_data[0].domain.ufl_cell().cellname
            rb = _readback(chk, n, form, obj, ffi, lens[mi], state)
            singles = []
            for j, t in enumerate(terms):
                si = index[(n, j)]
                srb = _readback(chk, f"{n}/term{j}", forms[si], objs[si], ffi, lens[si], state)
                singles.append((forms[si], objs[si], srb, lens[si]))
            offs, ids, tags = rb
            # (f) compiled tables (cffi) vs the model's emit* for the FormIR of the same form
            try:
                with warnings.catch_warnings():
                    warnings.simplefilter("ignore")
                    _, ir1 = pipeline.compute([form])
                fir = ir1.forms[0]
                _, mids, moffs, mrows = model_emit(d, fir, [np.argsort(fir.subdomain_ids[t]) for t in TYPES])
                coffs = [int(obj.form_integral_offsets[i]) for i in range(len(TYPES) + 1)]
                if mids != ids or moffs != coffs or sorted((r[0], r[2]) for r in mrows) != sorted(zip(ids, tags)) or \
                        [r[0] for r in mrows] != ids:
                    chk.disagree("emitIds/offsets/emit vs the compiled ufcx_form tables (cffi read-back)",
                                 {"family": n, "model": {"ids": mids, "offsets": moffs, "rows": [(r[0], r[2]) for r in mrows]},
                                  "impl": {"ids": ids, "offsets": coffs, "rows": list(zip(ids, tags))}})
                chk.case("emit-cffi", key=f"{n}|{coffs}|{ids}")
            except Exception as ex:
                chk.disagree("emit read-back: the FormIR of a compiled family cannot be recomputed", {"family": n, "error": repr(ex)[:200]})
            if offs is None:
                chk.hist["sum-skipped-broken-offsets"] = chk.hist.get("sum-skipped-broken-offsets", 0) + 1
                continue
            # random data, one value vector per Coefficient/Constant OBJECT (shared by the multi form and its singles)
            values = {c: rng.standard_normal(2 * int(c.ufl_function_space().ufl_element().dim)) for c in form.coefficients()}
            for sf, _, _, _ in singles:
                for c in sf.coefficients():
                    values.setdefault(c, rng.standard_normal(2 * int(c.ufl_function_space().ufl_element().dim)))
            cvalues = {k: rng.standard_normal(k.ufl_shape if k.ufl_shape else ()) for f_ in [form] + [s[0] for s in singles] for k in f_.constants()}
            cvalues = {k: np.asarray(v).reshape(k.ufl_shape if k.ufl_shape else (1,)) for k, v in cvalues.items()}
            for ti, t in enumerate(TYPES):
                a, b = offs[ti], offs[ti + 1]
                width = 2 if t == "interior_facet" else 1
                x = _coords(cellname, np.random.default_rng(chk.seed + ti), width)
                for i in sorted(set(ids[a:b])):
                    contributing = [j for j, tm in enumerate(terms) if tm.itype == t and i in tm.idset()]
                    # 'otherwise' integrals of this type next to the explicit id i: must NOT be folded into the kernels of i
                    everywhere = [j for j, tm in enumerate(terms) if tm.itype == t and tm.ids is None] if i != -1 else []
                    listed = [k for k in range(a, b) if ids[k] == i]  # ALL kernels listed under (type, id), every domain
                    chk.hist["sum-kernels-per-id:" + str(len(listed))] = chk.hist.get("sum-kernels-per-id:" + str(len(listed)), 0) + 1
                    if everywhere:
                        chk.hist["sum-otherwise-coexists"] = chk.hist.get("sum-otherwise-coexists", 0) + 1
                    for tag in sorted(set(tags[a:b])):
                        rows = [k for k in range(a, b) if ids[k] == i and tags[k] == tag]
                        worst, scale, failing, fold_gap, folded = 0.0, 1.0, None, 0.0, None
                        for ent in _entities(cellname, t, tag):
                            A = np.zeros(_asize(form, width) + 1)
                            w, c = _pack(obj, form, width, values, cvalues)
                            for k in rows:  # applied one after another to the SAME A
                                pipeline.call_kernel(mod, obj.form_integrals[k], "float64", A, w, c, x, entity=ent, perm=[0, 0])
                            E = np.zeros_like(A)
                            F = np.zeros_like(A)  # what folding the 'otherwise' integrals in would add
                            for j in contributing + everywhere:
                                sf, so, srb, sl = singles[j]
                                sw, sc = _pack(so, sf, width, values, cvalues)
                                for k in range(sl):
                                    if int(so.form_integrals[k].domain) == tag:
                                        T = np.zeros_like(A)
                                        pipeline.call_kernel(mod, so.form_integrals[k], "float64", T, sw, sc, x, entity=ent, perm=[0, 0])
                                        scale = max(scale, float(np.max(np.abs(T))))
                                        if j in contributing:
                                            E += T
                                        else:
                                            F += T
                            err = float(np.max(np.abs(A - E)))
                            if err > worst:
                                worst, failing = err, {"entity": ent, "A": A[:8].tolist(), "sum_of_singles": E[:8].tolist()}
                            if everywhere:
                                fold_gap = max(fold_gap, float(np.max(np.abs(F))))
                                if float(np.max(np.abs(F))) > 1e-9 * scale and float(np.max(np.abs(A - (E + F)))) <= 1e-12 * scale < err:
                                    folded = {"entity": ent, "A": A[:8].tolist(), "declared_for_id": E[:8].tolist(), "with_everywhere_folded_in": (E + F)[:8].tolist()}
                        mds = {terms[j].md for j in contributing}
                        if folded is not None:
                            _viol(chk, f"sum:otherwise-folded:{n}:{t}:{i}", "the kernels listed under an explicit id also add the 'everywhere' integrals "
                                  "(an 'otherwise' integral is folded into an explicit id)", {"family": n, "ufl": str(form)[:400], "type": t, "id": i,
                                                                                               "domain_tag": tag, "everywhere_terms": everywhere, **folded})
                        elif everywhere and fold_gap > 1e-9 * scale:
                            # the oracle distinguishes "declared for id" from "declared for id + everywhere" on this case
                            chk.case("otherwise-not-folded", key=f"{n}|{t}|{i}|{tag}")
                        if not np.isfinite(worst) or worst > 1e-12 * scale:
                            key = f"sum:quadrature-metadata:{n}" if len(mds) > 1 else f"sum:dispatch:{n}:{t}:{i}"
                            _viol(chk, key, "kernels listed under (type,id), applied in order, do not add up to the sum of the "
                                          "separately compiled integrands declared for that id",
                                          {"family": n, "ufl": str(form)[:400], "type": t, "id": i, "domain_tag": tag, "rows": rows,
                                           "terms": contributing, "metadata": [dict(m) for m in mds], "max_abs_err": worst, "scale": scale, **(failing or {})})
                        chk.case("summation", key=f"{n}|{t}|{i}|{tag}|rows{len(rows)}of{len(listed)}|terms{len(contributing)}",
                                 sample={"family": n, "type": t, "id": i, "rows": len(rows), "listed_under_id": len(listed),
                                         "terms": len(contributing), "err": worst})


def probe_negative_ids(chk, d):
    """user ids < 0 (alone, in tuples, next to 'everywhere') and user ids > 2^31-1 (commit 9a772cd) must be rejected, the boundary
    id 2^31-1 accepted; the search keys for an accepted explicit -1 / too large id stay armed"""
    m, V = corpus.space("triangle", "P", 1)
    u, v = ufl.TrialFunction(V), ufl.TestFunction(V)
    f = ufl.Coefficient(V)
    B = 2**31
    cases = [
        ("dx(-1)+dx", lambda: u * v * ufl.dx(-1) + f * u * v * ufl.dx, [-1], False),
        ("dx(-1)", lambda: u * v * ufl.dx(-1), [-1], False),
        ("ds((2,-1))", lambda: u * v * ufl.ds((2, -1)) + u * v * ufl.dx, [2, -1], False),
        ("dx(-2)", lambda: u * v * ufl.dx(-2), [-2], False),
        ("dS((0,-7))", lambda: u("+") * v("-") * ufl.dS((0, -7)), [0, -7], False),
        ("dx(-2^31)", lambda: u * v * ufl.dx(-B), [-B], False),
        ("dx(2^31-1)", lambda: u * v * ufl.dx(B - 1), [B - 1], True),
        ("dx(2^31)", lambda: u * v * ufl.dx(B), [B], False),
        ("ds((1,2^31+5))+dx", lambda: u * v * ufl.ds((1, B + 5)) + u * v * ufl.dx, [1, B + 5], False),
        ("dx(2^32)", lambda: u * v * ufl.dx(2**32), [2**32], False),
        ("dx((2^31,-3))", lambda: u * v * ufl.dx((B, -3)), [-3, B], False),
    ]
    for name, build, sids, legit in cases:
        try:
            form = build()
            with warnings.catch_warnings():
                warnings.simplefilter("ignore")
                an, ir = pipeline.compute([form])
            accepted, msg = True, None
        except ValueError as ex:
            accepted, msg = False, str(ex)
        model = d.ask(f"(formir ((cell {sx(sids)} k (2))))")
        if accepted:
            if model[0] != "ok":
                chk.disagree("_compute_form_ir accepts an id the model rejects", {"form": name, "model": model})
            listed = {t: [int(i) for i in ir.forms[0].subdomain_ids[t]] for t in TYPES if ir.forms[0].subdomain_ids[t]}
            if not legit:
                big = any(s > B - 1 for s in sids)
                key = KEY_MINUS_ONE if -1 in sids else (f"formir:id-above-int32-accepted:{name}" if big else f"formir:negative-id-accepted:{name}")
                _viol(chk, key, ("an explicit subdomain id above 2^31-1 is accepted (form_integral_ids is an array of C int: the id wraps)" if big and -1 not in sids
                                 else "an explicit negative subdomain id is accepted" + (" and its kernel is listed in the 'everywhere' slot -1" if -1 in sids else "")),
                      {"form": name, "ufl": str(form)[:300], "subdomain_ids": listed})
            elif listed != {"cell": sids}:
                _viol(chk, f"formir:boundary-id:{name}", "the largest representable subdomain id is not listed unchanged", {"form": name, "subdomain_ids": listed})
        else:
            if legit:
                _viol(chk, f"formir:boundary-id-rejected:{name}", "the largest id that fits a C int is rejected", {"form": name, "message": msg})
            if model[0] != "error" or model[1] != msg:
                chk.disagree("_compute_form_ir rejection", {"form": name, "model": model, "impl": msg})
        chk.case("negative-id" if any(x < 0 for x in sids) else "large-id", key=f"{name}|{'accepted' if accepted else 'rejected'}")


def named_objects(chk):
    """name maps and the form alias when the UFL file names its objects (`object_names`), codegen only"""
    import ffcx.compiler
    import ffcx.options

    m, V = corpus.space("triangle", "P", 1)
    f, g, h = ufl.Coefficient(V), ufl.Coefficient(V), ufl.Coefficient(V)
    k1, k2 = ufl.Constant(m), ufl.Constant(m, shape=(2,))
    v = ufl.TestFunction(V)
    J = (f * f * h + g) * k2[1] * ufl.dx + k1 * f * ufl.ds(2)
    F = ufl.derivative(J, f, v)  # g drops out; constants stay in original order (k1, k2)
    names = {id(f): "temperature", id(h): "kappa", id(g): "gone", id(k2): "beta", id(F): "residual"}
    code, _ = ffcx.compiler.compile_ufl_objects([F], options=ffcx.options.get_options({}), object_names=names, namespace="ns")
    src = code[1]
    cn = re.search(r"coefficient_names_form_\w+\[(\d+)\] = \{([^}]*)\}", src)
    kn = re.search(r"constant_names_form_\w+\[(\d+)\] = \{([^}]*)\}", src)
    pm = re.search(r"original_coefficient_position_form_\w+\[\d+\] = \{([^}]*)\}", src)
    if pm is None:
        chk.disagree("form template changed: cannot read original_coefficient_position", {"case": "named-objects"})
        return
    got = {
        "coefficient_names": [x.strip().strip('"') for x in cn.group(2).split(",")] if cn else [],
        "constant_names": [x.strip().strip('"') for x in kn.group(2).split(",")] if kn else [],
        "alias": bool(re.search(r"ufcx_form\* form_ns_residual = &form_", src)),
        "positions": [int(x) for x in pm.group(1).split(",")],
    }
    # expected from the UFL form: reduced coefficients (f, h) at original positions 0 and 2; constants by count
    kexp = ["beta" if q is k2 else f"c{j}" for j, q in enumerate(F.constants())]
    exp = {"coefficient_names": ["temperature", "kappa"], "constant_names": kexp, "alias": True, "positions": [0, 2]}
    if got != exp:
        _viol(chk, "descriptor:named-objects", "name maps / alias / positions of a form with named objects disagree with the UFL file",
              {"descriptor": got, "expected": exp})
    chk.case("named-objects", key="derivative-drops-middle-coefficient")
    # several forms in one module that are equal up to renaming of their coefficients/constants (equal UFL
    # signatures): each form's name maps, alias, rank and counts must be its OWN
    t1, t2, g2, h2 = ufl.Coefficient(V), ufl.Coefficient(V), ufl.Coefficient(V), ufl.Coefficient(V)
    q1, q2 = ufl.Constant(m), ufl.Constant(m)
    u = ufl.TrialFunction(V)
    L1 = q1 * t1 * v * ufl.dx + t2 * v * ufl.ds(1)
    L2 = q2 * g2 * v * ufl.dx + h2 * v * ufl.ds(1)
    a1 = t1 * u * v * ufl.dx
    a2 = h2 * u * v * ufl.dx
    names = {id(t1): "t1", id(t2): "t2", id(g2): "g2", id(h2): "h2", id(q1): "q1", id(q2): "q2",
             id(L1): "L1", id(L2): "L2", id(a1): "a1", id(a2): "a2"}
    try:
        code, _ = ffcx.compiler.compile_ufl_objects([L1, a1, L2, a2], options=ffcx.options.get_options({}), object_names=names, namespace="ns")
    except Exception as ex:  # a module of four ordinary forms must compile
        _viol(chk, "descriptor:named-objects:signature-equal-forms",
              f"a module with forms that are equal up to renaming of coefficients/constants fails to generate ({type(ex).__name__}: {str(ex)[:120]})",
              {"exception": type(ex).__name__})
        return
    src = code[1]
    exp = {"L1": (["t1", "t2"], ["q1"], 1), "L2": (["g2", "h2"], ["q2"], 1), "a1": (["t1"], [], 2), "a2": (["h2"], [], 2)}
    for alias, (cnames, knames, rank) in exp.items():
        mm = re.search(r"ufcx_form\* form_ns_%s = &(form_\w+);" % alias, src)
        got = None
        if mm:
            fname = mm.group(1)
            cn = re.search(r"coefficient_names_%s\[\d+\] = \{([^}]*)\}" % fname, src)
            kn = re.search(r"constant_names_%s\[\d+\] = \{([^}]*)\}" % fname, src)
            at = src.find("ufcx_form %s =" % fname)
            if at < 0:
                chk.disagree("form template changed: cannot read the ufcx_form struct", {"case": "named-objects", "form": fname})
                continue
            body = src[at:]
            rk = re.search(r"\.rank = (\d+)", body)
            got = ([x.strip().strip('"') for x in cn.group(1).split(",")] if cn else [],
                   [x.strip().strip('"') for x in kn.group(1).split(",")] if kn else [], int(rk.group(1)) if rk else None)
        chk.case("named-objects", key=f"signature-equal-forms:{alias}")
        if got != (cnames, knames, rank):
            _viol(chk, "descriptor:named-objects:signature-equal-forms",
                  "a form that is equal to another form of the module up to renaming of coefficients/constants gets the wrong name maps / alias / rank",
                  {"alias": alias, "descriptor": got, "expected": [cnames, knames, rank]})


# =============================================================================== entry point
def run(chk):
    chk.rule = ("real FormIRs: every form of the corpus/demos/seeded generators and of the dispatch families (ints, tuples, everywhere, "
                "repeated ids with other quadrature degrees, 5 integral types, prism facets, several forms per module); distinct = "
                "distinct per-type id lists/domain multiplicities; non-trivial = ≥2 types, ≥2 entries of one type, or a multi-domain "
                "integral. synthetic: seeded id lists with duplicates / multi-domain sets (distinct = distinct group sizes+offsets). "
                "summation: one case per (family, type, id, domain tag).")
    chk.trusted += [
        "harness/extract_layout.py (ufcx.h enum parser; observation of the type tuples by running integral_data/_compute_form_ir)",
        "UFL's compute_form_data (integral grouping, reduced coefficients) and basix (cell sub-entity types, element hashes) as data",
        "cffi struct access to the compiled ufcx_form/ufcx_integral objects; C compiled with -O0",
        "summation oracle is differential against FFCx itself on single-integrand forms",
    ]
    chk.assumptions += [
        "np.argsort returns a permutation of range(n) that sorts (checked on every input of this run by `argsortok`); "
        "stability is NOT assumed",
        "FormIR.subdomain_ids/integral_names/integral_domains are extended in lockstep (modelled as one list of triples)",
    ]
    _REPORTED.clear()
    changed, gen = extract_layout.regenerate()
    chk.notes["generated_integral_types"] = {"changed": changed, **{k: [list(x) if isinstance(x, tuple) else x for x in v] for k, v in gen.items()}}
    chk.lean("FfcxProofs.C06", THEOREMS, extra_files=layout_checks.LAYOUT_FILES)
    state = {}
    with lean.Driver("driver_layout") as d:
        ty = d.ask("(types)")
        if ty[0] != gen["integral_data"] or ty[1] != gen["form_ir"] or [(a, int(b)) for a, b in ty[2]] != gen["enum"]:
            chk.disagree("driver built from stale Generated/IntegralTypes.lean", {"driver": ty, "extracted": gen})
        if tuple(gen["integral_data"]) != TYPES:
            # the harness' own iteration order is the documented one; a change in /repo is reported by enum_order/(types)
            chk.notes["types_changed"] = gen["integral_data"]
        import time

        tm = {}
        for nm, fn in (("correspond_real", correspond_real), ("correspond_synthetic", correspond_synthetic),
                       ("correspond_emit_synthetic", correspond_emit_synthetic), ("readback_and_sum", readback_and_sum)):
            t0 = time.time()
            fn(chk, d, state)
            tm[nm] = round(time.time() - t0, 1)
        probe_negative_ids(chk, d)
        named_objects(chk)
        chk.notes["phase_s"] = tm
    if chk.tier == "thorough":
        chk.leanchecker(["FfcxProofs.C06", "FfcxProofs.Lemmas.Layout"])
