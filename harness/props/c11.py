"""C11 — requested quadrature degree/scheme is honoured and exact where it should be."""
import itertools
from fractions import Fraction

import basix.ufl
import numpy as np
import ufl
from ufl import Coefficient, FunctionSpace, SpatialCoordinate, TestFunction, dx

from .. import cjit, corpus, kernels, lean, monomial, numeric, pipeline

_TD = {"interval": 1, "triangle": 2, "quadrilateral": 2, "tetrahedron": 3, "hexahedron": 3}


def split_degree(q, dim, variant):
    """exponents with total degree q (and each ≤ q), two variants per degree"""
    if dim == 1:
        return (q,)
    if dim == 2:
        a = (q + variant) // 2 if variant == 0 else q // 3
        return (a, q - a)
    a = q // 3 + (1 if variant else 0)
    b = (q - a) // 2
    return (a, b, q - a - b)


def monomial_entry(cell, degrees):
    dim = _TD[cell]

    def b():
        m = corpus.mesh(cell)
        x = SpatialCoordinate(m)
        form = None
        for k, q in enumerate(degrees):
            for variant in (0, 1):
                ex = split_degree(q, dim, variant)
                mono = 1
                for i, a in enumerate(ex):
                    if a:
                        mono = mono * x[i] ** a
                if q == 0:
                    mono = ufl.as_ufl(1.0)
                term = mono * dx(domain=m, subdomain_id=2 * k + variant + 1, degree=q)
                form = term if form is None else form + term
        return [form]
    return corpus.Entry(f"monomials_{cell}", b, tags=("c11",))


def exactness(chk, degrees):
    """degree-q default rule integrates degree-q monomials exactly on random affine cells."""
    cells = ["interval", "triangle", "quadrilateral", "tetrahedron", "hexahedron"]
    ents = [monomial_entry(c, degrees) for c in cells]

    def work(i):
        e = ents[i]
        cell = cells[i]
        dim = _TD[cell]
        rng = np.random.default_rng(chk.seed * 71 + i)
        out = {"cell": cell, "n": 0, "bad": [], "maxrel": 0.0}
        objs, cases, comp, mod = numeric.build(e, {})
        for c in cases:
            sid = c.extra["subdomain_ids"][0]
            k, variant = divmod(sid - 1, 2)
            q = degrees[k]
            ex = split_degree(q, dim, variant)
            ko = kernels.compiled_kernel(comp, c)
            for rep in range(2):
                # random affine cell with dyadic data: origin + J * reference, J = I + perturbation
                J = [[Fraction(int(rng.integers(-8, 9)), 32) + (1 if r == cc else 0) for cc in range(dim)] for r in range(dim)]
                o = [Fraction(int(rng.integers(-16, 17)), 16) for _ in range(dim)]
                if monomial.det(J) == 0:
                    continue
                ref = kernels._REF[cell]
                xs = np.zeros((len(ref), 3))
                for n, X in enumerate(ref):
                    for r in range(dim):
                        xs[n, r] = float(o[r] + sum(J[r][cc] * X[cc] for cc in range(dim)))
                A = np.zeros(1)
                pipeline.call_kernel(mod, ko, "float64", A, np.zeros(1), np.zeros(1), xs.reshape(-1), [0], [0])
                exact = monomial.affine_monomial(cell, o, J, ex)
                # scale: |det J| * vol * max |x|^q bounds every quadrature term
                xmax = max(1.0, float(np.abs(xs).max()))
                scale = max(abs(float(exact)), float(abs(monomial.det(J))) * xmax ** q * 1e-3, 1e-300)
                rel = abs(A[0] - float(exact)) / scale
                out["n"] += 1
                out["maxrel"] = max(out["maxrel"], rel)
                if not rel <= 1e-9:
                    out["bad"].append({"cell": cell, "degree": q, "exponents": ex, "kernel": A[0], "exact": str(exact),
                                       "rel": rel, "J": [[str(v) for v in row] for row in J], "origin": [str(v) for v in o]})
        return out
    res = cjit.parallel_map(work, list(range(len(ents))))
    for i, (st, r) in sorted(res.items()):
        if st != "ok":
            chk.notes.setdefault("errors", []).append(f"{cells[i]}: {st}: {str(r)[:300]}")
            chk.disagree("monomial exactness run failed", {"cell": cells[i], "detail": str(r)[:300]})
            continue
        chk.case("monomial_exact", f"{r['cell']}:{len(degrees)}deg", n=r["n"],
                 sample={"cell": r["cell"], "degrees": degrees, "kernel_calls": r["n"], "max_rel_err": r["maxrel"]})
        for b in r["bad"][:3]:
            chk.violation(f"c11:inexact:{b['cell']}:deg{b['degree']}",
                          f"degree-{b['degree']} rule does not integrate x^{b['exponents']} exactly on an affine {b['cell']}", b)


def rule_pair_entries(pairs):
    out = []
    for a, b_ in pairs:
        def mk(a=a, b_=b_):
            m, V = corpus.space("triangle", "P", 2)
            v = TestFunction(V)
            f, g = Coefficient(V), Coefficient(V)
            da = dx(degree=a) if isinstance(a, int) else dx(degree=2, scheme=a)
            db = dx(degree=b_) if isinstance(b_, int) else dx(degree=2, scheme=b_)
            return [f * v * da + f * g * v * db]
        out.append(corpus.Entry(f"rules_{a}_{b_}", mk, tags=("c11",)))

    def tet():
        m, V = corpus.space("tetrahedron", "P", 1)
        v = TestFunction(V)
        f = Coefficient(V)
        return [f * v * dx(degree=1) + f * f * v * dx(degree=3) + f * v * ufl.ds(degree=1) + f * f * f * v * ufl.ds(degree=4)]
    out.append(corpus.Entry("rules_tet_mixed", tet, tags=("c11",)))

    def quad():
        m, V = corpus.space("quadrilateral", "Q", 2)
        v = TestFunction(V)
        f = Coefficient(V)
        return [f * v * dx(degree=0) + f * f * v * dx(degree=5) + f * v * dx(degree=3, scheme="GLL")]
    out.append(corpus.Entry("rules_quad_schemes", quad, tags=("c11",)))

    # the vertex scheme on facet (and interior facet) measures of simplices and hypercubes
    for cell in ("triangle", "tetrahedron", "quadrilateral", "hexahedron"):
        def vfacet(cell=cell):
            fam = "Q" if cell in ("quadrilateral", "hexahedron") else "P"
            m, V = corpus.space(cell, fam, 1)
            v = TestFunction(V)
            f = Coefficient(V)
            return [f * v * ufl.ds(degree=1, scheme="vertex") + f * f * v * ufl.ds(degree=3)
                    + f("+") * v("-") * ufl.dS(degree=1, scheme="vertex") + f * v * dx(degree=1, scheme="vertex")]
        out.append(corpus.Entry(f"vertex_scheme_facets_{cell}", vfacet, tags=("c11",)))

    # a quadrature element in ONE integral of a subdomain must not change the rule of the others
    for cell, deg in (("interval", 3), ("triangle", 2), ("tetrahedron", 2)):
        def qel(cell=cell, deg=deg):
            m, V = corpus.space(cell, "P", 1)
            Q = FunctionSpace(m, basix.ufl.quadrature_element(cell, degree=deg))
            v = TestFunction(V)
            fq = Coefficient(Q)
            g = Coefficient(V)
            x = SpatialCoordinate(m)
            return [fq * x[0] * v * dx + g * g * g * v * dx(degree=4) + g * v * dx(degree=1)]
        out.append(corpus.Entry(f"quadrature_element_mixed_rules_{cell}", qel, tags=("c11",)))
    return out


def default_degree_entries():
    """polynomial forms on affine cells without metadata vs the same form with a much higher explicit degree"""
    out = []
    for cell, fam, deg in [("triangle", "P", 2), ("tetrahedron", "P", 1), ("interval", "P", 3)]:
        def lo(cell=cell, fam=fam, deg=deg):
            m, V = corpus.space(cell, fam, deg)
            v = TestFunction(V)
            f, g = Coefficient(V), Coefficient(V)
            return [f * g * v * dx + ufl.inner(ufl.grad(f), ufl.grad(v)) * g * dx]

        def hi(cell=cell, fam=fam, deg=deg):
            m, V = corpus.space(cell, fam, deg)
            v = TestFunction(V)
            f, g = Coefficient(V), Coefficient(V)
            return [f * g * v * dx(degree=3 * deg + 6) + ufl.inner(ufl.grad(f), ufl.grad(v)) * g * dx(degree=3 * deg + 6)]
        out.append((corpus.Entry(f"default_{cell}", lo, tags=("c11",)), corpus.Entry(f"high_{cell}", hi, tags=("c11",))))
    return out


def default_exact(chk):
    pairs = default_degree_entries()

    def work(i):
        lo, hi = pairs[i]
        rng = np.random.default_rng(chk.seed + i)
        objs, cases, comp, mod = numeric.build(lo, {})
        objs2 = hi.build()
        fo = numeric.oracles_for(hi, objs2)
        c = cases[0]
        inp = numeric.make_data(c, rng)
        A = numeric.call_c(mod, kernels.compiled_kernel(comp, c), c, inp, "float64")
        B = fo["forms"][0].tabulate(0, inp["w"], inp["c"], inp["coordinate_dofs"], [0])
        return {"name": lo.name, "rel": float(np.abs(A - B).max() / max(1.0, np.abs(B).max()))}
    res = cjit.parallel_map(work, list(range(len(pairs))))
    for i, (st, r) in sorted(res.items()):
        if st != "ok":
            chk.notes.setdefault("errors", []).append(f"default {i}: {st}: {str(r)[:200]}")
            continue
        chk.case("default_degree_exact", r["name"], sample=r)
        if not r["rel"] <= 1e-11:
            chk.violation(f"c11:default-degree-inexact:{r['name']}",
                          "a polynomial form on an affine cell is not integrated exactly with the default (estimated) degree", r)


THEOREMS = ["Ffcx.Quad.tensor_rule_exact", "Ffcx.Quad.tensor_rule_exact3", "Ffcx.Quad.tensor_rule_exact_upto",
            "Ffcx.Quad.vertex_rule_exact1", "Ffcx.Quad.moment_linear", "Ffcx.Quad.group_partition", "Ffcx.Quad.groupInsert_sound"]


def run(chk):
    chk.rule = ("exactness: per cell one compiled form with one integral per (degree, monomial) — kernel on random affine cells vs exact "
                "rational closed forms (Fractions); rule pairs: forms with two/three rules on one subdomain vs the oracle applying each "
                "integral's own rule; default degree vs a much higher explicit degree. distinct = (cell, degree set) / form.")
    chk.trusted += ["Basix quadrature data (points/weights) enter as data", "harness/monomial.py closed forms; harness/oracle.py"]
    chk.lean("FfcxProofs.C11", THEOREMS)
    # selection pipeline: Lean transcription of _analyze_form's metadata logic and of _group_integrands_by_quadrature_rule,
    # theorems over all groups; model vs the real functions on seeded forms (every rule array re-derived from Basix)
    from .. import quadsel_checks
    chk.lean(quadsel_checks.QUADSEL_MODULE, quadsel_checks.QUADSEL_THEOREMS, extra_files=quadsel_checks.QUADSEL_FILES)
    with lean.Driver("driver_quadsel") as d:
        quadsel_checks.check_tables(chk, d)
        quadsel_checks.check_selection(chk, d, chk.seed, 240 if chk.tier == "quick" else 1500)
    chk.trusted += ["Basix arrays enter as data; UFL compute_form_data is the selection model's input"]
    degrees = list(range(0, 31)) if chk.tier == "thorough" else [0, 1, 2, 3, 4, 5, 6, 8, 11, 15]
    exactness(chk, degrees)
    vals = [0, 1, 2, 3, 5] if chk.tier == "quick" else [0, 1, 2, 3, 4, 5, 7, 10]
    pairs = list(itertools.combinations(vals, 2)) + [(1, "vertex"), ("vertex", 4)]
    ents = rule_pair_entries(pairs) + [e for e in corpus.fixed() if e.name in ("multi_rule", "quadrature_element", "single_point_rules", "multi_rule_coefs", "quadrature_element_mixed_rules")]

    def work(i):
        return numeric.compare_entry(ents[i], {}, seed=chk.seed * 17 + i, reps=1, all_entities=False)
    res = cjit.parallel_map(work, list(range(len(ents))))
    for i, (st, r) in sorted(res.items()):
        e = ents[i]
        if st != "ok" or "error" in r:
            chk.notes.setdefault("errors", []).append(f"{e.name}: {st}: {str(r)[:200]}")
            continue
        chk.programs += r["cases"]
        chk.case("rule_pairs", e.name, n=max(1, r["compared"]),
                 sample={"entry": e.name, "max_rel_err": r["maxrel"]} if len(chk.samples) < 8 else None)
        for b in r["bad"]:
            key = "c01:multi-rule-shared-piecewise-scope" if False else f"c11:rules-share-values:{e.name}"
            chk.violation(key, f"integrals with different rules on one subdomain: kernel differs from per-integral quadrature (rel {b.get('relerr')})",
                          {"entry": e.name, **b})
    default_exact(chk)
    if chk.tier == "thorough":
        chk.leanchecker(["FfcxProofs.C11"])
