"""C03 — interior-facet results do not depend on local vertex numbering (DESIGN.md §6 C03).

Parts
 (a) Lean obligations (FfcxProofs.C03).
 (b) correspondence model <-> code: permute_quadrature_* on seeded exact (dyadic) points; the rows of
     the real permuted tables (points of every row and their contents, captured inside
     build_optimized_tables) against the model's `2*rot+ref` order; is_permuted_table; the
     subscripts produced by access.table_access.
 (c) generator obligation of `flag_false_independent` on every interior-facet kernel:
     needs_facet_permutations == False  =>  the exported AST does not read quadrature_permutation
     (the Lean predicate `readsS` evaluated by the native driver on the exported AST), and such kernels
     return the same tensor for every pair of permutation codes and every pair of numberings with the
     codes left at [0, 0].  The forms include kernels that really are flagged false (one-sided DG0, one-sided
     P1 gradients, one-sided one-point rules, interval cells); a run in which NO kernel is flagged false
     is reported (the obligation would be vacuous).
 (d) numbering-invariance search on compiled C kernels: two physical cells sharing a facet, EVERY pair of
     local vertex numberings in both tiers (4 interval, 36 triangle, 64 quadrilateral, 576 tetrahedron,
     2304 hexahedron pairs = all pairs of symmetries of the reference cell), aligning codes found
     geometrically, dofs matched by the physical basis functions; the un-permuted tensor must equal that
     of the reference numbering.  The tiers differ in the number of random geometries per form (1 / 4)
     and in two extra higher-degree forms.
"""
import itertools
import random
from fractions import Fraction
from types import SimpleNamespace

import basix
import basix.ufl
import numpy as np
import ufl

from harness import corpus as corpus_mod
from harness import extract_geom, kernels, lean, pipeline, sexp
from harness.props import c02 as G

THEOREMS = [
    "Ffcx.C03.perm_group_interval", "Ffcx.C03.perm_group_triangle", "Ffcx.C03.perm_group_quad",
    "Ffcx.C03.perm_compose", "Ffcx.C03.perm_compose_order_matters", "Ffcx.C03.aligning_code_exists",
    "Ffcx.C03.vertex_aligned_iff", "Ffcx.C03.facet_sum_change_of_variables", "Ffcx.C03.table_access_spec",
    "Ffcx.C03.table_access_spec_noperm", "Ffcx.C03.aligned_table_read", "Ffcx.C03.aligned_invariance_partial",
    "Ffcx.C03.drop_perm_axis", "Ffcx.C03.flag_false_independent",
]


# ------------------------------------------------------------------------- (b) correspondence
def corr_permute(chk, d, rng):
    from ffcx.ir.elementtables import (permute_quadrature_interval, permute_quadrature_quadrilateral,
                                       permute_quadrature_triangle)
    real = {"interval": lambda P, ref, rot: permute_quadrature_interval(P, ref),
            "triangle": lambda P, ref, rot: permute_quadrature_triangle(P, ref, rot),
            "quadrilateral": lambda P, ref, rot: permute_quadrature_quadrilateral(P, ref, rot)}
    for ft in ("interval", "triangle", "quadrilateral"):
        dim = 1 if ft == "interval" else 2
        for ref in range(4):
            for rot in range(1 if ft == "interval" else 6):
                P = G.dyadic(rng, (5, dim), -64, 192, 128.0)
                impl = np.asarray(real[ft](P.copy(), ref, rot), dtype=float)
                model = d.ask(f"(perm {ft} {ref} {rot} {G._pts_sexp(P)})")
                model = [[Fraction(a) for a in p] for p in model]
                impl_q = [[Fraction(float(x)) for x in row] for row in impl]
                chk.case(kind="permute", key=f"{ft}:{ref}:{rot}")
                if impl_q != model:
                    chk.disagree(f"permute_quadrature_{ft}", {"ref": ref, "rot": rot, "points": P.tolist(),
                                                              "impl": impl.tolist(),
                                                              "model": [[str(a) for a in p] for p in model]})
        # the harness' own reading of the ufcx.h convention (used to find aligning codes) vs the model
        for N in range(G.NUM_CODES[ft]):
            P = G.dyadic(rng, (4, dim), 0, 128, 128.0)
            mine = G.perm_np(ft, N, P)
            model = np.array([[float(Fraction(a)) for a in p] for p in d.ask(f"(permcode {ft} {N} {G._pts_sexp(P)})")])
            chk.case(kind="permcode", key=f"{ft}:{N}")
            if not np.array_equal(mine, model):
                chk.disagree("harness perm_np vs model permuteByCode", {"facet": ft, "code": N})
        impl_n = G.NUM_CODES[ft]
        model_n = int(d.ask(f"(numcodes {ft})"))
        if impl_n != model_n:
            chk.disagree("number of codes", {"facet": ft, "harness": impl_n, "model": model_n})


def corr_is_permuted(chk, d, rng):
    from ffcx.ir.elementtables import default_atol, default_rtol, is_permuted_table
    for k in range(40):
        shape = (int(rng.integers(1, 5)), int(rng.integers(1, 3)), int(rng.integers(1, 3)), int(rng.integers(1, 4)))
        row0 = G.dyadic(rng, shape[1:], -64, 64, 32.0)
        t = np.stack([row0] * shape[0])
        kinds = []
        for p in range(1, shape[0]):
            eps = [0.0, 1e-10, 1e-5, 0.5][int(rng.integers(0, 4))]
            kinds.append(eps)
            idx = tuple(int(rng.integers(0, s)) for s in shape[1:])
            t[(p, *idx)] += eps
        impl = bool(is_permuted_table(t))
        txt = "(" + " ".join("(" + " ".join("(" + " ".join("(" + " ".join(sexp.rat(float(v)) for v in dd) + ")"
                                                               for dd in q) + ")" for q in e) + ")" for e in t) + ")"
        model = d.ask(f"(ispermuted {sexp.rat(default_rtol)} {sexp.rat(default_atol)} {txt})") == "true"
        chk.case(kind="is_permuted", key=f"{shape}:{kinds}")
        if impl != model:
            chk.disagree("is_permuted_table", {"table": t.tolist(), "impl": impl, "model": model})


def corr_table_access(chk, d):
    import ffcx.codegeneration.lnodes as L
    from ffcx.codegeneration.access import FFCXBackendAccess
    from ffcx.codegeneration.symbols import FFCXBackendSymbols

    def ev(e, env):
        if isinstance(e, int):
            return e
        if isinstance(e, L.LiteralInt):
            return int(e.value)
        if isinstance(e, L.Symbol):
            return env[e.name]
        if isinstance(e, L.MultiIndex):
            return ev(e.global_index, env)
        if isinstance(e, L.ArrayAccess):
            return env[e.array.name][ev(e.indices[0], env)]
        if isinstance(e, L.Sum):
            return sum(ev(a, env) for a in e.args)
        if isinstance(e, L.Product):
            out = 1
            for a in e.args:
                out *= ev(a, env)
            return out
        if isinstance(e, (L.Add, L.Mul)):
            x, y = ev(e.lhs, env), ev(e.rhs, env)
            return x + y if isinstance(e, L.Add) else x * y
        raise TypeError(type(e))

    env = {"quadrature_permutation": [5, 7], "entity_local_index": [3, 4], "iq": 2, "ic": 1}
    for perm, uni, pw in itertools.product([False, True], repeat=3):
        for r, rn in (("+", "plus"), ("-", "minus"), (None, "none")):
            sy = FFCXBackendSymbols({}, {}, {})
            sy.element_tables["FE0"] = L.Symbol("FE0", dtype=L.DataType.REAL)
            acc = FFCXBackendAccess("facet", "interior_facet", sy, {})
            td = SimpleNamespace(name="FE0", is_permuted=perm, is_uniform=uni, is_piecewise=pw, tensor_factors=None)
            iq = L.MultiIndex([L.Symbol("iq", dtype=L.DataType.INT)], [4])
            ic = L.MultiIndex([L.Symbol("ic", dtype=L.DataType.INT)], [3])
            expr, _ = acc.table_access(td, "facet", r, iq, ic)
            impl = [ev(i, env) for i in expr.indices]
            ent = env["entity_local_index"][1 if r == "-" else 0]
            b = lambda x: "true" if x else "false"  # noqa: E731
            model = [int(a) for a in d.ask(f"(subscripts {b(perm)} {b(uni)} {b(pw)} {b(r == '-')} (5 7) {ent} 2)")]
            chk.case(kind="table_access", key=f"{perm}{uni}{pw}{rn}")
            if impl[:3] != model or impl[3] != 1:
                chk.disagree("access.table_access subscripts", {"flags": [perm, uni, pw], "restriction": r,
                                                                "impl": impl, "model": model})


# ------------------------------------------------------------------------- forms
class NForm:
    """An interior-facet form for the numbering search: UFL form + the elements of its arguments and
    coefficients (needed to match dofs between numberings)."""

    def __init__(self, name, cell, build):
        self.name, self.cell, self.build = name, cell, build

    def make(self):
        m = G.mesh(self.cell)
        dct = self.build(m)
        self.form = dct["form"]
        self.test, self.trial, self.coefs = dct.get("test"), dct.get("trial"), dct.get("coefs", [])
        self.kind = dct.get("kind", "two-sided")
        return self.form


CUSTOM_PTS = np.array([[0.1], [0.35], [0.8]])
CUSTOM_WTS = np.array([0.2, 0.5, 0.3])


def c03_forms(tier):
    from ufl import (Coefficient, FacetNormal, FunctionSpace, TestFunction, TrialFunction, avg, cross, dS, grad,
                     inner, jump)
    out = []
    custom = dict(metadata={"quadrature_rule": "custom", "quadrature_points": CUSTOM_PTS,
                            "quadrature_weights": CUSTOM_WTS})

    def lag_bilinear(cell, deg, fam=None):
        def b(m):
            e = G.El(fam, cell, deg) if fam else G.lag(cell, deg)
            V = FunctionSpace(m, e.ufl)
            u, v = TrialFunction(V), TestFunction(V)
            n = FacetNormal(m)
            return dict(form=jump(u) * avg(v) * dS + inner(avg(grad(u)), n("+")) * jump(v) * dS
                        + 2 * u("-") * v("+") * dS, test=e, trial=e)
        return b

    def lag_linear(cell, deg):
        def b(m):
            e, e1 = G.lag(cell, deg), G.lag(cell, 1)
            V, W = FunctionSpace(m, e.ufl), FunctionSpace(m, e1.ufl)
            f, g, v = Coefficient(V), Coefficient(W), TestFunction(W)
            n = FacetNormal(m)
            return dict(form=f("+") * g("-") * v("-") * dS + inner(jump(grad(f)), n("+")) * v("+") * dS
                        + n("+")[0] * g("+") * f("-") * v("+") * dS, test=e1, coefs=[e, e1])
        return b

    def tri_custom(m):
        e = G.lag("triangle", 1)
        W = FunctionSpace(m, e.ufl)
        return dict(form=TrialFunction(W)("+") * TestFunction(W)("-") * dS(**custom), test=e, trial=e)

    def tri_one_sided_custom(m):
        e = G.lag("triangle", 1)
        W = FunctionSpace(m, e.ufl)
        g = Coefficient(W)
        return dict(form=g("+") * TestFunction(W)("+") * dS(**custom), test=e, coefs=[e], kind="one-sided")

    def tri_one_sided(m):
        e = G.lag("triangle", 2)
        W = FunctionSpace(m, e.ufl)
        g = Coefficient(W)
        return dict(form=g("-") * TestFunction(W)("-") * dS, test=e, coefs=[e], kind="one-sided")

    def tet_vec(fam):
        def b(m):
            e = G.El(fam, "tetrahedron", 1)
            V = FunctionSpace(m, e.ufl)
            u, v = TrialFunction(V), TestFunction(V)
            n = FacetNormal(m)
            if fam == "N1curl":
                form = inner(u("+"), v("-")) * dS + inner(cross(n("+"), u("+")), cross(n("+"), v("-"))) * dS \
                    + inner(u("-"), n("+")) * inner(v("+"), n("+")) * dS
            else:
                form = inner(u("+"), n("+")) * inner(v("-"), n("+")) * dS + inner(u("-"), v("+")) * dS
            return dict(form=form, test=e, trial=e)
        return b

    # kernels flagged needs_facet_permutations = false on the pinned tree (one-sided integrands whose tables do not depend
    # on the facet permutation): piecewise-constant elements, gradients of degree-1 simplex elements, one-point rules
    # (the midpoint of the reference facet is fixed by every permutation), interval cells (point facets)
    def one_sided(cell, kind, r):
        def b(m):
            dg0 = G.El("DP" if cell in ("interval", "triangle", "tetrahedron") else "DQ", cell, 0)
            e1, e2 = G.lag(cell, 1), G.lag(cell, 2)
            n = FacetNormal(m)
            if kind == "dg0":
                V = FunctionSpace(m, dg0.ufl)
                return dict(form=Coefficient(V)(r) * TestFunction(V)(r) * dS, test=dg0, coefs=[dg0], kind="one-sided")
            if kind == "p1grad":
                V, W = FunctionSpace(m, e1.ufl), FunctionSpace(m, dg0.ufl)
                return dict(form=inner(grad(Coefficient(V))(r), n(r)) * TestFunction(W)(r) * dS, test=dg0, coefs=[e1],
                            kind="one-sided")
            if kind == "onepoint":
                V = FunctionSpace(m, e2.ufl)
                return dict(form=Coefficient(V)(r) * TestFunction(V)(r) * dS(degree=1), test=e2, coefs=[e2],
                            kind="one-sided")
            V = FunctionSpace(m, e2.ufl)  # "full": interval cells only (no facet permutations in 1D)
            return dict(form=Coefficient(V)(r) * TestFunction(V)(r) * dS, test=e2, coefs=[e2], kind="one-sided")
        return b

    out.append(NForm("ff_tri_dg0", "triangle", one_sided("triangle", "dg0", "+")))
    out.append(NForm("ff_tri_p1grad", "triangle", one_sided("triangle", "p1grad", "+")))
    out.append(NForm("ff_tri_onepoint", "triangle", one_sided("triangle", "onepoint", "+")))
    out.append(NForm("ff_interval_p2", "interval", one_sided("interval", "full", "+")))
    out.append(NForm("ff_quad_onepoint", "quadrilateral", one_sided("quadrilateral", "onepoint", "+")))
    out.append(NForm("ff_tet_dg0", "tetrahedron", one_sided("tetrahedron", "dg0", "+")))
    out.append(NForm("ff_tet_p1grad", "tetrahedron", one_sided("tetrahedron", "p1grad", "+")))
    out.append(NForm("ff_tet_onepoint", "tetrahedron", one_sided("tetrahedron", "onepoint", "+")))
    out.append(NForm("ff_hex_onepoint", "hexahedron", one_sided("hexahedron", "onepoint", "+")))
    out.append(NForm("tri_p2_bilinear", "triangle", lag_bilinear("triangle", 2)))
    out.append(NForm("tri_dp1_bilinear", "triangle", lag_bilinear("triangle", 1, "DP")))
    out.append(NForm("tri_linear", "triangle", lag_linear("triangle", 2)))
    out.append(NForm("tri_custom_rule", "triangle", tri_custom))
    out.append(NForm("tri_one_sided_custom", "triangle", tri_one_sided_custom))
    out.append(NForm("tri_one_sided", "triangle", tri_one_sided))
    out.append(NForm("interval_p2_bilinear", "interval", lag_bilinear("interval", 2)))
    out.append(NForm("quad_q2_bilinear", "quadrilateral", lag_bilinear("quadrilateral", 2)))
    # degree-1 tensor-product elements: derivative tables are constant along two facets and linear along the others
    out.append(NForm("quad_q1_bilinear", "quadrilateral", lag_bilinear("quadrilateral", 1)))
    out.append(NForm("quad_dq1_bilinear", "quadrilateral", lag_bilinear("quadrilateral", 1, "DQ")))
    out.append(NForm("quad_linear", "quadrilateral", lag_linear("quadrilateral", 2)))
    out.append(NForm("tet_p2_bilinear", "tetrahedron", lag_bilinear("tetrahedron", 2)))
    out.append(NForm("tet_linear", "tetrahedron", lag_linear("tetrahedron", 2)))
    out.append(NForm("tet_n1curl", "tetrahedron", tet_vec("N1curl")))
    out.append(NForm("tet_rt", "tetrahedron", tet_vec("RT")))
    out.append(NForm("hex_q1_bilinear", "hexahedron", lag_bilinear("hexahedron", 1)))
    out.append(NForm("hex_linear", "hexahedron", lag_linear("hexahedron", 1)))
    if tier != "quick":
        out.append(NForm("hex_q2_bilinear", "hexahedron", lag_bilinear("hexahedron", 2)))
        out.append(NForm("tet_p3_bilinear", "tetrahedron", lag_bilinear("tetrahedron", 3)))
    return out


# ------------------------------------------------------------------------- (c) flag obligation
def flag_obligation(chk, d, named_forms):
    """needs_facet_permutations == False  =>  AST does not read quadrature_permutation."""
    stats = {"flag_true": 0, "flag_false": 0, "reads": 0}
    for name, forms, kind, c03_owned in named_forms:
        try:
            cases, _, _ = kernels.cases_for_forms(name, forms)
        except Exception as ex:  # noqa: BLE001
            chk.notes.setdefault("flag_skipped", []).append(f"{name}: {type(ex).__name__}")
            if c03_owned:
                # the forms of this module are accepted on the pinned tree: losing one would silently shrink the obligation
                chk.disagree("flag obligation: a form of c03_forms could not be lowered to kernels",
                             {"form": name, "error": f"{type(ex).__name__}: {str(ex)[:300]}"})
            continue
        for case in cases:
            if case.integral_type != "interior_facet":
                continue
            chk.programs += 1
            flag = bool(case.ir.expression.needs_facet_permutations)
            reads = d.ask(f"(reads quadrature_permutation {case.ast_sexp})") == "true"
            textual = "quadrature_permutation" in case.ast_sexp
            if reads != textual:
                chk.disagree("readsS vs textual scan of the exported AST", {"kernel": case.name, "lean": reads, "text": textual})
            stats["flag_true" if flag else "flag_false"] += 1
            stats["reads"] += int(reads)
            chk.case(kind="flag", key=f"{name}:{flag}:{reads}")
            if (not flag) and reads:
                k = kind or "interior-facet"
                chk.violation(
                    key=f"flag:{k}:reads-perm",
                    what=f"needs_facet_permutations=false but the kernel reads quadrature_permutation ({case.name})",
                    payload={"form": name, "kernel": case.name, "needs_facet_permutations": flag,
                             "ast_reads_quadrature_permutation": True,
                             "lean": "generator obligation of Ffcx.C03.flag_false_independent"})
    chk.notes["flag_stats"] = stats
    if stats["flag_false"] == 0:
        chk.disagree("flag obligation is vacuous: no interior-facet kernel of the run is flagged needs_facet_permutations=false",
                     {"flag_stats": stats, "hint": "the ff_* forms of c03_forms are flagged false on the pinned tree"})


# ------------------------------------------------------------------------- (d) numbering search
HarnessGeometryError = G.HarnessGeometryError


def renumbered(pc, pi):
    return G.PhysCell(pc.cell, pc.V[list(pi)])


def local_facet(cell, base_facet, pi):
    """Index of the facet of the renumbered cell that is the old facet `base_facet`."""
    topo = G.ref_topology(cell)[G.TDIM[cell] - 1]
    target = set(topo[base_facet])
    hits = [f for f, fv in enumerate(topo) if {pi[j] for j in fv} == target]
    if len(hits) != 1:
        raise HarnessGeometryError(f"local_facet: {len(hits)} facets of the renumbered {cell} match facet {base_facet} ({pi})")
    return hits[0]


def basis_change(el, pc, pcn):
    """M with phi^new_k = sum_j M[k,j] phi^old_j as physical functions on the same cell."""
    Xn, _ = basix.make_quadrature(G.ctype(pc.cell), max(2 * el.degree + 2, 4))
    Xn = np.asarray(Xn)
    x = pcn.x(Xn)
    Xo = pc.inverse(x)
    Bn = el.tab(pcn, Xn)  # [p, k, c]
    Bo = el.tab(pc, Xo)
    p, k, c = Bn.shape
    Bn2 = Bn.transpose(0, 2, 1).reshape(p * c, k)
    Bo2 = Bo.transpose(0, 2, 1).reshape(p * c, k)
    Mt, *_ = np.linalg.lstsq(Bo2, Bn2, rcond=None)
    res = float(np.abs(Bo2 @ Mt - Bn2).max())
    if res > 1e-9:
        raise HarnessGeometryError(f"basis of {el.family} {el.degree} not covariant under renumbering (residual {res:.2e})")
    return Mt.T


def blockdiag(a, b):
    out = np.zeros((a.shape[0] + b.shape[0], a.shape[1] + b.shape[1]))
    out[: a.shape[0], : a.shape[1]] = a
    out[a.shape[0]:, a.shape[1]:] = b
    return out


class Config:
    """Two physical cells sharing a facet, in their reference numbering."""

    def __init__(self, cell, rng):
        self.cell = cell
        nf = G.num_facets(cell)
        self.ep, self.em = int(rng.integers(0, nf)), int(rng.integers(0, nf))
        self.ft = G.facet_type(cell, self.ep)
        syms = G.facet_symmetries(self.ft)
        tau = syms[int(rng.integers(0, len(syms)))]
        self.cp = G.random_affine_cell(cell, rng)
        try:
            self.cm = G.neighbour_cell(self.cp, self.ep, cell, self.em, tau, rng)
        except AssertionError as ex:
            raise HarnessGeometryError(f"neighbour_cell: {ex}") from ex
        # common physical parametrisation of the shared facet: '+' side of the reference numbering, code 0
        self.psi = self.cp.facet_param(self.ep, G.TEST_POINTS[self.ft])


def evaluate(nf, form_c, mod, cfg, pis, w_id, chk, codes=None):
    """Call the kernel for numbering `pis` = (pi+, pi-); returns (A in reference numbering, info).
    Raises HarnessGeometryError when the harness' own geometry fails (no unique aligning code, dofs not matched)."""
    cells = [renumbered(cfg.cp, pis[0]), renumbered(cfg.cm, pis[1])]
    base = [cfg.cp, cfg.cm]
    ents = [local_facet(cfg.cell, cfg.ep, pis[0]), local_facet(cfg.cell, cfg.em, pis[1])]
    if codes is None:
        codes = []
        for r in range(2):
            cands = G.aligning_codes(cfg.ft, lambda X, r=r: cells[r].facet_param(ents[r], X), cfg.psi)
            if len(cands) != 1:
                raise HarnessGeometryError(
                    f"align:{cfg.ft}:no-unique-code: {len(cands)} permutation codes align the facet points of side {r} "
                    f"(expected exactly 1; candidates {cands}; numbering {[list(p) for p in pis]})")
            codes.append(cands[0])
    Ms = {}

    def M(el, r):
        key = (id(el), r)
        if key not in Ms:
            Ms[key] = basis_change(el, base[r], cells[r])
        return Ms[key]

    w = []
    for el, wk in zip(nf.coefs, w_id):
        w.append([np.linalg.solve(M(el, r).T, wk[r]) for r in range(2)])  # w_new = M^{-T} w_id
    shape = []
    if nf.test is not None:
        shape.append(2 * nf.test.dim)
    if nf.trial is not None:
        shape.append(2 * nf.trial.dim)
    asize = int(np.prod(shape)) if shape else 1
    x = np.concatenate([c.coordinate_dofs().reshape(-1) for c in cells])
    integral = G.integrals_of(form_c, "interior_facet")[0]
    A = G.call(mod, integral, asize, G.pack_w(w, 2), x, ents, codes).reshape(shape if shape else (1,))
    # back to the reference numbering: A_new = D_test A_id D_trial^T
    if nf.test is not None:
        Dt = blockdiag(M(nf.test, 0), M(nf.test, 1))
        A = np.linalg.solve(Dt, A)
    if nf.trial is not None:
        Du = blockdiag(M(nf.trial, 0), M(nf.trial, 1))
        A = np.linalg.solve(Du, A.T).T
    return A, dict(entities=ents, codes=codes, coordinate_dofs=x.tolist(), w=G.pack_w(w, 2).tolist())


def numbering_pairs(cell):
    """(identity, ALL pairs (pi+, pi-) of vertex renumberings of the two cells): every pair of symmetries of the reference
    cell — 2x2 interval, 6x6 triangle, 8x8 quadrilateral, 24x24 tetrahedron, 48x48 hexahedron — in both tiers."""
    syms = G.cell_symmetries(cell)
    ident = tuple(range(len(syms[0])))
    return ident, [(a, b) for a in syms for b in syms]


EXPECTED_PAIRS = {"interval": 4, "triangle": 36, "quadrilateral": 64, "tetrahedron": 576, "hexahedron": 2304}


def search(chk, rng):
    forms = c03_forms(chk.tier)
    ufl_forms = [f.make() for f in forms]
    worst = {}
    reported = set()
    geometry_failures = 0

    def harness_failure(nf, what, ex):
        nonlocal geometry_failures
        geometry_failures += 1
        if geometry_failures <= 5:
            chk.disagree("numbering search: the harness' own geometry / dof matching failed (no statement about the kernel)",
                         {"form": nf.name, "stage": what, "error": f"{type(ex).__name__}: {str(ex)[:300]}"})

    with pipeline.TmpCache() as cache:
        try:
            compiled, mod, _ = pipeline.jit_forms(ufl_forms, cache)
        except Exception as ex:  # noqa: BLE001 - these forms compile on the pinned tree
            chk.disagree("numbering search: the forms of c03_forms no longer compile",
                         {"error": f"{type(ex).__name__}: {str(ex)[:400]}"})
            return
        chk.programs += len(forms)
        pair_counts = {}
        for nf, fc in zip(forms, compiled):
            integral = G.integrals_of(fc, "interior_facet")[0]
            flag = bool(integral.needs_facet_permutations)
            reps = 1 if chk.tier == "quick" else 4
            ident, pairs = numbering_pairs(nf.cell)
            pair_counts[nf.cell] = len(pairs)
            for rep in range(reps):
                try:
                    cfg = Config(nf.cell, rng)
                    w_id = [[G.dyadic(rng, (el.dim,), -32, 32, 16.0) for _ in range(2)] for el in nf.coefs]
                    Aref, iref = evaluate(nf, fc, mod, cfg, (ident, ident), w_id, chk)
                except (HarnessGeometryError, AssertionError, RuntimeError, np.linalg.LinAlgError) as ex:
                    harness_failure(nf, "reference numbering", ex)
                    continue
                scale = max(1.0, float(np.abs(Aref).max()))
                # flagged true: aligned codes of every numbering; flagged false: the codes stay [0, 0] in every numbering
                for pis in pairs:
                    try:
                        A, info = evaluate(nf, fc, mod, cfg, pis, w_id, chk, codes=None if flag else [0, 0])
                    except (HarnessGeometryError, AssertionError, RuntimeError, np.linalg.LinAlgError) as ex:
                        harness_failure(nf, f"numbering {[list(p) for p in pis]}", ex)
                        continue
                    err = float(np.abs(A - Aref).max()) / scale
                    worst[nf.name] = max(worst.get(nf.name, 0.0), err)
                    nontrivial = pis != (ident, ident) and float(np.abs(Aref).max()) > 1e-12
                    chk.case(kind="numbering" if flag else "numbering_flag_false",
                             key=f"{nf.name}:{pis}" if nontrivial else None,
                             sample={"form": nf.name, "numbering": [list(p) for p in pis], "codes": info["codes"],
                                     "entities": info["entities"], "rel_err": err}
                             if rng.integers(0, 2000) == 0 else None)
                    if not (err <= 1e-10):
                        chk.violation(
                            key=f"numbering:{nf.name}",
                            what=f"{nf.name}: tensor depends on the local vertex numbering (rel err {err:.3e})",
                            payload={"form": nf.name, "cell": nf.cell, "numbering": [list(p) for p in pis],
                                     "needs_facet_permutations": flag,
                                     "reference": iref, "renumbered": info, "A_reference": Aref.tolist(),
                                     "A_unpermuted": A.tolist(), "seed": chk.seed})
                # flagged false: the result must not depend on the permutation argument at all
                if not flag:
                    ncodes = G.NUM_CODES[cfg.ft]
                    dep = None
                    for cp_, cm_ in itertools.product(range(ncodes), repeat=2):
                        try:
                            A, info = evaluate(nf, fc, mod, cfg, (ident, ident), w_id, chk, codes=[cp_, cm_])
                        except (HarnessGeometryError, AssertionError, RuntimeError, np.linalg.LinAlgError) as ex:
                            harness_failure(nf, f"codes {[cp_, cm_]}", ex)
                            continue
                        err = float(np.abs(A - Aref).max()) / scale
                        chk.case(kind="flag_false_codes", key=f"{nf.name}:{cp_}:{cm_}")
                        worst[nf.name] = max(worst.get(nf.name, 0.0), err)
                        if err > 1e-10 and dep is None:
                            dep = dict(rel_err=err, A=A.tolist(), A_codes00=Aref.tolist(), **info)
                    if dep is not None and nf.name not in reported:
                        reported.add(nf.name)
                        chk.violation(
                            key=f"flag:{nf.kind}-dS:reads-perm" if nf.kind == "one-sided" else f"flag:{nf.name}:depends-on-perm",
                            what=f"needs_facet_permutations=false but the tensor of {nf.name} changes with quadrature_permutation",
                            payload={"form": nf.name, "detail": dep, "custom_rule": {"points": CUSTOM_PTS.tolist(),
                                                                                     "weights": CUSTOM_WTS.tolist()}})
        chk.notes["numbering_pairs_per_cell"] = pair_counts
        for cell, n in pair_counts.items():
            if n != EXPECTED_PAIRS[cell]:
                chk.disagree("numbering search: the enumeration of numbering pairs is not the full set the texts claim",
                             {"cell": cell, "enumerated": n, "expected": EXPECTED_PAIRS[cell]})
    chk.notes["numbering_geometry_failures"] = geometry_failures
    chk.notes["numbering_worst_rel_err"] = {k: float(f"{v:.3e}") for k, v in worst.items()}


def run(chk):
    rng = np.random.default_rng(3000 + chk.seed)
    random.seed(chk.seed)
    chk.rule = ("numbering search: one case per (form, random geometry, pair of local vertex numberings), enumerating in BOTH "
                "tiers ALL pairs of symmetries of the reference cell (interval 2x2=4, triangle 6x6=36, quadrilateral 8x8=64, "
                "tetrahedron 24x24=576, hexahedron 48x48=2304 pairs); quick: 1 random geometry per form, thorough: 4 and two "
                "more forms (hex Q2, tet P3); kind `numbering` = kernels flagged true with the geometrically aligned codes, "
                "`numbering_flag_false` = kernels flagged false with codes [0,0] in every numbering, `flag_false_codes` = "
                "kernels flagged false, reference numbering, all pairs of codes; non-trivial = not the reference numbering and "
                "a non-zero tensor; correspondence: one case per (facet type, reflections, rotations), per permutation row of "
                "a real table, per flag triple of table_access; flag obligation: one case per interior-facet kernel "
                "(a run with no kernel flagged false is reported as vacuous)")
    chk.trusted += [
        "harness/props/c02.py geometry helpers (numpy + basix): physical cells, facet parametrisations, aligning "
        "codes found geometrically with the ufcx.h reading of a code (N//2 rotations then N%2 reflections, tied to "
        "the Lean model by correspondence)",
        "dof matching between numberings by least squares on pushed-forward basix basis functions",
    ]
    chk.assumptions += [
        "DOLFINx is not installed: aligning codes are computed geometrically by the harness (a failure to find exactly one "
        "is a harness failure and is reported as a broken tie, not as a failing input)",
        "search geometries are affine (parallelotopes for quadrilateral/hexahedron), degree-1 coordinate elements",
        "interior-facet integrals on prisms are rejected by FFCx and are not searched",
        "floating point: tensors are compared to relative 1e-10 (scaled by max(1, |A|))",
    ]
    chk.notes["refcells_rewritten"] = extract_geom.regenerate()  # driver_geom links the generated module
    L = lean.LEAN
    chk.lean("FfcxProofs.C03", THEOREMS, extra_files=[
        L / "FfcxProofs/Lemmas/Geom.lean", L / "FfcxProofs/Lemmas/GeomIndep.lean", L / "FfcxModel/IR/Perm.lean",
        L / "FfcxModel/Geometry/RefCell.lean"])

    forms = c03_forms(chk.tier)
    named = []
    for e in corpus_mod.fixed():
        if "interior" in e.tags:
            try:
                named.append((e.name, e.build(), "one-sided-dS" if e.name == "one_sided_dS" else None, False))
            except Exception as ex:  # noqa: BLE001
                chk.notes.setdefault("corpus_build_failed", []).append(f"{e.name}: {type(ex).__name__}")
    for f in forms:
        named.append((f.name, [f.make()], "one-sided-dS" if f.kind == "one-sided" else None, True))

    with lean.Driver("driver_geom") as d:
        corr_permute(chk, d, rng)
        corr_is_permuted(chk, d, rng)
        corr_table_access(chk, d)
        total = 0
        for name, fl, _, _ in named:
            with G.TableCapture() as cap:
                try:
                    pipeline.compute(fl)
                except Exception as ex:  # noqa: BLE001
                    chk.notes.setdefault("table_capture_skipped", []).append(f"{name}: {type(ex).__name__}")
                    continue
            total += G.check_tables(chk, d, cap.records, f"tables of {name}")
        chk.notes["table_blocks_compared"] = total
        flag_obligation(chk, d, named)

    search(chk, rng)
    if chk.tier != "quick":
        chk.leanchecker(["FfcxProofs.Lemmas.Geom", "FfcxProofs.Lemmas.GeomIndep", "FfcxProofs.C03"])
