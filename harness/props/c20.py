"""C20 — the command-line compiler.

 (a) Lean obligations (FfcxProofs.C20) over the hand-written models and the tables regenerated from
     /repo (Generated/Options.lean, Generated/Templates.lean, Generated/TemplatePieces.lean — the
     template strings of both backends split into literal characters and holes).
 (b) Correspondence on seeded random inputs: options.get_options vs `getOptions` (temporary
     XDG_CONFIG_HOME and cwd, `_load_options` cache cleared), main.parser.parse_args + the priority
     dict vs `priorityOptions`, the options `main` really compiles with vs `mainOptions`,
     main.sanitise_filename vs `sanitiseFilename` (observed through a `main` whose compile/write
     steps are stubbed), formatting.format_code vs `formatCodeE` (rectangular, ragged and empty
     inputs: IndexError modelled), `str.format_map` vs `Tpl.inst` on random fillings of every
     template, `common.template_keys` vs the holes of the regenerated tables.
     Templates on REAL runs (probe objects × both backends, and every CLI run of (c)): every
     instantiation of a template string is recorded (extract_templates.Recorder); the model's
     instance for the recorded filling must equal the emitted text byte by byte, the filling must
     satisfy the obligations of `decl_defined_templates`, declaration and implementation of a block
     must be filled consistently, the blocks handed to `format_code` must be exactly these
     instances, and the lexical machine's reading of the instances is compared with the harness's
     own C lexers and with `nm`.
 (c) Search on the real `ffcx` entry point: fixed and seeded GENERATED .ufl files (elements × cells ×
     integrals × coefficient / constant / form / expression names × file names with unusual
     characters × -n/-o/-i × scalar types × $PWD json) -> ffcx.main.main -> <stem>.h/.c;
     stand-alone compile against ufcx.h, `nm` symbols ⊇ header externs, aliases present (expected
     names computed from the generator's own bookkeeping and the file stem), kernels bitwise equal
     to the JIT path, numba output imported and its aliases / descriptors compared; every
     option-source combination takes effect with the documented precedence.
"""
import ast
import contextlib
import json
import os
import random
import re
import shutil
import subprocess
import sysconfig
import tempfile
from pathlib import Path

import numpy as np

from .. import extract_names as X
from .. import extract_templates as T
from .. import lean

THEOREMS = [
    "Ffcx.Cli.merge_precedence",
    "Ffcx.Cli.merge_precedence_none",
    "Ffcx.Cli.priority_iff_given",
    "Ffcx.Cli.cli_only_given_generated",
    "Ffcx.Cli.cli_only_given",
    "Ffcx.Cli.cli_not_given_falls_through",
    "Ffcx.Cli.Tpl.symRun_sound",
    "Ffcx.Cli.decl_defined_pair",
    "Ffcx.Cli.templates_pairOk",
    "Ffcx.Cli.decl_defined_templates",
    "Ffcx.Cli.source_defines_declared",
    "Ffcx.Cli.format_code_templates",
    "Ffcx.Cli.cli_header_source_consistent",
    "Ffcx.Cli.decl_defined_probes",
    "Ffcx.Cli.format_code_concat",
    "Ffcx.Cli.format_code_ragged",
    "Ffcx.Cli.format_code_no_default",
    "Ffcx.Cli.sanitise_ident",
    "Ffcx.Cli.cli_alias_valid",
]

LEAN_FILES = [
    lean.LEAN / "FfcxProofs" / "Lemmas" / "Names.lean",
    lean.LEAN / "FfcxProofs" / "Lemmas" / "CliTemplates.lean",
    lean.LEAN / "FfcxModel" / "Cli" / "Options.lean",
    lean.LEAN / "FfcxModel" / "Cli" / "Templates.lean",
    lean.LEAN / "FfcxModel" / "Cli" / "Driver.lean",
    lean.LEAN / "FfcxModel" / "Jit" / "Naming.lean",
    lean.LEAN / "FfcxModel" / "Generated" / "Options.lean",
    lean.LEAN / "FfcxModel" / "Generated" / "Templates.lean",
    lean.LEAN / "FfcxModel" / "Generated" / "TemplatePieces.lean",
    lean.LEAN / "DriverNames.lean",
]

U = X.sexp_str
DEC = X.sexp_unstr
INCLUDE = Path("/repo/ffcx/codegeneration")


def viol_once(chk, key, what, payload):
    """Report a violation key once per run (first witness)."""
    seen = chk.notes.setdefault("violation_keys_reported", [])
    if key in seen:
        return
    seen.append(key)
    chk.violation(key=key, what=what, payload=payload)


def _dict_reply(r):
    """((k repr)…) reply -> [(k, repr)]"""
    return [(DEC(k), DEC(v)) for k, v in r]


def _real_items(d):
    return [(str(k), repr(v)) for k, v in d.items()]


# ------------------------------------------------------------------------------ generators
_KEYS = ["language", "epsilon", "scalar_type", "sum_factorization", "table_rtol", "table_atol", "verbosity", "part"]


def rjson_value(rng, key):
    if key == "verbosity":  # get_options calls int() on it
        return rng.choice([10, 20, 30, 40, 25])
    c = rng.randint(0, 6)
    if c == 0:
        return rng.choice(["float32", "float64", "complex128", "C", "full", "it's", 'q"x', "a b", ""])
    if c == 1:
        return rng.randint(-5, 50)
    if c == 2:
        return rng.choice([1e-6, 1e-3, 0.5, 1e-14, 2.5e-9, 1e16, 0.0001, 12.5, 1e22])
    if c == 3:
        return rng.random() < 0.5
    if c == 4:
        return None
    return rng.uniform(-1, 1) * 10 ** rng.randint(-12, 6)


def rsource(rng, extra=True):
    n = rng.randint(0, 4)
    keys = rng.sample(_KEYS + (["my_option", "Z"] if extra else []), n)
    return {k: rjson_value(rng, k) for k in keys}


# ------------------------------------------------------------------------------ (b) correspondence
def corr_merge(chk, d, rng, n):
    import ffcx.options

    defaults = {k: v[1] for k, v in ffcx.options.FFCX_DEFAULT_OPTIONS.items()}
    for i in range(n):
        user, pwd = rsource(rng), rsource(rng)
        prio = None if rng.random() < 0.2 else rsource(rng)
        have_user, have_pwd = rng.random() < 0.8, rng.random() < 0.8
        with X.hermetic_options(user if have_user else None, pwd if have_pwd else None):
            real = ffcx.options.get_options(None if prio is None else dict(prio))
        mu = user if have_user else {}
        mp = pwd if have_pwd else {}
        q = "(none)" if prio is None else f"(some ({X.sexp_items(prio)}))"
        got = _dict_reply(d.ask(f"(merge ({X.sexp_items(defaults)}) ({X.sexp_items(mu)}) ({X.sexp_items(mp)}) {q})"))
        layers = tuple(sorted(set(mu) & set(_KEYS))), tuple(sorted(set(mp) & set(_KEYS))), tuple(sorted(set(prio or {}) & set(_KEYS)))
        overl = (set(mu) & set(mp)) | (set(mu) & set(prio or {})) | (set(mp) & set(prio or {}))
        chk.case("merge", key=f"{layers}" if overl else None,
                 sample={"user": mu, "pwd": mp, "priority": prio} if i == 3 else None)
        if got != _real_items(real):
            chk.disagree("get_options", {"user": mu, "pwd": mp, "priority": prio, "model": got, "impl": _real_items(real)})


_CLI_VALUES = {
    "language": ["C", "numba"],
    "epsilon": ["1e-14", "1e-10", "0.5", "2.5e-9"],
    "scalar_type": ["float32", "float64", "complex64", "complex128"],
    "table_rtol": ["1e-3", "1e-6", "0.25"],
    "table_atol": ["1e-9", "0", "1e-12"],
    "verbosity": ["10", "20", "40"],
    "part": ["full", "diagonal"],
}


def rcli(rng, files=None):
    """Random command line: (argv, given) where `given` lists (dest, converted value) in order."""
    import ffcx.options

    argv, given = [], []
    opts = rng.sample(list(_CLI_VALUES) + ["sum_factorization", "visualise", "profile", "dir"], rng.randint(0, 5))
    for o in opts:
        if o in ("sum_factorization", "visualise", "profile"):
            argv += [f"--{o}"]
            given.append((o, True))
        elif o == "dir":
            argv += ["-d", "outdir"]
            given.append(("dir", "outdir"))
        else:
            txt = rng.choice(_CLI_VALUES[o])
            argv += [f"--{o}", txt]
            typ = ffcx.options.FFCX_DEFAULT_OPTIONS[o][0]
            given.append((o, typ(txt)))
    files = files if files is not None else [rng.choice(["a.ufl", "dir/b-c.ufl", "x.y.ufl"]) for _ in range(rng.randint(1, 2))]
    use_i = rng.random() < 0.4
    if use_i:
        if rng.random() < 0.5:
            ns = [f"ns{j}" for j in range(len(files))]
            argv += ["-n", *ns]
            given.append(("namespace", ns))
        if rng.random() < 0.5:
            of = [f"out{j}" for j in range(len(files))]
            argv += ["-o", *of]
            given.append(("outfile", of))
        argv += ["-i", *files]
        given.append(("input", list(files)))
        given.append(("ufl_file", []))  # a '*' positional is always assigned (empty list)
    else:
        argv += list(files)
        given.append(("ufl_file", list(files)))
    return argv, given


def corr_cli(chk, d, rng, n):
    import ffcx.main
    import ffcx.options

    for i in range(n):
        argv, given = rcli(rng)
        xargs = ffcx.main.parser.parse_args(argv)
        real_ns = dict(xargs.__dict__)
        real_prio = {k: v for k, v in real_ns.items() if v is not None}
        gs = X.sexp_items(dict(given))
        got_ns = _dict_reply(d.ask(f"(namespace {gs})"))
        got = _dict_reply(d.ask(f"(cli {gs})"))
        gk = tuple(sorted(k for k, _ in given if k in _KEYS))
        chk.case("cli", key=f"{gk}", sample={"argv": argv, "priority": repr(real_prio)} if i == 2 else None)
        if got_ns != _real_items(real_ns):
            chk.disagree("parse_args namespace", {"argv": argv, "model": got_ns, "impl": _real_items(real_ns)})
        if got != _real_items(real_prio):
            chk.disagree("priority_options of main", {"argv": argv, "model": got, "impl": _real_items(real_prio)})
        # F7 oracle on the REAL parser: an FFCx option is in the priority dict iff it was given
        for k in ffcx.options.FFCX_DEFAULT_OPTIONS:
            if (k in real_prio) != (k in dict(given)):
                is_flag = isinstance(ffcx.options.FFCX_DEFAULT_OPTIONS[k][1], bool)
                viol_once(
                    chk,
                    f"cli:store_true-overrides-json:{k}" if is_flag else f"cli:priority-without-flag:{k}",
                    f"main's priority_options contains FFCx option '{k}' iff given is violated "
                    f"(argparse default {ffcx.main.parser.get_default(k)!r}): the command line shadows ffcx_options.json",
                    {"argv": argv, "priority_options": repr(real_prio)},
                )


class _Stub(Exception):
    pass


def run_main_stubbed(argv):
    """Run the REAL ffcx.main.main with UFL loading / code generation / file writing stubbed:
    returns [(filename, namespace, outfile, options)] as main computed them."""
    import types

    import ffcx.main as M

    seen = []
    cur = {}
    orig = (M.ufl.algorithms.load_ufl_file, M.compiler.compile_ufl_objects, M.formatting.write_code)

    def load(filename):
        cur["file"] = filename
        return types.SimpleNamespace(forms=[], expressions=[], elements=[], object_names={})

    def comp(objs, options=None, object_names=None, namespace=None, visualise=False):
        cur["namespace"], cur["options"] = namespace, dict(options)
        return ["", ""], (".h", ".c")

    def write(code, prefix, suffixes, output_dir):
        seen.append((cur.get("file"), cur.get("namespace"), prefix, cur.get("options"), output_dir))

    try:
        M.ufl.algorithms.load_ufl_file, M.compiler.compile_ufl_objects, M.formatting.write_code = load, comp, write
        rc = M.main(argv)
    finally:
        M.ufl.algorithms.load_ufl_file, M.compiler.compile_ufl_objects, M.formatting.write_code = orig
    return rc, seen


_FN_ALPHA = "abXY09_-. !+é/"


def rfilename(rng):
    segs = []
    for _ in range(rng.randint(1, 3)):
        s = "".join(rng.choice(_FN_ALPHA.replace("/", "")) for _ in range(rng.randint(1, 7)))
        if s in (".", ".."):
            s = "d"
        segs.append(s)
    if segs[0].startswith("-"):  # would be taken for an option by argparse
        segs[0] = "f" + segs[0]
    return "/".join(segs) + rng.choice([".ufl", ".ufl", ".py", "", ".v2.ufl"])


def corr_main(chk, d, rng, n):
    """Options main really compiles with (all sources) and sanitise_filename, via the stubbed main."""
    for i in range(n):
        user, pwd = rsource(rng, extra=False), rsource(rng, extra=False)
        files = [rfilename(rng) for _ in range(rng.randint(1, 2))]
        argv, given = rcli(rng, files)
        with X.hermetic_options(user, pwd):
            rc, seen = run_main_stubbed(argv)
        if len(seen) != len(files):
            chk.disagree("main loop", {"argv": argv, "seen": len(seen)})
            continue
        got = _dict_reply(d.ask(f"(mainopts ({X.sexp_items(user)}) ({X.sexp_items(pwd)}) ({X.sexp_items(dict(given))}))"))
        real = _real_items(seen[0][3])
        srcs = {k: ("cli" if k in dict(given) else "pwd" if k in pwd else "user" if k in user else "default") for k in _KEYS}
        chk.case("main-options", key=str(sorted(set(srcs.values()))) + str(sorted(k for k, s in srcs.items() if s != "default")),
                 sample={"argv": argv, "user": user, "pwd": pwd} if i == 1 else None)
        if got != real:
            chk.disagree("options main compiles with", {"argv": argv, "user": user, "pwd": pwd, "model": got, "impl": real})
        gd = dict(given)
        # the property itself as an oracle on the REAL main (no model involved): command line > $PWD json > user json > default
        import ffcx.options as _fo
        for k in _KEYS:
            src = srcs[k]
            want = gd[k] if src == "cli" else pwd[k] if src == "pwd" else user[k] if src == "user" else _fo.FFCX_DEFAULT_OPTIONS[k][1]
            have = seen[0][3].get(k, "<missing>")
            if repr(have) != repr(want):
                shadow = [s for s in ("pwd", "user") if k in {"pwd": pwd, "user": user}[s]]
                viol_once(chk, f"cli:precedence:{src}-value-not-effective:{k}",
                          f"ffcx.main compiles with {k}={have!r} although the highest-priority source ({src}) says {want!r} "
                          f"(lower sources setting it: {shadow})",
                          {"argv": argv, "user": user, "pwd": pwd, "effective": repr(have), "expected": repr(want), "source": src})
        for j, (fname, ns, outfile, _o, outdir) in enumerate(seen):
            want = DEC(d.ask(f"(sanitise {U(files[j])})"))
            exp_ns = gd["namespace"][j] if "namespace" in gd else want
            exp_of = gd["outfile"][j] if "outfile" in gd else want
            chk.case("sanitise", key=files[j] if re.search(r"[^A-Za-z0-9_/.]", files[j]) else None)
            if ns != exp_ns or outfile != exp_of:
                chk.disagree("sanitise_filename / namespace selection", {"file": files[j], "argv": argv, "model": [exp_ns, exp_of], "impl": [ns, outfile]})
            if "namespace" not in gd and d.ask(f"(validident {U('form_' + ns + '_a')})") != "true":
                chk.violation(key="cli:namespace-not-identifier", what="sanitise_filename produced a non-identifier namespace",
                              payload={"file": files[j], "namespace": ns})


def corr_format(chk, d, rng, n):
    """format_code vs `formatCodeE`: rectangular inputs, and inputs on which Python raises IndexError
    (a tuple shorter than the first tuple of file_pre, an empty file_pre) or silently truncates (longer tuples)."""
    import ffcx.formatting
    from ffcx.codegeneration.codegeneration import CodeBlocks

    def rs():
        return "".join(rng.choice("ab;\n{}# ") for _ in range(rng.randint(0, 5)))

    for it in range(n):
        w = rng.choice([1, 2, 2, 3])
        shape = rng.choice(["rect", "rect", "short", "long", "mixed", "empty-pre", "zero-width"]) if it >= 4 else \
            ["rect", "short", "empty-pre", "long"][it]
        blocks = [[tuple(rs() for _ in range(w)) for _ in range(1 if bi in (0, 4) else rng.randint(0, 3))] for bi in range(5)]
        if shape in ("short", "mixed"):
            cand = [(bi, ti) for bi, b in enumerate(blocks) for ti in range(len(b)) if (bi, ti) != (0, 0)]
            bi, ti = rng.choice(cand)
            blocks[bi][ti] = blocks[bi][ti][: rng.randint(0, w - 1)]
        if shape in ("long", "mixed"):
            bi = rng.randrange(5)
            if blocks[bi]:
                ti = rng.randrange(len(blocks[bi]))
                blocks[bi][ti] = blocks[bi][ti] + tuple(rs() for _ in range(rng.randint(1, 2)))
        if shape == "empty-pre":
            blocks[0] = []
        if shape == "zero-width":
            blocks[0] = [()]
            for b in blocks[1:]:
                if b and rng.random() < 0.5:
                    b[0] = ()
        try:
            real = ("ok", list(ffcx.formatting.format_code(CodeBlocks(*blocks))))
        except IndexError:
            real = ("indexerror", None)
        req = "(formatcode " + " ".join("(" + " ".join("(" + " ".join(U(s) for s in t) + ")" for t in b) + ")" for b in blocks) + ")"
        r = d.ask(req)
        got = ("ok", [DEC(x) for x in r[1:]]) if r and r[0] == "ok" else ("indexerror", None) if r == ["indexerror"] else ("?", r)
        chk.case("format-code", key=f"{shape}:{real[0]}:{w}:{[[len(t) for t in b] for b in blocks]}")
        if got != real:
            chk.disagree("format_code", {"blocks": blocks, "model": got, "impl": real})


# ------------------------------------------------------------------------------ (b') templates
def _fill_sexp(filling):
    return "(" + " ".join(f"({U(h)} {U(v)})" for h, v in filling.items()) + ")"


def _ask_tpl(d, key, filling):
    """driver `tpl` -> dict(inst, failed, items, end) or None (unknown template)."""
    lang, kind, attr = key
    r = d.ask(f"(tpl {U(lang)} {U(kind)} {U(attr)} {_fill_sexp(filling)})")
    if r == ["unknown"] or not isinstance(r, list):
        return None
    r = {x[0]: x[1:] for x in r}
    return {
        "inst": DEC(r["inst"][0]),
        "failed": [[x[0], DEC(x[1]), *x[2:]] for x in r["failed"]],
        "items": [(DEC(h), chr(int(c))) for h, c in r["items"]],
        "end": r["end"],
    }


def corr_templates_static(chk, d, rng, tdata, n):
    """The regenerated tables vs the real template strings: holes = common.template_keys, and
    `Tpl.inst` = `str.format_map` on random fillings (every template of both backends)."""
    from ffcx.codegeneration.common import template_keys

    for msg in tdata["problems"]:
        chk.disagree("template table", {"problem": msg})
    strs = T.template_strings()
    alpha = "ab_X9 \n\t{}/*\"'\\;#=é"
    for (lang, kind, attr), tstr in sorted(strs.items()):
        r = d.ask(f"(tplholes {U(lang)} {U(kind)} {U(attr)})")
        got = None if r == ["unknown"] else [DEC(x) for x in r]
        chk.case("template-holes", key=f"{lang}:{kind}:{attr}:{len(got or [])}")
        if got is None or set(got) != set(template_keys(tstr)):
            chk.disagree("template holes", {"template": [lang, kind, attr], "model": got, "impl": sorted(template_keys(tstr))})
            continue
        for _ in range(n):
            fill = {h: "".join(rng.choice(alpha) for _ in range(rng.randint(0, 6))) for h in set(got)}
            real = tstr.format_map(fill)
            m = _ask_tpl(d, (lang, kind, attr), fill)
            chk.case("template-format", key=None)
            if m is None or m["inst"] != real:
                chk.disagree("template instance (random filling)", {"template": [lang, kind, attr], "filling": fill,
                                                                     "model": m and m["inst"][:300], "impl": real[:300]})
                break


def corr_obligations(chk, d):
    """The obligation evaluation of the driver must not be vacuous: for every C template, the neutral
    filling (identifiers in identifier holes, everything else empty) satisfies all obligations, and a
    filling crafted to violate ONE obligation is reported with exactly that obligation."""
    bad_for = {"ident": "a-b", "noNewline": "x\ny", "neutral": "/* open", "lines": "int z"}
    for (lang, kind, attr) in sorted(T.template_strings()):
        if lang != "C":
            continue
        obs = d.ask(f"(tplobs {U(lang)} {U(kind)} {U(attr)})")
        if obs == ["stuck"] or obs == ["unknown"]:
            chk.disagree("template obligations", {"template": [lang, kind, attr], "reply": obs})
            continue
        obs = [(o[0], DEC(o[1])) for o in obs]
        holes = [DEC(x) for x in d.ask(f"(tplholes {U(lang)} {U(kind)} {U(attr)})")]
        ident_holes = {h for k, h in obs if k == "ident"}
        base = {h: ("obj_1" if h in ident_holes else "") for h in holes}
        m = _ask_tpl(d, (lang, kind, attr), base)
        chk.case("obligations", key=f"{kind}:{attr}:base:{len(obs)}")
        if m is None or m["failed"]:
            chk.disagree("neutral filling violates an obligation", {"template": [lang, kind, attr], "failed": m and m["failed"]})
        seen = set()
        for k, h in obs:
            if (k, h) in seen:
                continue
            seen.add((k, h))
            m = _ask_tpl(d, (lang, kind, attr), dict(base, **{h: bad_for[k]}))
            got = {(f[0], f[1]) for f in (m["failed"] if m else [])}
            chk.case("obligations", key=f"{kind}:{attr}:{k}:{h}")
            if (k, h) not in got:
                chk.disagree("a filling crafted to violate an obligation is not reported", {"template": [lang, kind, attr], "obligation": [k, h],
                                                                                            "filling": bad_for[k], "failed": sorted(got)})


_GROUPS = [
    ("file_pre", "file", "declaration_pre", "implementation_pre"),
    ("integrals", "integral", "declaration", "factory"),
    ("forms", "form", "declaration", "factory"),
    ("expressions", "expression", "declaration", "factory"),
    ("file_post", "file", "declaration_post", "implementation_post"),
]


def _last_word(head):
    w = head.replace("*", " ").split()
    return w[-1] if w else ""


def tie_run(chk, d, label, lang, log, code_blocks, code, payload):
    """One real run: recorded template instantiations vs the model, the blocks handed to format_code,
    and the files it returned. Returns (declared names, defined names) read by the Lean machine (C)."""
    by_key = {}
    for rec in log:
        by_key.setdefault(rec["template"], []).append(rec)
    declared_all, defined_all, impl_items_all = [], [], []
    for group, kind, dattr, iattr in _GROUPS:
        tuples = list(getattr(code_blocks, group))
        if lang == "numba" and group == "file_post":
            # numba/file.py returns the literal ("",) here, not a template instance
            if [tuple(t) for t in tuples] != [("",)]:
                chk.disagree("numba file_post block", {"run": label, "blocks": [list(t) for t in tuples][:3], **payload})
            continue
        if lang == "C":
            drecs, irecs = by_key.get((lang, kind, dattr), []), by_key.get((lang, kind, iattr), [])
        else:
            drecs, irecs = None, by_key.get((lang, kind, "factory"), [])
            if group == "file_pre":
                irecs = irecs[:1]
        if len(irecs) != len(tuples) or (drecs is not None and len(drecs) != len(tuples)):
            chk.disagree("blocks vs template instantiations", {"run": label, "group": group, "blocks": len(tuples),
                                                               "recorded": [len(drecs or []), len(irecs)], **payload})
            continue
        for pos, tup in enumerate(tuples):
            recs = [irecs[pos]] if drecs is None else [drecs[pos], irecs[pos]]
            if [r["text"] for r in recs] != list(tup):
                chk.disagree("a generator returns something else than its template instances",
                             {"run": label, "group": group, "pos": pos, **payload})
                continue
            models = []
            for rec in recs:
                m = _ask_tpl(d, rec["template"], rec["filling"])
                models.append(m)
                nonempty = sum(1 for v in rec["filling"].values() if v)
                chk.case("template-instance", key=f"{lang}:{kind}:{rec['template'][2]}:{nonempty}:{len(rec['text']) // 2000}")
                if m is None or m["inst"] != rec["text"]:
                    chk.disagree("template instance (real filling)", {"run": label, "template": list(rec["template"]),
                                                                      "model": m and m["inst"][:200], "impl": rec["text"][:200], **payload})
                elif lang == "C" and m["failed"]:
                    chk.disagree("a real filling violates an obligation of decl_defined_templates",
                                 {"run": label, "template": list(rec["template"]), "failed": m["failed"],
                                  "fillings": {f[1]: rec["filling"].get(f[1], "")[:300] for f in m["failed"]}, **payload})
            if lang != "C" or any(m is None for m in models):
                continue
            dm, im = models
            # declaration and implementation must be filled consistently (the theorem has ONE filling)
            shared = set(recs[0]["filling"]) & set(recs[1]["filling"])
            diff = sorted(h for h in shared if recs[0]["filling"][h] != recs[1]["filling"][h])
            if diff:
                viol_once(chk, f"cli:decl-impl-filling-differs:{kind}", f"the declaration and the implementation of a {kind} block are "
                          f"instantiated with different values for {diff}",
                          dict(payload, run=label, declaration={h: recs[0]["filling"][h] for h in diff},
                               implementation={h: recs[1]["filling"][h] for h in diff}))
            decl = [h[len("extern "):] for h, t in dm["items"] if t == ";" and h.startswith("extern ")]
            defs = [h for h, t in im["items"] if t == "="]
            missing = [x for x in decl if x + " " not in defs]
            chk.case("template-decl-defined", key=f"{kind}:{len(decl)}")
            if (missing and not diff) or im["end"] != ["code", "0", "true"]:
                # contradicts decl_defined_templates unless the tables / the driver are out of step
                chk.disagree("declared names of a real declaration instance are not defined by the implementation instance",
                             {"run": label, "group": group, "pos": pos, "missing": missing, "end": im["end"], **payload})
            names = [_last_word(x) for x in decl]
            if sorted(names) != sorted(X.c_declared(tup[0])):
                chk.disagree("Lean lexical machine vs harness lexer (declarations)",
                             {"run": label, "model": names, "harness": X.c_declared(tup[0]), **payload})
            pydefs = [nm_ for nm_, st, _ in X.c_defined(tup[1]) if not st]
            mdefs = [_last_word(h) for h, t in im["items"] if t in "=([" and not h.startswith(("static ", "extern "))]
            if sorted(set(mdefs)) != sorted(set(pydefs)):
                chk.disagree("Lean lexical machine vs harness lexer (definitions)",
                             {"run": label, "model": mdefs, "harness": pydefs, **payload})
            declared_all += names
            defined_all += [_last_word(h) for h in defs if not h.startswith("static ")]
            impl_items_all += im["items"]
    # format_code: column j of the result is the concatenation of column j of all blocks, in block order
    ncol = 2 if lang == "C" else 1
    for j in range(ncol):
        want = "".join(t[j] for group, *_ in _GROUPS for t in getattr(code_blocks, group))
        if code is None or len(code) != ncol or code[j] != want:
            chk.disagree("format_code on the real blocks", {"run": label, "column": j, **payload})
    if lang == "C" and code is not None and len(code) == 2 and len(code[1]) < 600_000:
        r = d.ask(f"(citems {U(code[1])})")
        r = {x[0]: x[1:] for x in r}
        whole = [(DEC(h), chr(int(c))) for h, c in r["items"]]
        chk.case("source-items", key=f"{len(whole)}")
        if whole != impl_items_all or r["end"] != ["code", "0", "true"]:
            chk.disagree("items of the whole source file vs items of its blocks (items_flatten_closed)",
                         {"run": label, "whole": len(whole), "blocks": len(impl_items_all), "end": r["end"], **payload})
    return declared_all, defined_all


@contextlib.contextmanager
def capture_format_code():
    """Record the CodeBlocks handed to formatting.format_code by compiler.compile_ufl_objects and what it returns."""
    import ffcx.compiler

    seen = []
    orig = ffcx.compiler.format_code

    def wrapped(code_blocks):
        out = orig(code_blocks)
        seen.append((code_blocks, list(out)))
        return out

    ffcx.compiler.format_code = wrapped
    try:
        yield seen
    finally:
        ffcx.compiler.format_code = orig


def corr_templates_probes(chk, d):
    """The probe objects of extract_names × both backends through the real compiler, recorded."""
    import ffcx.compiler
    from ffcx.options import FFCX_DEFAULT_OPTIONS

    for lang in ("C", "numba"):
        for pname, objs, onames, prefix in X.probes():
            opts = {k: v[1] for k, v in FFCX_DEFAULT_OPTIONS.items()}
            opts["language"] = lang
            with T.Recorder() as log, capture_format_code() as seen:
                code, _suffixes = ffcx.compiler.compile_ufl_objects(list(objs), options=opts, object_names=onames, namespace=prefix)
            tie_run(chk, d, f"probe:{lang}:{pname}", lang, log, seen[0][0], list(code), {"probe": pname, "language": lang})


# ------------------------------------------------------------------------------ (c) search
UFL_POISSON = '''
import basix.ufl
from ufl import (Coefficient, Constant, FunctionSpace, Mesh, TestFunction, TrialFunction, ds, dx, grad, inner)
element = basix.ufl.element("Lagrange", "triangle", {deg})
domain = Mesh(basix.ufl.element("Lagrange", "triangle", 1, shape=(2,)))
space = FunctionSpace(domain, element)
u = TrialFunction(space)
v = TestFunction(space)
f = Coefficient(space)
kappa = Constant(domain)
a = kappa * inner(grad(u), grad(v)) * dx + f * inner(u, v) * ds
L = inner(f, v) * dx
'''

UFL_DERIV = '''
import basix.ufl
from ufl import (Coefficient, Constant, FunctionSpace, Mesh, TestFunction, TrialFunction, derivative, ds, dx, grad, inner)
element = basix.ufl.element("Lagrange", "triangle", 1)
domain = Mesh(basix.ufl.element("Lagrange", "triangle", 1, shape=(2,)))
space = FunctionSpace(domain, element)
v = TestFunction(space)
du = TrialFunction(space)
source = Coefficient(space)
unknown = Coefficient(space)
kappa = Coefficient(space)
alpha = Constant(domain)
beta = Constant(domain)
F = source * v * dx + (1 + unknown**2) * kappa * inner(grad(unknown), grad(v)) * dx + alpha * beta * unknown * v * ds
J = derivative(F, unknown, du)
forms = [F, J]
'''

UFL_EXPR = '''
import basix.ufl
import numpy as np
from ufl import Coefficient, Constant, FunctionSpace, Mesh, grad, SpatialCoordinate
element = basix.ufl.element("Lagrange", "triangle", 2)
domain = Mesh(basix.ufl.element("Lagrange", "triangle", 1, shape=(2,)))
space = FunctionSpace(domain, element)
f = Coefficient(space)
c = Constant(domain)
flux = c * grad(f)
x = SpatialCoordinate(domain)
points = np.array([[0.25, 0.25], [0.5, 0.125]])
expressions = [(flux, points), (x[0] * x[1] + f, points)]
elements = [element]
'''

UFL_MIXED = '''
import basix.ufl
import numpy as np
from ufl import (Coefficient, FunctionSpace, Mesh, TestFunction, TrialFunction, dx, dS, ds, inner, jump, avg, div)
P2 = basix.ufl.element("Lagrange", "tetrahedron", 2, shape=(3,))
P1 = basix.ufl.element("Lagrange", "tetrahedron", 1)
TH = basix.ufl.mixed_element([P2, P1])
domain = Mesh(basix.ufl.element("Lagrange", "tetrahedron", 1, shape=(3,)))
W = FunctionSpace(domain, TH)
Q = FunctionSpace(domain, P1)
from ufl import TrialFunctions, TestFunctions
(u, p) = TrialFunctions(W)
(v, q) = TestFunctions(W)
g = Coefficient(Q)
stokes = (inner(u, v) - div(v) * p + q * div(u)) * dx + g * inner(u, v) * ds(3)
J = g * g * dx + jump(g) * avg(g) * dS
pts = np.array([[0.1, 0.2, 0.3]])
gexpr = g * g
forms = [stokes, J]
expressions = [(gexpr, pts)]
'''

UFL_QUAD_TP = '''
import basix
import basix.ufl
from ufl import Coefficient, FunctionSpace, Mesh, TestFunction, TrialFunction, dx, inner, grad
el = basix.ufl.wrap_element(basix.create_tp_element(basix.ElementFamily.P, basix.CellType.quadrilateral, 2, basix.LagrangeVariant.gll_warped))
cel = basix.ufl.blocked_element(basix.ufl.wrap_element(basix.create_tp_element(basix.ElementFamily.P, basix.CellType.quadrilateral, 1, basix.LagrangeVariant.gll_warped)), shape=(2,))
domain = Mesh(cel)
V = FunctionSpace(domain, el)
u, v = TrialFunction(V), TestFunction(V)
a = inner(grad(u), grad(v)) * dx
'''


def _cc():
    return os.environ.get("CC", "cc")


def _run(cmd, cwd):
    p = subprocess.run(cmd, cwd=str(cwd), capture_output=True, text=True, timeout=600)
    return p.returncode, p.stdout + p.stderr


def _header_options(text):
    """The options dict printed into the generated file header (pprint of the dict main compiled with)."""
    lines = []
    on = False
    for l in text.split("\n"):
        if "generated with the following options" in l:
            on = True
            continue
        if on:
            m = re.match(r"^(//|#)  (.*)$", l)
            if m:
                lines.append(m.group(2))
            elif lines:
                break
    return ast.literal_eval("\n".join(lines))


def _jit_reference(ufl_path, options, tmp):
    """JIT path for the same UFL objects (fresh load of the file)."""
    import ffcx.codegeneration.jit as jit
    import ufl

    ufd = ufl.algorithms.load_ufl_file(str(ufl_path))
    out = {}
    if ufd.forms:
        forms, mod, _ = jit.compile_forms(list(ufd.forms), options=dict(options), cache_dir=tmp / "jitcache")
        out["forms"] = (forms, mod)
    if ufd.expressions:
        exprs, mod, _ = jit.compile_expressions(list(ufd.expressions), options=dict(options), cache_dir=tmp / "jitcache")
        out["exprs"] = (exprs, mod)
    return ufd, out


_CT = {"float64": "double", "float32": "float", "complex128": "double _Complex", "complex64": "float _Complex"}
_NP = {"float64": np.float64, "float32": np.float32, "complex128": np.complex128, "complex64": np.complex64}
_RNP = {"float64": np.float64, "float32": np.float32, "complex128": np.float64, "complex64": np.float32}


def _call(ffi, fn, st, A, w, c, x):
    rt = "double" if _RNP[st] is np.float64 else "float"
    ent = np.zeros(2, dtype=np.intc)
    perm = np.zeros(2, dtype=np.uint8)
    fn(ffi.cast(f"{_CT[st]} *", A.ctypes.data), ffi.cast(f"{_CT[st]} *", w.ctypes.data), ffi.cast(f"{_CT[st]} *", c.ctypes.data),
       ffi.cast(f"{rt} *", x.ctypes.data), ffi.cast("int *", ent.ctypes.data), ffi.cast("uint8_t *", perm.ctypes.data), ffi.NULL)
    return A


def _compare_kernels(chk, label, stem, prefix, ufd, jitres, so_path, st, rng, payload, info=None):
    """dlopen the stand-alone build, reach the objects through their aliases, compare with JIT bitwise."""
    import cffi
    import ffcx.codegeneration.jit as jit

    ffi = cffi.FFI()
    decl = jit.UFC_HEADER_DECL.format(np.dtype(st).name) + jit.UFC_INTEGRAL_DECL + jit.UFC_FORM_DECL + jit.UFC_EXPRESSION_DECL
    names = ufd.object_names
    fal = [f"form_{prefix}_{names.get(id(f), i)}" for i, f in enumerate(ufd.forms)]
    eal = [f"expression_{prefix}_{names.get(id(e[0]), i)}" for i, e in enumerate(ufd.expressions)]
    for n in fal:
        decl += f"extern ufcx_form* {n};\n"
    for n in eal:
        decl += f"extern ufcx_expression* {n};\n"
    ffi.cdef(decl)
    lib = ffi.dlopen(str(so_path))
    nrng = np.random.default_rng(rng.randrange(2 ** 31))

    def arr(n):
        a = nrng.uniform(-1, 1, size=max(n, 1))
        if "complex" in st:
            a = a + 1j * nrng.uniform(-1, 1, size=max(n, 1))
        return a.astype(_NP[st])

    ncmp = 0
    if ufd.forms:
        jforms, jmod = jitres["forms"]
        for n, jf in zip(fal, jforms):
            sf = getattr(lib, n)[0]
            for fld in ("rank", "num_coefficients", "num_constants"):
                if getattr(sf, fld) != getattr(jf, fld):
                    chk.violation(key=f"cli:descriptor-differs:{label}", what=f"form descriptor field {fld} differs between ffcx CLI output and JIT",
                                  payload=dict(payload, alias=n))
            # names: entry k of the name maps must name the coefficient/constant that position k of w / c holds
            uform = ufd.forms[fal.index(n)]
            ocoefs = list(uform.coefficients())
            want_c = [names.get(id(ocoefs[sf.original_coefficient_positions[k]]), None) for k in range(sf.num_coefficients)]
            got_c = [ffi.string(sf.coefficient_name_map[k]).decode() for k in range(sf.num_coefficients)]
            want_k = [names.get(id(cc), None) for cc in uform.constants()]
            got_k = [ffi.string(sf.constant_name_map[k]).decode() for k in range(sf.num_constants)]
            chk.case("name-maps", key=f"{label}:{n}:{got_c}:{got_k}")
            if info is not None:
                info[n] = (sf.rank, sf.num_coefficients, sf.num_constants, got_c, got_k)
            if any(w is not None and w != g for w, g in zip(want_c, got_c)) or len(want_c) != len(got_c):
                chk.violation(key=f"cli:coefficient-name-map:{label}", what=f"coefficient_name_map {got_c} does not name the coefficients at original_coefficient_positions ({want_c})",
                              payload=dict(payload, alias=n, got=got_c, expected=want_c))
            if any(w is not None and w != g for w, g in zip(want_k, got_k)) or len(want_k) != len(got_k):
                chk.violation(key=f"cli:constant-name-map:{label}", what=f"constant_name_map {got_k} does not name the form's constants ({want_k})",
                              payload=dict(payload, alias=n, got=got_k, expected=want_k))
            nint = jf.form_integral_offsets[5] if hasattr(jf, "form_integral_offsets") else 0
            tot = sf.form_integral_offsets[5]
            if tot != nint:
                chk.violation(key=f"cli:descriptor-differs:{label}", what="number of integrals differs between CLI output and JIT", payload=dict(payload, alias=n))
                continue
            for k in range(tot):
                x = nrng.uniform(0, 1, size=64).astype(_RNP[st])
                w, c = arr(4096), arr(64)
                A1 = np.zeros(40000, dtype=_NP[st])
                A2 = np.zeros(40000, dtype=_NP[st])
                _call(ffi, getattr(sf.form_integrals[k], f"tabulate_tensor_{st}"), st, A1, w, c, x)
                _call(jmod.ffi, getattr(jf.form_integrals[k], f"tabulate_tensor_{st}"), st, A2, w, c, x)
                ncmp += 1
                chk.case("kernel-compare", key=f"{label}:{n}:{k}")
                if A1.tobytes() != A2.tobytes() and np.all(np.isfinite(A1)) and np.any(A1 != 0) and \
                        float(np.abs(A1 - A2).max()) <= 1e-12 * max(1.0, float(np.abs(A2).max())):
                    # same tensors up to rounding (another compiler / flag set than the JIT build): not a violation
                    chk.notes["cli_vs_jit_not_bitwise"] = chk.notes.get("cli_vs_jit_not_bitwise", 0) + 1
                elif A1.tobytes() != A2.tobytes() or not np.any(A1 != 0):
                    bad = np.flatnonzero(A1 != A2)[:5].tolist()
                    chk.violation(key=f"cli:kernel-differs:{label}", what="kernel of the ffcx CLI output and of the JIT path give different tensors (or only zeros)",
                                  payload=dict(payload, alias=n, integral=k, first_bad=bad, nonzero=bool(np.any(A1 != 0))))
    if ufd.expressions:
        jex, jmod = jitres["exprs"]
        for n, je in zip(eal, jex):
            se = getattr(lib, n)[0]
            x = nrng.uniform(0, 1, size=64).astype(_RNP[st])
            w, c = arr(4096), arr(64)
            A1 = np.zeros(40000, dtype=_NP[st])
            A2 = np.zeros(40000, dtype=_NP[st])
            _call(ffi, getattr(se, f"tabulate_tensor_{st}"), st, A1, w, c, x)
            _call(jmod.ffi, getattr(je, f"tabulate_tensor_{st}"), st, A2, w, c, x)
            ncmp += 1
            chk.case("kernel-compare", key=f"{label}:{n}")
            if A1.tobytes() != A2.tobytes() or not np.any(A1 != 0):
                chk.violation(key=f"cli:kernel-differs:{label}", what="expression kernel of CLI output and JIT differ (or only zeros)",
                              payload=dict(payload, alias=n))
    return ncmp


# ---- seeded grammar of UFL files --------------------------------------------------------------
_G_CELLS = [("interval", 1), ("triangle", 2), ("triangle", 2), ("quadrilateral", 2), ("tetrahedron", 3), ("hexahedron", 3)]
_G_STEMS = ["poisson", "my-form.v2", "2d case", "Ünï_code", "a+b=c", "x__y", "UPPER.lower", "trailing_", "9", "élan vital!",
            "form", "main", "-x"]
_G_DIRS = ["", "", "", "sub dir", "d.1", "-dash"]
_G_COEF = ["f", "g", "kappa", "u_0", "Gamma9", "_w", "rho1", "ünï", "λ"]
_G_CONST = ["c", "k", "alpha", "beta_2", "_C", "µ"]
_G_FORM = ["a_1", "Form9", "_b", "mass", "stiff", "J2", "a", "L", "M", "F", "J"]
_G_EXPR = ["e", "flux", "expr_2", "_q", "E"]
_G_NS = ["myns", "NS_2", "_p", "x9"]
_G_OUT = ["outstem", "o.u.t", "out-2", "Out_3"]


def gen_ufl(rng, idx):
    """One UFL file from the grammar. Returns dict(label, relpath, text, extra (argv), jit_opts, pwd_json,
    forms = [name | None], exprs = [name | None]) — the names are the generator's own bookkeeping."""
    cell, tdim = rng.choice(_G_CELLS)
    simplex = cell in ("triangle", "tetrahedron")
    fams = ["P1", "P1", "P2", "DP1", "vP1"] + (["RT1", "TH"] if cell == "triangle" else []) + (["N1"] if cell == "tetrahedron" else [])
    if cell == "hexahedron":
        fams = ["P1", "DP1"]
    fam = rng.choice(fams)
    L = ["import basix.ufl", "import numpy as np",
         "from ufl import (Coefficient, Constant, FunctionSpace, Mesh, SpatialCoordinate, TestFunction, TestFunctions,",
         "                 TrialFunction, TrialFunctions, avg, div, dS, ds, dx, grad, inner, jump)",
         f'domain = Mesh(basix.ufl.element("Lagrange", "{cell}", 1, shape=({tdim},)))']
    vector = fam in ("vP1", "RT1", "N1")
    if fam == "P1":
        L.append(f'element = basix.ufl.element("Lagrange", "{cell}", 1)')
    elif fam == "P2":
        L.append(f'element = basix.ufl.element("Lagrange", "{cell}", 2)')
    elif fam == "DP1":
        L.append(f'element = basix.ufl.element("Lagrange", "{cell}", 1, discontinuous=True)')
    elif fam == "vP1":
        L.append(f'element = basix.ufl.element("Lagrange", "{cell}", 1, shape=({tdim},))')
    elif fam == "RT1":
        L.append(f'element = basix.ufl.element("RT", "{cell}", 1)')
    elif fam == "N1":
        L.append(f'element = basix.ufl.element("N1curl", "{cell}", 1)')
    else:  # Taylor-Hood
        L.append(f'element = basix.ufl.mixed_element([basix.ufl.element("Lagrange", "{cell}", 2, shape=({tdim},)), '
                 f'basix.ufl.element("Lagrange", "{cell}", 1)])')
    L.append(f'selement = basix.ufl.element("Lagrange", "{cell}", 1)')
    L += ["space = FunctionSpace(domain, element)", "sspace = FunctionSpace(domain, selement)"]
    ncoef, nconst = rng.randint(1, 3), rng.randint(0, 2)
    coefs = rng.sample(_G_COEF, ncoef)
    consts = rng.sample(_G_CONST, nconst)
    for nme in coefs:
        L.append(f"{nme} = Coefficient(sspace)")
    for nme in consts:
        L.append(f"{nme} = Constant(domain)")
    f0, f1 = coefs[0], coefs[-1]
    c0 = consts[0] if consts else "2.5"
    if fam == "TH":
        L += ["(u, p) = TrialFunctions(space)", "(v, q) = TestFunctions(space)"]
        bil = [f"(inner(grad(u), grad(v)) - inner(p, div(v)) + inner(div(u), q)) * dx",
               f"{c0} * inner({f0} * u, v) * dx + inner(p, q) * ds"]
        lin = [f"inner({f0}, q) * dx", f"{c0} * inner({f1} * {f0}, q) * ds"]
    elif vector:
        L += ["u = TrialFunction(space)", "v = TestFunction(space)"]
        bil = ["inner(u, v) * dx", f"{c0} * inner({f0} * u, v) * dx + inner(u, v) * ds",
               "inner(div(u), div(v)) * dx" if fam != "N1" else "inner(u, v) * dx(3)"]
        lin = [f"inner({f0} * grad({f1}), v) * dx", f"{c0} * inner(grad({f0}), v) * ds(2)"]
    else:
        L += ["u = TrialFunction(space)", "v = TestFunction(space)"]
        bil = ["inner(u, v) * dx", "inner(grad(u), grad(v)) * dx", f"{c0} * inner({f0} * u, v) * dx",
               "inner(u, v) * ds(4)", "inner(jump(u), jump(v)) * dS",
               "inner(grad(u), grad(v)) * dx + inner(u, v) * ds", "inner(u, v) * dx(1) + 2 * inner(u, v) * dx(2)",
               f"inner(avg({f0}) * jump(u), jump(v)) * dS + inner(u, v) * dx"]
        lin = [f"inner({f0}, v) * dx", f"{c0} * inner({f1}, v) * ds", f"inner({f0} * {f1}, v) * dx(degree=2)",
               f"inner({f0}, v) * dx + inner({f1}, v) * ds(1) + inner({f1}, v) * ds(7)"]
    fun = [f"{f0} * dx", f"{c0} * {f0} * {f1} * ds", f"inner(grad({f0}), grad({f1})) * dx", f"jump({f0}) * jump({f1}) * dS + {f0} * dx"]
    nforms = rng.choice([0, 1, 1, 2, 2, 3])
    nexprs = rng.choice([0, 0, 1, 2]) if nforms else rng.choice([1, 2])
    if cell == "hexahedron":
        nforms, nexprs = min(nforms, 1) or 1, min(nexprs, 1)
    form_exprs = [rng.choice(rng.choice([bil, bil, lin, fun])) for _ in range(nforms)]
    forms = []
    if nforms and rng.random() < 0.35:
        # default export: the names a, L, M (then F, J) without a `forms` list
        order = ["a", "L", "M"]
        pick = sorted(rng.sample(range(3), min(nforms, 3)))
        names = [order[k] for k in pick]
        if ("a" not in names or "L" not in names) and len(names) < nforms + 1 and rng.random() < 0.5:
            names.append("F")
        names = names[:nforms] if len(names) >= nforms else names
        form_exprs = form_exprs[: len(names)]
        for nme, ex in zip(names, form_exprs):
            L.append(f"{nme} = {ex}")
        forms = list(names)
    elif nforms:
        names = rng.sample(_G_FORM, nforms)
        items = []
        for nme, ex in zip(names, form_exprs):
            if rng.random() < 0.2:
                items.append(ex)          # an unnamed form written in place
                forms.append(None)
            else:
                L.append(f"{nme} = {ex}")
                items.append(nme)
                forms.append(nme)
        L.append("forms = [" + ", ".join(items) + "]")
    else:
        L.append("forms = []")
    exprs = []
    if nexprs:
        pts = [[round(0.1 + 0.13 * (k + 1) * (dd + 1) / (tdim + 1), 4) for dd in range(tdim)] for k in range(rng.randint(1, 3))]
        if simplex:
            pts = [[x / (tdim + 0.5) for x in pnt] for pnt in pts]
        L.append(f"points = np.array({pts!r})")
        L.append("x = SpatialCoordinate(domain)")
        pool = [f"{c0} * {f0}", f"grad({f0})", f"{f0}**2 + x[0]", f"{c0} * grad({f0} * {f1})", f"x[0] * {f1}"]
        enames = rng.sample(_G_EXPR, nexprs)
        items = []
        for nme, ex in zip(enames, rng.sample(pool, nexprs)):
            if rng.random() < 0.25:
                items.append(f"({ex}, points)")
                exprs.append(None)
            else:
                L.append(f"{nme} = {ex}")
                items.append(f"({nme}, points)")
                exprs.append(nme)
        L.append("expressions = [" + ", ".join(items) + "]")
    if rng.random() < 0.3:
        L.append("elements = [element]")
    extra, jit_opts, pwd_json = [], {}, None
    r = rng.random()
    if cell != "hexahedron" and fam != "TH":
        if r < 0.15:
            extra += ["--scalar_type", "float32"]
            jit_opts["scalar_type"] = "float32"
        elif r < 0.30:
            extra += ["--scalar_type", "complex128"]
            jit_opts["scalar_type"] = "complex128"
        elif r < 0.40:
            pwd_json = {"scalar_type": "float32"}
            jit_opts["scalar_type"] = "float32"
    r = rng.random()
    if r < 0.12:
        extra += ["-n", rng.choice(_G_NS)]
    elif r < 0.24:
        extra += ["-o", rng.choice(_G_OUT)]
    elif r < 0.36:
        extra += ["-n", rng.choice(_G_NS), "-o", rng.choice(_G_OUT)]
    dname = rng.choice(_G_DIRS)
    stem = rng.choice(_G_STEMS)
    relpath = (dname + "/" if dname else "") + stem + rng.choice([".ufl", ".ufl", ".py", ".v2.ufl"])
    return {"label": f"gen{idx}:{cell}:{fam}:{len(forms)}f{len(exprs)}e", "relpath": relpath, "text": "\n".join(L) + "\n",
            "extra": extra, "jit_opts": jit_opts, "pwd_json": pwd_json, "forms": forms, "exprs": exprs}


def _own_sanitise(relpath):
    """The harness's own reading of main.sanitise_filename (independent of FFCx and of the Lean model)."""
    return re.sub(r"[^A-Za-z0-9_]+", "_", Path(relpath).stem)


def _check_numba(chk, label, outdir, stem, prefix, want_forms, want_exprs, c_lib_info, payload):
    """<stem>_numba.py: valid Python, importable, aliases present, descriptors agree with the C output."""
    from . import c18

    pyf = outdir / f"{stem}_numba.py"
    chk.case("numba-output", key=label)
    if not pyf.exists():
        chk.violation(key=f"cli:files-missing:numba:{label}", what="ffcx --language numba did not write <stem>_numba.py", payload=payload)
        return
    src = pyf.read_text()
    try:
        ns = c18.load_numba_module(src)
    except SyntaxError as ex:
        chk.violation(key=f"cli:numba-not-python:{label}", what="numba output is not valid Python", payload=dict(payload, error=repr(ex)))
        return
    except Exception as ex:
        chk.violation(key=f"cli:numba-import-failed:{label}", what=f"importing the numba output raised {type(ex).__name__}",
                      payload=dict(payload, error=repr(ex)[:400]))
        return
    missing = [n for n in want_forms + want_exprs if n not in ns]
    if missing:
        chk.violation(key=f"cli:alias-missing:numba:{label}", what="form_<prefix>_<name> / expression_<prefix>_<name> alias missing from the numba module",
                      payload=dict(payload, missing=missing))
        return
    for n in want_forms:
        cinfo = c_lib_info.get(n)
        o = ns[n]
        got = (o.rank, o.num_coefficients, o.num_constants, list(o.coefficient_name_map or []), list(o.constant_name_map or []))
        chk.case("numba-descriptor", key=f"{label}:{n}")
        if cinfo is not None and got != cinfo:
            chk.violation(key=f"cli:numba-descriptor-differs:{label}", what="form descriptor of the numba output differs from the C output of the same file",
                          payload=dict(payload, alias=n, numba=repr(got), C=repr(cinfo)))


def run_cli_case(chk, d, rng, case, cflags, numba):
    """One real `ffcx` run + all checks on its output."""
    import ffcx.main
    import ufl

    label, relpath, text, extra, jit_opts = case["label"], case["relpath"], case["text"], case["extra"], case["jit_opts"]
    with X.hermetic_options(None, case.get("pwd_json")) as (_xdg, cwd):
        tmp = Path(cwd)
        src = tmp / "in" / relpath
        src.parent.mkdir(parents=True, exist_ok=True)
        src.write_text(text)
        outdir = tmp / "out"
        outdir.mkdir()
        argv = [*extra, "-d", str(outdir)]
        if "-n" in extra or "-o" in extra:
            argv += ["-i", str(src)]
        else:
            argv += [str(src)]
        payload = {"ufl_file": relpath, "ufl_source": text, "argv": argv, "pwd_json": case.get("pwd_json")}
        try:
            with T.Recorder() as log, capture_format_code() as seen:
                rc = ffcx.main.main(argv)
        except Exception as ex:
            chk.violation(key=f"cli:main-raised:{label}", what=f"ffcx.main.main raised {type(ex).__name__}", payload=dict(payload, error=repr(ex)[:500]))
            return
        chk.programs += 1
        stem = extra[extra.index("-o") + 1] if "-o" in extra else _own_sanitise(relpath)
        prefix = extra[extra.index("-n") + 1] if "-n" in extra else _own_sanitise(relpath)
        h, c = outdir / f"{stem}.h", outdir / f"{stem}.c"
        chk.case("cli-run", key=label)
        if rc != 0 or not h.exists() or not c.exists():
            chk.violation(key=f"cli:files-missing:{label}", what="ffcx did not write <stem>.h and <stem>.c", payload=dict(payload, listing=os.listdir(outdir)))
            return
        # templates: the recorded instantiations of this run vs the model; files on disk = what format_code returned
        m_declared = []
        if len(seen) == 1:
            m_declared, _m_defined = tie_run(chk, d, f"cli:{label}", "C", log, seen[0][0], seen[0][1], {"ufl_file": relpath, "argv": argv})
            if [h.read_text(), c.read_text()] != seen[0][1]:
                chk.disagree("files written vs format_code result", {"run": label})
        else:
            chk.disagree("format_code calls per file", {"run": label, "calls": len(seen)})
        # stand-alone compile against ufcx.h
        rcc, log_c = _run([_cc(), "-c", "-std=c17", "-Wall", "-Werror=implicit-function-declaration", f"-I{INCLUDE}", c.name, "-o", "obj.o"], outdir)
        if rcc != 0:
            chk.violation(key=f"cli:compile-failed:{label}", what="generated source does not compile stand-alone against ufcx.h", payload=dict(payload, log=log_c[-1500:]))
            return
        # the header must be self-contained too
        (outdir / "hdr_only.c").write_text(f'#include "{stem}.h"\nint main(void) {{ return 0; }}\n')
        rch, logh = _run([_cc(), "-c", "-std=c17", f"-I{INCLUDE}", "hdr_only.c", "-o", "hdr_only.o"], outdir)
        if rch != 0:
            chk.violation(key=f"cli:header-not-selfcontained:{label}", what="generated header does not compile on its own", payload=dict(payload, log=logh[-1500:]))
        _, nm = _run(["nm", "--defined-only", "-g", "obj.o"], outdir)
        defined = {l.split()[-1] for l in nm.splitlines() if len(l.split()) >= 3}
        declared = X.c_declared(h.read_text())
        missing = [n for n in declared if n not in defined]
        chk.case("decl-defined", key=f"{label}:{len(declared)}")
        if missing:
            chk.violation(key=f"cli:declared-not-defined:{label}", what="names declared extern in the header are not defined in the object file",
                          payload=dict(payload, missing=missing))
        if m_declared and sorted(m_declared) != sorted(declared):
            chk.disagree("declared names: Lean machine on the declaration instances vs harness lexer on the header file",
                         {"run": label, "model": sorted(m_declared), "harness": sorted(declared)})
        # aliases of named objects: expected names from the UFL file alone (ufl's loader) and, for generated
        # files, from the generator's own bookkeeping
        ufd = ufl.algorithms.load_ufl_file(str(src))
        want_f = [f"form_{prefix}_{ufd.object_names.get(id(f), i)}" for i, f in enumerate(ufd.forms)]
        want_e = [f"expression_{prefix}_{ufd.object_names.get(id(e[0]), i)}" for i, e in enumerate(ufd.expressions)]
        if "forms" in case:
            own_f = [f"form_{prefix}_{n if n is not None else i}" for i, n in enumerate(case["forms"])]
            own_e = [f"expression_{prefix}_{n if n is not None else i}" for i, n in enumerate(case["exprs"])]
            if (own_f, own_e) != (want_f, want_e):
                chk.disagree("expected aliases: generator bookkeeping vs ufl loader", {"run": label, "own": own_f + own_e, "ufl": want_f + want_e, **payload})
        want = want_f + want_e
        noalias = [n for n in want if n not in defined or n not in declared]
        chk.case("aliases", key=f"{label}:{want}")
        if noalias:
            chk.violation(key=f"cli:alias-missing:{label}", what="form_<prefix>_<name> / expression_<prefix>_<name> alias missing from header or object file",
                          payload=dict(payload, missing=noalias, defined_sample=sorted(defined)[:10]))
            return
        # options printed in both files
        eff = _header_options(h.read_text())
        for k, v in jit_opts.items():
            if eff.get(k) != v:
                chk.violation(key=f"cli:option-ignored:{k}", what=f"option {k} given on the command line / in $PWD/ffcx_options.json is not the effective one",
                              payload=dict(payload, effective=repr(eff)))
        # kernels vs JIT, bitwise, same compiler flags as the JIT build
        st = jit_opts.get("scalar_type", "float64")
        rcs, logs = _run([_cc(), "-shared", "-fPIC", "-std=c17", *cflags, f"-I{INCLUDE}", c.name, "-o", "lib.so", "-lm"], outdir)
        if rcs != 0:
            chk.violation(key=f"cli:compile-failed:{label}", what="generated source does not link into a shared object", payload=dict(payload, log=logs[-1500:]))
            return
        ufd2, jitres = _jit_reference(src, jit_opts, tmp)
        info = {}
        _compare_kernels(chk, label, stem, prefix, ufd2, jitres, outdir / "lib.so", st, rng, payload, info)
        if numba:
            argvn = [a for a in argv]
            argvn = ["--language", "numba", *argvn]
            try:
                with T.Recorder() as logn, capture_format_code() as seenn:
                    ffcx.main.main(argvn)
            except Exception as ex:
                chk.violation(key=f"cli:main-raised:numba:{label}", what=f"ffcx.main.main --language numba raised {type(ex).__name__}",
                              payload=dict(payload, error=repr(ex)[:500]))
                return
            if len(seenn) == 1:
                tie_run(chk, d, f"cli:numba:{label}", "numba", logn, seenn[0][0], seenn[0][1], {"ufl_file": relpath, "argv": argvn})
            _check_numba(chk, label, outdir, stem, prefix, want_f, want_e, info, dict(payload, argv=argvn))


def search_files(chk, d, rng, thorough):
    """Real `ffcx` runs on fixed and generated UFL files."""
    cases = [
        {"label": "poisson", "relpath": "poisson.ufl", "text": UFL_POISSON.format(deg=1), "extra": [], "jit_opts": {}},
        {"label": "expr", "relpath": "my-expr.v2.ufl", "text": UFL_EXPR, "extra": ["--scalar_type", "float32"], "jit_opts": {"scalar_type": "float32"}},
        {"label": "mixed", "relpath": "sub dir/Mixed_3D.ufl", "text": UFL_MIXED, "extra": [], "jit_opts": {}},
        # the Jacobian drops the first coefficient (`source`)
        {"label": "deriv", "relpath": "nonlinear.ufl", "text": UFL_DERIV, "extra": [], "jit_opts": {}},
    ]
    if thorough:
        cases += [
            {"label": "poisson2-c128", "relpath": "p2.ufl", "text": UFL_POISSON.format(deg=2), "extra": ["--scalar_type", "complex128"],
             "jit_opts": {"scalar_type": "complex128"}},
            {"label": "poisson-ns", "relpath": "poisson.ufl", "text": UFL_POISSON.format(deg=1), "extra": ["-n", "myns", "-o", "outstem"], "jit_opts": {}},
            {"label": "quad-tp-sf", "relpath": "tp.ufl", "text": UFL_QUAD_TP, "extra": ["--sum_factorization"], "jit_opts": {"sum_factorization": True}},
        ]
    ngen = 60 if thorough else 12
    grng = random.Random(77000 + chk.seed)
    gen = [gen_ufl(grng, i) for i in range(ngen)]
    cflags = [f for f in (sysconfig.get_config_var("CFLAGS") or "").split() if f]
    for k, case in enumerate(cases + gen):
        fixed = k < len(cases)
        numba = (thorough and "sum_factorization" not in case["jit_opts"]) or (not fixed and k % 3 == 0) or case["label"] == "poisson"
        run_cli_case(chk, d, rng, case, cflags, numba)


def search_option_sources(chk, rng):
    """Every option-source combination for scalar_type / sum_factorization / table_rtol through the
    real main (stubbed after option collection): the effective value must come from the highest
    source that sets it (cli > $PWD json > user json > default)."""
    import ffcx.options

    vals = {
        "scalar_type": ("float64", {"user": "complex64", "pwd": "complex128", "cli": "float32"}),
        "sum_factorization": (False, {"user": True, "pwd": True, "cli": True}),
        "table_rtol": (1e-6, {"user": 1e-2, "pwd": 1e-3, "cli": 1e-4}),
    }
    for opt, (default, byvals) in vals.items():
        for mask in range(8):
            use = {"user": bool(mask & 1), "pwd": bool(mask & 2), "cli": bool(mask & 4)}
            user = {opt: byvals["user"]} if use["user"] else None
            pwd = {opt: byvals["pwd"]} if use["pwd"] else None
            argv = []
            if use["cli"]:
                argv = [f"--{opt}"] if isinstance(default, bool) else [f"--{opt}", repr(byvals["cli"]) if not isinstance(byvals["cli"], str) else byvals["cli"]]
            argv += ["x.ufl"]
            with X.hermetic_options(user, pwd):
                _rc, seen = run_main_stubbed(argv)
            eff = seen[0][3][opt]
            want = byvals["cli"] if use["cli"] else byvals["pwd"] if use["pwd"] else byvals["user"] if use["user"] else default
            src = "cli" if use["cli"] else "pwd" if use["pwd"] else "user" if use["user"] else "default"
            chk.case("option-source", key=f"{opt}:{mask}")
            if eff != want:
                if isinstance(default, bool) and not use["cli"]:
                    key = f"cli:store_true-overrides-json:{opt}"
                    what = (f"`{opt}: true` in ffcx_options.json is overridden by the command line although --{opt} was not given "
                            f"(store_true default False enters priority_options)")
                else:
                    key = f"cli:precedence:{opt}:{src}"
                    what = f"option {opt}: effective value {eff!r}, expected {want!r} from source {src}"
                viol_once(chk, key, what, {"argv": argv, "user_json": user, "pwd_json": pwd, "effective": repr(eff), "expected": repr(want),
                                           "replay": "write the json files into $XDG_CONFIG_HOME/ffcx/ and $PWD, run ffcx.main.main(argv); "
                                                     "the options dict handed to compile_ufl_objects is 'effective'"})


def search_json_end_to_end(chk):
    """One real run where the only non-default source is $PWD/ffcx_options.json."""
    import ffcx.main

    with X.hermetic_options(None, {"scalar_type": "float32", "table_rtol": 1e-3}) as (_x, cwd):
        src = Path(cwd) / "poisson.ufl"
        src.write_text(UFL_POISSON.format(deg=1))
        ffcx.main.main([str(src)])
        h = Path(cwd) / "poisson.h"
        c = Path(cwd) / "poisson.c"
        chk.case("json-end-to-end", key="pwd:scalar_type+table_rtol")
        chk.programs += 1
        if not h.exists():
            chk.violation(key="cli:files-missing:pwd-json", what="no output in the default output directory", payload={})
            return
        eff = _header_options(h.read_text())
        if eff.get("scalar_type") != "float32" or eff.get("table_rtol") != 1e-3 or "float* restrict A" not in c.read_text():
            chk.violation(key="cli:precedence:pwd-json-ignored", what="$PWD/ffcx_options.json not honoured by the ffcx command",
                          payload={"effective": repr(eff)})


# ------------------------------------------------------------------------------ run
def run(chk):
    thorough = chk.tier == "thorough"
    rng = random.Random(2000 + chk.seed)
    chk.rule = ("merge/cli/main-options: seeded random option sources (key = which keys each layer sets, only overlapping "
                "layers count as non-trivial); sanitise: file names with characters outside [A-Za-z0-9_]; format-code: key = shape "
                "class (rectangular / short / long / empty) and tuple lengths; template-instance: one key per (template, number of "
                "non-empty holes, size class) of a REAL instantiation; search: one key per fixed or seeded generated UFL file "
                "(cell × element × forms × expressions × names × options) / kernel / option-source combination")
    chk.trusted += [
        "argparse token handling and type= conversion are taken as given: the model starts from (dest, converted value) pairs",
        "harness/extract_names.py lexers (C top-level definitions, extern declarations), nm, the C compiler, cffi dlopen",
        "decl_defined_templates reads C text with the lexical machine of FfcxModel/Cli/Templates.lean (comments, literals, # lines "
        "as comments, brace depth, heads of top-level items): `DeclaredIn` / `DefinedIn` are ITS notions of an extern declaration and "
        "of a definition with external linkage; they are compared with the harness lexers and with nm on every real block",
        "extract_templates.Recorder (str subclasses in place of the template strings) reports the mapping the generator formats with",
        "json round trip of option files",
    ]
    chk.assumptions += ["posix paths without trailing slash / dot components in the sanitise_filename correspondence",
                        "decl_defined_templates: fillings respect the lexical obligations (`Respects`), checked on every real filling; "
                        "form / expression names and -n namespaces in generated files are ASCII identifiers"]
    data = X.regenerate()
    tdata = T.regenerate()
    chk.notes["generated_changed"] = data["changed"] + (["TemplatePieces.lean"] if tdata["changed"] else [])
    chk.notes["template_blocks"] = len(data["blocks"])
    chk.notes["template_strings"] = len(tdata["entries"])
    for msg in data.get("problems", []):
        chk.disagree("probe table", {"problem": msg})
    chk.lean("FfcxProofs.C20", THEOREMS, extra_files=LEAN_FILES)
    with lean.Driver("driver_names") as d:
        corr_merge(chk, d, rng, 1500 if thorough else 150)
        corr_cli(chk, d, rng, 1500 if thorough else 200)
        corr_main(chk, d, rng, 600 if thorough else 80)
        corr_format(chk, d, rng, 500 if thorough else 80)
        corr_templates_static(chk, d, rng, tdata, 25 if thorough else 4)
        corr_obligations(chk, d)
        corr_templates_probes(chk, d)
        search_option_sources(chk, rng)
        search_json_end_to_end(chk)
        search_files(chk, d, rng, thorough)
    if thorough:
        chk.leanchecker(["FfcxProofs.C20"])
