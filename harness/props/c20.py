"""C20 — the command-line compiler.

 (a) Lean obligations (FfcxProofs.C20) over the hand-written models and the tables regenerated from
     /repo (Generated/Options.lean, Generated/Templates.lean).
 (b) Correspondence on seeded random inputs: options.get_options vs `getOptions` (temporary
     XDG_CONFIG_HOME and cwd, `_load_options` cache cleared), main.parser.parse_args + the priority
     dict vs `priorityOptions`, the options `main` really compiles with vs `mainOptions`,
     main.sanitise_filename vs `sanitiseFilename` (observed through a `main` whose compile/write
     steps are stubbed), formatting.format_code vs `formatCode`.
 (c) Search on the real `ffcx` entry point: generated .ufl files -> ffcx.main.main -> <stem>.h/.c;
     stand-alone compile against ufcx.h, `nm` symbols ⊇ header externs, aliases present, kernels
     bitwise equal to the JIT path, every option-source combination takes effect with the documented
     precedence; thorough: numba output parses/compiles as Python.
"""
import ast
import json
import os
import random
import re
import shutil
import subprocess
import sysconfig
import tempfile
from pathlib import Path

import numpy as np

from .. import extract_names as X
from .. import lean

THEOREMS = [
    "Ffcx.Cli.merge_precedence",
    "Ffcx.Cli.merge_precedence_none",
    "Ffcx.Cli.priority_iff_given",
    "Ffcx.Cli.cli_only_given_generated",
    "Ffcx.Cli.cli_only_given",
    "Ffcx.Cli.cli_not_given_falls_through",
    "Ffcx.Cli.decl_defined",
    "Ffcx.Cli.format_code_concat",
    "Ffcx.Cli.sanitise_ident",
    "Ffcx.Cli.cli_alias_valid",
]

LEAN_FILES = [
    lean.LEAN / "FfcxProofs" / "Lemmas" / "Names.lean",
    lean.LEAN / "FfcxModel" / "Cli" / "Options.lean",
    lean.LEAN / "FfcxModel" / "Jit" / "Naming.lean",
    lean.LEAN / "FfcxModel" / "Generated" / "Options.lean",
    lean.LEAN / "FfcxModel" / "Generated" / "Templates.lean",
    lean.LEAN / "DriverNames.lean",
]

U = X.sexp_str
DEC = X.sexp_unstr
INCLUDE = Path("/repo/ffcx/codegeneration")


def viol_once(chk, key, what, payload):
    """Report a violation key once per run (first witness)."""
    seen = chk.notes.setdefault("violation_keys_reported", [])
    if key in seen:
        return
    seen.append(key)
    chk.violation(key=key, what=what, payload=payload)


def _dict_reply(r):
    """((k repr)…) reply -> [(k, repr)]"""
    return [(DEC(k), DEC(v)) for k, v in r]


def _real_items(d):
    return [(str(k), repr(v)) for k, v in d.items()]


# ------------------------------------------------------------------------------ generators
_KEYS = ["language", "epsilon", "scalar_type", "sum_factorization", "table_rtol", "table_atol", "verbosity", "part"]


def rjson_value(rng, key):
    if key == "verbosity":  # get_options calls int() on it
        return rng.choice([10, 20, 30, 40, 25])
    c = rng.randint(0, 6)
    if c == 0:
        return rng.choice(["float32", "float64", "complex128", "C", "full", "it's", 'q"x', "a b", ""])
    if c == 1:
        return rng.randint(-5, 50)
    if c == 2:
        return rng.choice([1e-6, 1e-3, 0.5, 1e-14, 2.5e-9, 1e16, 0.0001, 12.5, 1e22])
    if c == 3:
        return rng.random() < 0.5
    if c == 4:
        return None
    return rng.uniform(-1, 1) * 10 ** rng.randint(-12, 6)


def rsource(rng, extra=True):
    n = rng.randint(0, 4)
    keys = rng.sample(_KEYS + (["my_option", "Z"] if extra else []), n)
    return {k: rjson_value(rng, k) for k in keys}


# ------------------------------------------------------------------------------ (b) correspondence
def corr_merge(chk, d, rng, n):
    import ffcx.options

    defaults = {k: v[1] for k, v in ffcx.options.FFCX_DEFAULT_OPTIONS.items()}
    for i in range(n):
        user, pwd = rsource(rng), rsource(rng)
        prio = None if rng.random() < 0.2 else rsource(rng)
        have_user, have_pwd = rng.random() < 0.8, rng.random() < 0.8
        with X.hermetic_options(user if have_user else None, pwd if have_pwd else None):
            real = ffcx.options.get_options(None if prio is None else dict(prio))
        mu = user if have_user else {}
        mp = pwd if have_pwd else {}
        q = "(none)" if prio is None else f"(some ({X.sexp_items(prio)}))"
        got = _dict_reply(d.ask(f"(merge ({X.sexp_items(defaults)}) ({X.sexp_items(mu)}) ({X.sexp_items(mp)}) {q})"))
        layers = tuple(sorted(set(mu) & set(_KEYS))), tuple(sorted(set(mp) & set(_KEYS))), tuple(sorted(set(prio or {}) & set(_KEYS)))
        overl = (set(mu) & set(mp)) | (set(mu) & set(prio or {})) | (set(mp) & set(prio or {}))
        chk.case("merge", key=f"{layers}" if overl else None,
                 sample={"user": mu, "pwd": mp, "priority": prio} if i == 3 else None)
        if got != _real_items(real):
            chk.disagree("get_options", {"user": mu, "pwd": mp, "priority": prio, "model": got, "impl": _real_items(real)})


_CLI_VALUES = {
    "language": ["C", "numba"],
    "epsilon": ["1e-14", "1e-10", "0.5", "2.5e-9"],
    "scalar_type": ["float32", "float64", "complex64", "complex128"],
    "table_rtol": ["1e-3", "1e-6", "0.25"],
    "table_atol": ["1e-9", "0", "1e-12"],
    "verbosity": ["10", "20", "40"],
    "part": ["full", "diagonal"],
}


def rcli(rng, files=None):
    """Random command line: (argv, given) where `given` lists (dest, converted value) in order."""
    import ffcx.options

    argv, given = [], []
    opts = rng.sample(list(_CLI_VALUES) + ["sum_factorization", "visualise", "profile", "dir"], rng.randint(0, 5))
    for o in opts:
        if o in ("sum_factorization", "visualise", "profile"):
            argv += [f"--{o}"]
            given.append((o, True))
        elif o == "dir":
            argv += ["-d", "outdir"]
            given.append(("dir", "outdir"))
        else:
            txt = rng.choice(_CLI_VALUES[o])
            argv += [f"--{o}", txt]
            typ = ffcx.options.FFCX_DEFAULT_OPTIONS[o][0]
            given.append((o, typ(txt)))
    files = files if files is not None else [rng.choice(["a.ufl", "dir/b-c.ufl", "x.y.ufl"]) for _ in range(rng.randint(1, 2))]
    use_i = rng.random() < 0.4
    if use_i:
        if rng.random() < 0.5:
            ns = [f"ns{j}" for j in range(len(files))]
            argv += ["-n", *ns]
            given.append(("namespace", ns))
        if rng.random() < 0.5:
            of = [f"out{j}" for j in range(len(files))]
            argv += ["-o", *of]
            given.append(("outfile", of))
        argv += ["-i", *files]
        given.append(("input", list(files)))
        given.append(("ufl_file", []))  # a '*' positional is always assigned (empty list)
    else:
        argv += list(files)
        given.append(("ufl_file", list(files)))
    return argv, given


def corr_cli(chk, d, rng, n):
    import ffcx.main
    import ffcx.options

    for i in range(n):
        argv, given = rcli(rng)
        xargs = ffcx.main.parser.parse_args(argv)
        real_ns = dict(xargs.__dict__)
        real_prio = {k: v for k, v in real_ns.items() if v is not None}
        gs = X.sexp_items(dict(given))
        got_ns = _dict_reply(d.ask(f"(namespace {gs})"))
        got = _dict_reply(d.ask(f"(cli {gs})"))
        gk = tuple(sorted(k for k, _ in given if k in _KEYS))
        chk.case("cli", key=f"{gk}", sample={"argv": argv, "priority": repr(real_prio)} if i == 2 else None)
        if got_ns != _real_items(real_ns):
            chk.disagree("parse_args namespace", {"argv": argv, "model": got_ns, "impl": _real_items(real_ns)})
        if got != _real_items(real_prio):
            chk.disagree("priority_options of main", {"argv": argv, "model": got, "impl": _real_items(real_prio)})
        # F7 oracle on the REAL parser: an FFCx option is in the priority dict iff it was given
        for k in ffcx.options.FFCX_DEFAULT_OPTIONS:
            if (k in real_prio) != (k in dict(given)):
                is_flag = isinstance(ffcx.options.FFCX_DEFAULT_OPTIONS[k][1], bool)
                viol_once(
                    chk,
                    f"cli:store_true-overrides-json:{k}" if is_flag else f"cli:priority-without-flag:{k}",
                    f"main's priority_options contains FFCx option '{k}' iff given is violated "
                    f"(argparse default {ffcx.main.parser.get_default(k)!r}): the command line shadows ffcx_options.json",
                    {"argv": argv, "priority_options": repr(real_prio)},
                )


class _Stub(Exception):
    pass


def run_main_stubbed(argv):
    """Run the REAL ffcx.main.main with UFL loading / code generation / file writing stubbed:
    returns [(filename, namespace, outfile, options)] as main computed them."""
    import types

    import ffcx.main as M

    seen = []
    cur = {}
    orig = (M.ufl.algorithms.load_ufl_file, M.compiler.compile_ufl_objects, M.formatting.write_code)

    def load(filename):
        cur["file"] = filename
        return types.SimpleNamespace(forms=[], expressions=[], elements=[], object_names={})

    def comp(objs, options=None, object_names=None, namespace=None, visualise=False):
        cur["namespace"], cur["options"] = namespace, dict(options)
        return ["", ""], (".h", ".c")

    def write(code, prefix, suffixes, output_dir):
        seen.append((cur.get("file"), cur.get("namespace"), prefix, cur.get("options"), output_dir))

    try:
        M.ufl.algorithms.load_ufl_file, M.compiler.compile_ufl_objects, M.formatting.write_code = load, comp, write
        rc = M.main(argv)
    finally:
        M.ufl.algorithms.load_ufl_file, M.compiler.compile_ufl_objects, M.formatting.write_code = orig
    return rc, seen


_FN_ALPHA = "abXY09_-. !+é/"


def rfilename(rng):
    segs = []
    for _ in range(rng.randint(1, 3)):
        s = "".join(rng.choice(_FN_ALPHA.replace("/", "")) for _ in range(rng.randint(1, 7)))
        if s in (".", ".."):
            s = "d"
        segs.append(s)
    if segs[0].startswith("-"):  # would be taken for an option by argparse
        segs[0] = "f" + segs[0]
    return "/".join(segs) + rng.choice([".ufl", ".ufl", ".py", "", ".v2.ufl"])


def corr_main(chk, d, rng, n):
    """Options main really compiles with (all sources) and sanitise_filename, via the stubbed main."""
    for i in range(n):
        user, pwd = rsource(rng, extra=False), rsource(rng, extra=False)
        files = [rfilename(rng) for _ in range(rng.randint(1, 2))]
        argv, given = rcli(rng, files)
        with X.hermetic_options(user, pwd):
            rc, seen = run_main_stubbed(argv)
        if len(seen) != len(files):
            chk.disagree("main loop", {"argv": argv, "seen": len(seen)})
            continue
        got = _dict_reply(d.ask(f"(mainopts ({X.sexp_items(user)}) ({X.sexp_items(pwd)}) ({X.sexp_items(dict(given))}))"))
        real = _real_items(seen[0][3])
        srcs = {k: ("cli" if k in dict(given) else "pwd" if k in pwd else "user" if k in user else "default") for k in _KEYS}
        chk.case("main-options", key=str(sorted(set(srcs.values()))) + str(sorted(k for k, s in srcs.items() if s != "default")),
                 sample={"argv": argv, "user": user, "pwd": pwd} if i == 1 else None)
        if got != real:
            chk.disagree("options main compiles with", {"argv": argv, "user": user, "pwd": pwd, "model": got, "impl": real})
        gd = dict(given)
        for j, (fname, ns, outfile, _o, outdir) in enumerate(seen):
            want = DEC(d.ask(f"(sanitise {U(files[j])})"))
            exp_ns = gd["namespace"][j] if "namespace" in gd else want
            exp_of = gd["outfile"][j] if "outfile" in gd else want
            chk.case("sanitise", key=files[j] if re.search(r"[^A-Za-z0-9_/.]", files[j]) else None)
            if ns != exp_ns or outfile != exp_of:
                chk.disagree("sanitise_filename / namespace selection", {"file": files[j], "argv": argv, "model": [exp_ns, exp_of], "impl": [ns, outfile]})
            if "namespace" not in gd and d.ask(f"(validident {U('form_' + ns + '_a')})") != "true":
                chk.violation(key="cli:namespace-not-identifier", what="sanitise_filename produced a non-identifier namespace",
                              payload={"file": files[j], "namespace": ns})


def corr_format(chk, d, rng, n):
    import ffcx.formatting
    from ffcx.codegeneration.codegeneration import CodeBlocks

    def rs():
        return "".join(rng.choice("ab;\n{}# ") for _ in range(rng.randint(0, 5)))

    for _ in range(n):
        w = rng.choice([1, 2, 2, 3])
        blocks = [[tuple(rs() for _ in range(w)) for _ in range(1 if bi in (0, 4) else rng.randint(0, 3))] for bi in range(5)]
        real = ffcx.formatting.format_code(CodeBlocks(*blocks))
        req = "(formatcode " + " ".join("(" + " ".join("(" + " ".join(U(s) for s in t) + ")" for t in b) + ")" for b in blocks) + ")"
        got = [DEC(x) for x in d.ask(req)]
        chk.case("format-code", key=f"{w}:{[len(b) for b in blocks]}")
        if got != list(real):
            chk.disagree("format_code", {"blocks": blocks, "model": got, "impl": list(real)})


# ------------------------------------------------------------------------------ (c) search
UFL_POISSON = '''
import basix.ufl
from ufl import (Coefficient, Constant, FunctionSpace, Mesh, TestFunction, TrialFunction, ds, dx, grad, inner)
element = basix.ufl.element("Lagrange", "triangle", {deg})
domain = Mesh(basix.ufl.element("Lagrange", "triangle", 1, shape=(2,)))
space = FunctionSpace(domain, element)
u = TrialFunction(space)
v = TestFunction(space)
f = Coefficient(space)
kappa = Constant(domain)
a = kappa * inner(grad(u), grad(v)) * dx + f * inner(u, v) * ds
L = inner(f, v) * dx
'''

UFL_DERIV = '''
import basix.ufl
from ufl import (Coefficient, Constant, FunctionSpace, Mesh, TestFunction, TrialFunction, derivative, ds, dx, grad, inner)
element = basix.ufl.element("Lagrange", "triangle", 1)
domain = Mesh(basix.ufl.element("Lagrange", "triangle", 1, shape=(2,)))
space = FunctionSpace(domain, element)
v = TestFunction(space)
du = TrialFunction(space)
source = Coefficient(space)
unknown = Coefficient(space)
kappa = Coefficient(space)
alpha = Constant(domain)
beta = Constant(domain)
F = source * v * dx + (1 + unknown**2) * kappa * inner(grad(unknown), grad(v)) * dx + alpha * beta * unknown * v * ds
J = derivative(F, unknown, du)
forms = [F, J]
'''

UFL_EXPR = '''
import basix.ufl
import numpy as np
from ufl import Coefficient, Constant, FunctionSpace, Mesh, grad, SpatialCoordinate
element = basix.ufl.element("Lagrange", "triangle", 2)
domain = Mesh(basix.ufl.element("Lagrange", "triangle", 1, shape=(2,)))
space = FunctionSpace(domain, element)
f = Coefficient(space)
c = Constant(domain)
flux = c * grad(f)
x = SpatialCoordinate(domain)
points = np.array([[0.25, 0.25], [0.5, 0.125]])
expressions = [(flux, points), (x[0] * x[1] + f, points)]
elements = [element]
'''

UFL_MIXED = '''
import basix.ufl
import numpy as np
from ufl import (Coefficient, FunctionSpace, Mesh, TestFunction, TrialFunction, dx, dS, ds, inner, jump, avg, div)
P2 = basix.ufl.element("Lagrange", "tetrahedron", 2, shape=(3,))
P1 = basix.ufl.element("Lagrange", "tetrahedron", 1)
TH = basix.ufl.mixed_element([P2, P1])
domain = Mesh(basix.ufl.element("Lagrange", "tetrahedron", 1, shape=(3,)))
W = FunctionSpace(domain, TH)
Q = FunctionSpace(domain, P1)
from ufl import TrialFunctions, TestFunctions
(u, p) = TrialFunctions(W)
(v, q) = TestFunctions(W)
g = Coefficient(Q)
stokes = (inner(u, v) - div(v) * p + q * div(u)) * dx + g * inner(u, v) * ds(3)
J = g * g * dx + jump(g) * avg(g) * dS
pts = np.array([[0.1, 0.2, 0.3]])
gexpr = g * g
forms = [stokes, J]
expressions = [(gexpr, pts)]
'''

UFL_QUAD_TP = '''
import basix
import basix.ufl
from ufl import Coefficient, FunctionSpace, Mesh, TestFunction, TrialFunction, dx, inner, grad
el = basix.ufl.wrap_element(basix.create_tp_element(basix.ElementFamily.P, basix.CellType.quadrilateral, 2, basix.LagrangeVariant.gll_warped))
cel = basix.ufl.blocked_element(basix.ufl.wrap_element(basix.create_tp_element(basix.ElementFamily.P, basix.CellType.quadrilateral, 1, basix.LagrangeVariant.gll_warped)), shape=(2,))
domain = Mesh(cel)
V = FunctionSpace(domain, el)
u, v = TrialFunction(V), TestFunction(V)
a = inner(grad(u), grad(v)) * dx
'''


def _cc():
    return os.environ.get("CC", "cc")


def _run(cmd, cwd):
    p = subprocess.run(cmd, cwd=str(cwd), capture_output=True, text=True, timeout=600)
    return p.returncode, p.stdout + p.stderr


def _header_options(text):
    """The options dict printed into the generated file header (pprint of the dict main compiled with)."""
    lines = []
    on = False
    for l in text.split("\n"):
        if "generated with the following options" in l:
            on = True
            continue
        if on:
            m = re.match(r"^(//|#)  (.*)$", l)
            if m:
                lines.append(m.group(2))
            elif lines:
                break
    return ast.literal_eval("\n".join(lines))


def _jit_reference(ufl_path, options, tmp):
    """JIT path for the same UFL objects (fresh load of the file)."""
    import ffcx.codegeneration.jit as jit
    import ufl

    ufd = ufl.algorithms.load_ufl_file(str(ufl_path))
    out = {}
    if ufd.forms:
        forms, mod, _ = jit.compile_forms(list(ufd.forms), options=dict(options), cache_dir=tmp / "jitcache")
        out["forms"] = (forms, mod)
    if ufd.expressions:
        exprs, mod, _ = jit.compile_expressions(list(ufd.expressions), options=dict(options), cache_dir=tmp / "jitcache")
        out["exprs"] = (exprs, mod)
    return ufd, out


_CT = {"float64": "double", "float32": "float", "complex128": "double _Complex", "complex64": "float _Complex"}
_NP = {"float64": np.float64, "float32": np.float32, "complex128": np.complex128, "complex64": np.complex64}
_RNP = {"float64": np.float64, "float32": np.float32, "complex128": np.float64, "complex64": np.float32}


def _call(ffi, fn, st, A, w, c, x):
    rt = "double" if _RNP[st] is np.float64 else "float"
    ent = np.zeros(2, dtype=np.intc)
    perm = np.zeros(2, dtype=np.uint8)
    fn(ffi.cast(f"{_CT[st]} *", A.ctypes.data), ffi.cast(f"{_CT[st]} *", w.ctypes.data), ffi.cast(f"{_CT[st]} *", c.ctypes.data),
       ffi.cast(f"{rt} *", x.ctypes.data), ffi.cast("int *", ent.ctypes.data), ffi.cast("uint8_t *", perm.ctypes.data), ffi.NULL)
    return A


def _compare_kernels(chk, label, stem, prefix, ufd, jitres, so_path, st, rng, payload):
    """dlopen the stand-alone build, reach the objects through their aliases, compare with JIT bitwise."""
    import cffi
    import ffcx.codegeneration.jit as jit

    ffi = cffi.FFI()
    decl = jit.UFC_HEADER_DECL.format(np.dtype(st).name) + jit.UFC_INTEGRAL_DECL + jit.UFC_FORM_DECL + jit.UFC_EXPRESSION_DECL
    names = ufd.object_names
    fal = [f"form_{prefix}_{names.get(id(f), i)}" for i, f in enumerate(ufd.forms)]
    eal = [f"expression_{prefix}_{names.get(id(e[0]), i)}" for i, e in enumerate(ufd.expressions)]
    for n in fal:
        decl += f"extern ufcx_form* {n};\n"
    for n in eal:
        decl += f"extern ufcx_expression* {n};\n"
    ffi.cdef(decl)
    lib = ffi.dlopen(str(so_path))
    nrng = np.random.default_rng(rng.randrange(2 ** 31))

    def arr(n):
        a = nrng.uniform(-1, 1, size=max(n, 1))
        if "complex" in st:
            a = a + 1j * nrng.uniform(-1, 1, size=max(n, 1))
        return a.astype(_NP[st])

    ncmp = 0
    if ufd.forms:
        jforms, jmod = jitres["forms"]
        for n, jf in zip(fal, jforms):
            sf = getattr(lib, n)[0]
            for fld in ("rank", "num_coefficients", "num_constants"):
                if getattr(sf, fld) != getattr(jf, fld):
                    chk.violation(key=f"cli:descriptor-differs:{label}", what=f"form descriptor field {fld} differs between ffcx CLI output and JIT",
                                  payload=dict(payload, alias=n))
            # names: entry k of the name maps must name the coefficient/constant that position k of w / c holds
            uform = ufd.forms[fal.index(n)]
            ocoefs = list(uform.coefficients())
            want_c = [names.get(id(ocoefs[sf.original_coefficient_positions[k]]), None) for k in range(sf.num_coefficients)]
            got_c = [ffi.string(sf.coefficient_name_map[k]).decode() for k in range(sf.num_coefficients)]
            want_k = [names.get(id(cc), None) for cc in uform.constants()]
            got_k = [ffi.string(sf.constant_name_map[k]).decode() for k in range(sf.num_constants)]
            chk.case("name-maps", key=f"{label}:{n}:{got_c}:{got_k}")
            if any(w is not None and w != g for w, g in zip(want_c, got_c)) or len(want_c) != len(got_c):
                chk.violation(key=f"cli:coefficient-name-map:{label}", what=f"coefficient_name_map {got_c} does not name the coefficients at original_coefficient_positions ({want_c})",
                              payload=dict(payload, alias=n, got=got_c, expected=want_c))
            if any(w is not None and w != g for w, g in zip(want_k, got_k)) or len(want_k) != len(got_k):
                chk.violation(key=f"cli:constant-name-map:{label}", what=f"constant_name_map {got_k} does not name the form's constants ({want_k})",
                              payload=dict(payload, alias=n, got=got_k, expected=want_k))
            nint = jf.form_integral_offsets[5] if hasattr(jf, "form_integral_offsets") else 0
            tot = sf.form_integral_offsets[5]
            if tot != nint:
                chk.violation(key=f"cli:descriptor-differs:{label}", what="number of integrals differs between CLI output and JIT", payload=dict(payload, alias=n))
                continue
            for k in range(tot):
                x = nrng.uniform(0, 1, size=64).astype(_RNP[st])
                w, c = arr(4096), arr(64)
                A1 = np.zeros(40000, dtype=_NP[st])
                A2 = np.zeros(40000, dtype=_NP[st])
                _call(ffi, getattr(sf.form_integrals[k], f"tabulate_tensor_{st}"), st, A1, w, c, x)
                _call(jmod.ffi, getattr(jf.form_integrals[k], f"tabulate_tensor_{st}"), st, A2, w, c, x)
                ncmp += 1
                chk.case("kernel-compare", key=f"{label}:{n}:{k}")
                if A1.tobytes() != A2.tobytes() and np.all(np.isfinite(A1)) and np.any(A1 != 0) and \
                        float(np.abs(A1 - A2).max()) <= 1e-12 * max(1.0, float(np.abs(A2).max())):
                    # same tensors up to rounding (another compiler / flag set than the JIT build): not a violation
                    chk.notes["cli_vs_jit_not_bitwise"] = chk.notes.get("cli_vs_jit_not_bitwise", 0) + 1
                elif A1.tobytes() != A2.tobytes() or not np.any(A1 != 0):
                    bad = np.flatnonzero(A1 != A2)[:5].tolist()
                    chk.violation(key=f"cli:kernel-differs:{label}", what="kernel of the ffcx CLI output and of the JIT path give different tensors (or only zeros)",
                                  payload=dict(payload, alias=n, integral=k, first_bad=bad, nonzero=bool(np.any(A1 != 0))))
    if ufd.expressions:
        jex, jmod = jitres["exprs"]
        for n, je in zip(eal, jex):
            se = getattr(lib, n)[0]
            x = nrng.uniform(0, 1, size=64).astype(_RNP[st])
            w, c = arr(4096), arr(64)
            A1 = np.zeros(40000, dtype=_NP[st])
            A2 = np.zeros(40000, dtype=_NP[st])
            _call(ffi, getattr(se, f"tabulate_tensor_{st}"), st, A1, w, c, x)
            _call(jmod.ffi, getattr(je, f"tabulate_tensor_{st}"), st, A2, w, c, x)
            ncmp += 1
            chk.case("kernel-compare", key=f"{label}:{n}")
            if A1.tobytes() != A2.tobytes() or not np.any(A1 != 0):
                chk.violation(key=f"cli:kernel-differs:{label}", what="expression kernel of CLI output and JIT differ (or only zeros)",
                              payload=dict(payload, alias=n))
    return ncmp


def search_files(chk, rng, thorough):
    """Real `ffcx` runs on generated UFL files."""
    import ffcx.main

    cases = [
        ("poisson", "poisson.ufl", UFL_POISSON.format(deg=1), [], {}),
        ("expr", "my-expr.v2.ufl", UFL_EXPR, ["--scalar_type", "float32"], {"scalar_type": "float32"}),
        ("mixed", "sub dir/Mixed_3D.ufl", UFL_MIXED, [], {}),
        ("deriv", "nonlinear.ufl", UFL_DERIV, [], {}),   # the Jacobian drops the first coefficient (`source`)
    ]
    if thorough:
        cases += [
            ("poisson2-c128", "p2.ufl", UFL_POISSON.format(deg=2), ["--scalar_type", "complex128"], {"scalar_type": "complex128"}),
            ("poisson-ns", "poisson.ufl", UFL_POISSON.format(deg=1), ["-n", "myns", "-o", "outstem"], {}),
            ("quad-tp-sf", "tp.ufl", UFL_QUAD_TP, ["--sum_factorization"], {"sum_factorization": True}),
        ]
    cflags = [f for f in (sysconfig.get_config_var("CFLAGS") or "").split() if f]
    for label, relpath, text, extra, jit_opts in cases:
        with X.hermetic_options() as (_xdg, cwd):
            tmp = Path(cwd)
            src = tmp / relpath
            src.parent.mkdir(parents=True, exist_ok=True)
            src.write_text(text)
            outdir = tmp / "out"
            outdir.mkdir()
            argv = [*extra, "-d", str(outdir)]
            if "-n" in extra:
                argv += ["-i", str(src)]
            else:
                argv += [str(src)]
            payload = {"ufl_file": relpath, "ufl_source": text, "argv": argv}
            try:
                rc = ffcx.main.main(argv)
            except Exception as ex:
                chk.violation(key=f"cli:main-raised:{label}", what=f"ffcx.main.main raised {type(ex).__name__}", payload=dict(payload, error=repr(ex)[:500]))
                continue
            chk.programs += 1
            stem = "outstem" if "-o" in extra else re.sub(r"[^A-Za-z0-9_]+", "_", Path(relpath).stem)
            prefix = "myns" if "-n" in extra else stem
            h, c = outdir / f"{stem}.h", outdir / f"{stem}.c"
            chk.case("cli-run", key=label)
            if rc != 0 or not h.exists() or not c.exists():
                chk.violation(key=f"cli:files-missing:{label}", what="ffcx did not write <stem>.h and <stem>.c", payload=dict(payload, listing=os.listdir(outdir)))
                continue
            # stand-alone compile against ufcx.h
            rcc, log = _run([_cc(), "-c", "-std=c17", "-Wall", "-Werror=implicit-function-declaration", f"-I{INCLUDE}", c.name, "-o", f"{stem}.o"], outdir)
            if rcc != 0:
                chk.violation(key=f"cli:compile-failed:{label}", what="generated source does not compile stand-alone against ufcx.h", payload=dict(payload, log=log[-1500:]))
                continue
            # the header must be self-contained too
            (outdir / "hdr_only.c").write_text(f'#include "{stem}.h"\nint main(void) {{ return 0; }}\n')
            rch, logh = _run([_cc(), "-c", "-std=c17", f"-I{INCLUDE}", "hdr_only.c", "-o", "hdr_only.o"], outdir)
            if rch != 0:
                chk.violation(key=f"cli:header-not-selfcontained:{label}", what="generated header does not compile on its own", payload=dict(payload, log=logh[-1500:]))
            _, nm = _run(["nm", "--defined-only", "-g", f"{stem}.o"], outdir)
            defined = {l.split()[-1] for l in nm.splitlines() if len(l.split()) >= 3}
            declared = X.c_declared(h.read_text())
            missing = [n for n in declared if n not in defined]
            chk.case("decl-defined", key=f"{label}:{len(declared)}")
            if missing:
                chk.violation(key=f"cli:declared-not-defined:{label}", what="names declared extern in the header are not defined in the object file",
                              payload=dict(payload, missing=missing))
            # aliases of named objects
            import ufl

            ufd = ufl.algorithms.load_ufl_file(str(src))
            want = [f"form_{prefix}_{ufd.object_names.get(id(f), i)}" for i, f in enumerate(ufd.forms)]
            want += [f"expression_{prefix}_{ufd.object_names.get(id(e[0]), i)}" for i, e in enumerate(ufd.expressions)]
            noalias = [n for n in want if n not in defined or n not in declared]
            chk.case("aliases", key=f"{label}:{want}")
            if noalias:
                chk.violation(key=f"cli:alias-missing:{label}", what="form_<prefix>_<name> / expression_<prefix>_<name> alias missing from header or object file",
                              payload=dict(payload, missing=noalias, defined_sample=sorted(defined)[:10]))
            # options printed in both files
            eff = _header_options(h.read_text())
            for k, v in jit_opts.items():
                if eff.get(k) != v:
                    chk.violation(key=f"cli:option-ignored:{k}", what=f"option {k} given on the command line is not the effective one", payload=dict(payload, effective=repr(eff)))
            # kernels vs JIT, bitwise, same compiler flags as the JIT build
            st = jit_opts.get("scalar_type", "float64")
            rcs, logs = _run([_cc(), "-shared", "-fPIC", "-std=c17", *cflags, f"-I{INCLUDE}", c.name, "-o", f"{stem}.so", "-lm"], outdir)
            if rcs != 0:
                chk.violation(key=f"cli:compile-failed:{label}", what="generated source does not link into a shared object", payload=dict(payload, log=logs[-1500:]))
                continue
            ufd2, jitres = _jit_reference(src, jit_opts, tmp)
            _compare_kernels(chk, label, stem, prefix, ufd2, jitres, outdir / f"{stem}.so", st, rng, payload)
            if thorough:
                argvn = ["--language", "numba", "-d", str(outdir), str(src)] if "-n" not in extra else None
                if argvn and "sum_factorization" not in jit_opts:
                    ffcx.main.main(argvn)
                    pyf = outdir / f"{stem}_numba.py"
                    chk.case("numba-output", key=label)
                    if not pyf.exists():
                        chk.violation(key=f"cli:files-missing:numba:{label}", what="ffcx --language numba did not write <stem>_numba.py", payload=payload)
                    else:
                        try:
                            compile(ast.parse(pyf.read_text()), str(pyf), "exec")
                        except SyntaxError as ex:
                            chk.violation(key=f"cli:numba-not-python:{label}", what="numba output is not valid Python", payload=dict(payload, error=repr(ex)))


def search_option_sources(chk, rng):
    """Every option-source combination for scalar_type / sum_factorization / table_rtol through the
    real main (stubbed after option collection): the effective value must come from the highest
    source that sets it (cli > $PWD json > user json > default)."""
    import ffcx.options

    vals = {
        "scalar_type": ("float64", {"user": "complex64", "pwd": "complex128", "cli": "float32"}),
        "sum_factorization": (False, {"user": True, "pwd": True, "cli": True}),
        "table_rtol": (1e-6, {"user": 1e-2, "pwd": 1e-3, "cli": 1e-4}),
    }
    for opt, (default, byvals) in vals.items():
        for mask in range(8):
            use = {"user": bool(mask & 1), "pwd": bool(mask & 2), "cli": bool(mask & 4)}
            user = {opt: byvals["user"]} if use["user"] else None
            pwd = {opt: byvals["pwd"]} if use["pwd"] else None
            argv = []
            if use["cli"]:
                argv = [f"--{opt}"] if isinstance(default, bool) else [f"--{opt}", repr(byvals["cli"]) if not isinstance(byvals["cli"], str) else byvals["cli"]]
            argv += ["x.ufl"]
            with X.hermetic_options(user, pwd):
                _rc, seen = run_main_stubbed(argv)
            eff = seen[0][3][opt]
            want = byvals["cli"] if use["cli"] else byvals["pwd"] if use["pwd"] else byvals["user"] if use["user"] else default
            src = "cli" if use["cli"] else "pwd" if use["pwd"] else "user" if use["user"] else "default"
            chk.case("option-source", key=f"{opt}:{mask}")
            if eff != want:
                if isinstance(default, bool) and not use["cli"]:
                    key = f"cli:store_true-overrides-json:{opt}"
                    what = (f"`{opt}: true` in ffcx_options.json is overridden by the command line although --{opt} was not given "
                            f"(store_true default False enters priority_options)")
                else:
                    key = f"cli:precedence:{opt}:{src}"
                    what = f"option {opt}: effective value {eff!r}, expected {want!r} from source {src}"
                viol_once(chk, key, what, {"argv": argv, "user_json": user, "pwd_json": pwd, "effective": repr(eff), "expected": repr(want),
                                           "replay": "write the json files into $XDG_CONFIG_HOME/ffcx/ and $PWD, run ffcx.main.main(argv); "
                                                     "the options dict handed to compile_ufl_objects is 'effective'"})


def search_json_end_to_end(chk):
    """One real run where the only non-default source is $PWD/ffcx_options.json."""
    import ffcx.main

    with X.hermetic_options(None, {"scalar_type": "float32", "table_rtol": 1e-3}) as (_x, cwd):
        src = Path(cwd) / "poisson.ufl"
        src.write_text(UFL_POISSON.format(deg=1))
        ffcx.main.main([str(src)])
        h = Path(cwd) / "poisson.h"
        c = Path(cwd) / "poisson.c"
        chk.case("json-end-to-end", key="pwd:scalar_type+table_rtol")
        chk.programs += 1
        if not h.exists():
            chk.violation(key="cli:files-missing:pwd-json", what="no output in the default output directory", payload={})
            return
        eff = _header_options(h.read_text())
        if eff.get("scalar_type") != "float32" or eff.get("table_rtol") != 1e-3 or "float* restrict A" not in c.read_text():
            chk.violation(key="cli:precedence:pwd-json-ignored", what="$PWD/ffcx_options.json not honoured by the ffcx command",
                          payload={"effective": repr(eff)})


# ------------------------------------------------------------------------------ run
def run(chk):
    thorough = chk.tier == "thorough"
    rng = random.Random(2000 + chk.seed)
    chk.rule = ("merge/cli/main-options: seeded random option sources (key = which keys each layer sets, only overlapping "
                "layers count as non-trivial); sanitise: file names with characters outside [A-Za-z0-9_]; search: one key per "
                "generated UFL file / kernel / option-source combination")
    chk.trusted += [
        "argparse token handling and type= conversion are taken as given: the model starts from (dest, converted value) pairs",
        "harness/extract_names.py lexers (C top-level definitions, extern declarations), nm, the C compiler, cffi dlopen",
        "json round trip of option files",
    ]
    chk.assumptions += ["posix paths without trailing slash / dot components in the sanitise_filename correspondence"]
    data = X.regenerate()
    chk.notes["generated_changed"] = data["changed"]
    chk.notes["template_blocks"] = len(data["blocks"])
    chk.lean("FfcxProofs.C20", THEOREMS, extra_files=LEAN_FILES)
    with lean.Driver("driver_names") as d:
        corr_merge(chk, d, rng, 1500 if thorough else 150)
        corr_cli(chk, d, rng, 1500 if thorough else 200)
        corr_main(chk, d, rng, 600 if thorough else 80)
        corr_format(chk, d, rng, 500 if thorough else 60)
    search_option_sources(chk, rng)
    search_json_end_to_end(chk)
    search_files(chk, rng, thorough)
    if thorough:
        chk.leanchecker(["FfcxProofs.C20"])
