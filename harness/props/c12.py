"""C12 -- generation is deterministic and history independent (DESIGN.md §6 C12, §7 F9, App. A).

(a) translator + proof obligations
    harness/extract_sites.py rescans /repo/ffcx and regenerates lean/FfcxModel/Generated/Sites.lean;
    FfcxProofs.C12 is rebuilt: `inventory_complete` (by `decide`) breaks when the scanner finds a site
    the model table `modelledSites` does not cover or when a modelled statement changed its hash.
(b) failing-input search = subprocess differential on the REAL code
    the same UFL objects are built in fresh interpreters with different PYTHONHASHSEEDs and different
    process histories; the SHA-256 of the text returned by `ffcx.compiler.compile_ufl_objects` (C and numba)
    must be identical.  Every difference is classified by WHAT differs (not by which form) and reported
    as a violation with a canonical key, e.g. `hashseed:section-inputs-comment-order`.
    The five kinds found on the tree before the F9 fix commits (ARMED_KEYS) stay armed: a few extra workers run
    with those fixes reverted by monkeypatch in the worker process only, and the search must report exactly
    these five kinds on them (otherwise: correspondence broken -> the check fails).

The worker lives in this file: `python -m harness.props.c12 --worker '<job json>'`.
"""
from __future__ import annotations

import hashlib
import json
import os
import re
import shutil
import subprocess
import sys
import tempfile
import time
from collections import Counter, defaultdict
from concurrent.futures import ThreadPoolExecutor
from pathlib import Path

VERIF = Path(__file__).resolve().parent.parent.parent
PY = "/venv/bin/python"

THEOREMS = [
    # canonicalisation idioms
    "Ffcx.C12.sorted_canon",
    "Ffcx.C12.dedup_sorted_canon",
    "Ffcx.C12.dedup_sorted_canon_of_same_elems",
    "Ffcx.C12.hash_irrelevant_of_perm_invariant",
    # canonicalised / order-oblivious sites
    "Ffcx.C12.site_invariant_coordinate_elements",
    "Ffcx.C12.site_invariant_argkeys_sum",
    "Ffcx.C12.site_invariant_argkeys_conditional",
    "Ffcx.C12.site_invariant_jit_argument_numbers",
    "Ffcx.C12.site_invariant_active_tables",
    "Ffcx.C12.site_invariant_singleton_unpack",
    "Ffcx.C12.site_invariant_ufl_names",
    "Ffcx.C12.site_invariant_membership",
    "Ffcx.C12.site_invariant_element_dimensions",
    "Ffcx.C12.site_invariant_object_names",
    "Ffcx.C12.site_invariant_index_position",
    "Ffcx.C12.site_invariant_temp_symbols",
    # the sites repaired by the F9 fix commits: full invariance (they were counterexample/partial pairs before)
    "Ffcx.C12.site_invariant_fuse_inputs",
    "Ffcx.C12.site_invariant_fuse_outputs",
    "Ffcx.C12.site_invariant_block_inputs",
    "Ffcx.C12.site_invariant_table_numbering",
    "Ffcx.C12.site_invariant_geometry_tables",
    "Ffcx.C12.site_invariant_jacobian_symbol",
    "Ffcx.C12.set_order_would_leak",
    # sets of int-hashed keys (canonical by a CPython detail): counterexample + what does hold
    "Ffcx.C12.site_integral_domains_counterexample",
    "Ffcx.C12.site_integral_domains_partial",
    "Ffcx.C12.site_int_argkeys_counterexample",
    "Ffcx.C12.site_int_argkeys_partial",
    # state
    "Ffcx.C12.counters_fresh",
    "Ffcx.C12.no_written_module_state",
    # inventory
    "Ffcx.C12.inventory_complete",
    "Ffcx.C12.inventory_no_stale",
    "Ffcx.C12.inventory_tags_consistent",
    "Ffcx.C12.modelled_sites_have_theorems",
]

SCRATCH_PREFIX = "ffcxverif_c12_"

# --------------------------------------------------------------------------------------------
#                                        corpus of this check
# --------------------------------------------------------------------------------------------
# The quick tier must exhibit every KNOWN kind of difference reliably (fixed seeds, fixed objects):
# interior facets, prism (two facet cell types in one integral), mixed elements with several
# sub-elements, several coefficients, non-affine geometry, expressions, one demo.
QUICK_ENTRIES = [
    "int_facet_tri",          # interior facet, restricted coefficient, Jacobian section, many fw temporaries
    "prism",                  # exterior facets of two cell types -> two kernels for one integral
    "stokes_mixed",           # mixed element with sub-elements (element numbering)
    "c12_mixed3_coefs",       # local: 4 sub-elements + coefficients on each (numbering ties)
    "laplace_coef_tri_p2",    # coefficient + constant
    "rhs_tri_p2",             # several coefficients
    "nonaffine_quad",         # non-affine geometry
    "geometry_tet",           # geometry tables (reference normals, facet area ...)
    "subdomains",             # several integrals / subdomain ids
    "expr_rank1",             # expression with argument, coefficient, constant
    "expr_facet",             # expression on facets with geometry tables
    "c12_sumfact_hex",        # local: sum factorisation (other-options history: sum_factorization off first)
    "c12_macro_iso",          # local: macro element (rule depends on the polyset type; P1 forms of equal degree compiled first)
    "c12_expr_parent_facet_mesh", "c12_expr_two_meshes_same_cel", "c12_expr_three_meshes",  # local: expressions over several meshes
    "c12_mixed_dim_geometry", # local: two meshes (triangle + interval) -> one geometry quantity on two cell names
    "c12_index_order",        # local: + the same form with its free indices created in another order
    "c12_coef_order",         # local: + the same form with its coefficients/arguments created in another order
    "demo_BiharmonicHHJ",     # a demo
]
# Regression detectors ("armed" check): these jobs run with the F9 fixes reverted IN THE WORKER PROCESS ONLY
# (monkeypatch, see _apply_reverts) and must make the search report exactly these kinds of difference.
#   (entry, lang, history, PYTHONHASHSEED)
SELFTEST_JOBS = [
    ("laplace_coef_tri_p2", "C", "fresh", 0), ("laplace_coef_tri_p2", "C", "fresh", 1),
    ("laplace_coef_tri_p2", "C", "unrelated", 0),
    ("int_facet_tri", "C", "fresh", 0), ("int_facet_tri", "C", "fresh", 1),
    ("c12_mixed_dim_geometry", "C", "fresh", 0), ("c12_mixed_dim_geometry", "C", "fresh", 2),
]
ARMED_KEYS = ["hashseed:section-inputs-comment-order", "hashseed:section-outputs-comment-order",
              "hashseed:FE-table-numbering", "hashseed:geometry-table-order", "history:J-symbol-ufl_id"]
VARIANT_ENTRIES = ("c12_index_order", "c12_coef_order")
OTHER_FORMS_FIRST = ["ext_facet_quad", "stokes_mixed", "expr_tensor", "mass_tri_p1", "int_facet_tri"]   # compiled before the target in `others-first`


def _local_entries():
    """Entries that exist only for this check (built like harness.corpus entries)."""
    import basix
    import basix.ufl
    import ufl
    from harness import corpus

    def mixed3():
        m = corpus.mesh("triangle")
        P2 = basix.ufl.element("P", "triangle", 2, shape=(2,))
        P1 = basix.ufl.element("P", "triangle", 1)
        DG0 = basix.ufl.element("DP", "triangle", 0)
        RT = basix.ufl.element("RT", "triangle", 1)
        W = ufl.FunctionSpace(m, basix.ufl.mixed_element([P2, P1, DG0, RT]))
        u, p, r, s = ufl.TrialFunctions(W)
        v, q, t, z = ufl.TestFunctions(W)
        f = ufl.Coefficient(ufl.FunctionSpace(m, P1))
        g = ufl.Coefficient(ufl.FunctionSpace(m, P2))
        h = ufl.Coefficient(ufl.FunctionSpace(m, DG0))
        k = ufl.Coefficient(W)
        return [f * ufl.inner(ufl.grad(u), ufl.grad(v)) * ufl.dx - ufl.div(v) * p * ufl.dx + q * ufl.div(u) * ufl.dx
                + h * r * t * ufl.dx + ufl.inner(g, v) * p * ufl.dx + ufl.inner(s, z) * ufl.dx
                + ufl.inner(k[0], 1.0) * ufl.div(s) * t * ufl.dx]

    def sumfact():
        cell = basix.CellType.hexahedron
        ce = basix.ufl.wrap_element(basix.create_tp_element(basix.ElementFamily.P, cell, 1))
        cme = basix.ufl.blocked_element(ce, shape=(3,))
        m = ufl.Mesh(cme)
        e = basix.ufl.wrap_element(basix.create_tp_element(basix.ElementFamily.P, cell, 2))
        V = ufl.FunctionSpace(m, e)
        u, v = ufl.TrialFunction(V), ufl.TestFunction(V)
        f = ufl.Coefficient(V)
        return [f * ufl.inner(ufl.grad(u), ufl.grad(v)) * ufl.dx + u * v * ufl.dx]

    def index_order(variant):
        def b():
            m = corpus.mesh("triangle")
            V = ufl.FunctionSpace(m, basix.ufl.element("P", "triangle", 2, shape=(2,)))
            u, v = ufl.TrialFunction(V), ufl.TestFunction(V)
            f = ufl.Coefficient(V)
            if variant == 0:
                i, j, k = ufl.indices(3)
            else:   # the same form, free indices created in the opposite order (UFL index counts differ)
                k, j, i = ufl.indices(3)
            return [(ufl.grad(u)[i, j] * f[j]) * (ufl.grad(v)[i, k] * f[k]) * ufl.dx]
        return b

    def coef_order(variant):
        def b():
            m = corpus.mesh("triangle")
            V = ufl.FunctionSpace(m, basix.ufl.element("P", "triangle", 1))
            Q = ufl.FunctionSpace(m, basix.ufl.element("P", "triangle", 2))
            if variant == 0:
                v = ufl.TestFunction(V)
                f, g = ufl.Coefficient(V), ufl.Coefficient(Q)
                c = ufl.Constant(m)
            else:   # same roles, but unrelated objects are created in between and the test function last
                f = ufl.Coefficient(V)
                _unused = [ufl.Coefficient(Q) for _ in range(3)], ufl.Constant(m)
                g = ufl.Coefficient(Q)
                c = ufl.Constant(m)
                v = ufl.TestFunction(V)
            return [c * f * g * v * ufl.dx + ufl.inner(ufl.grad(f), ufl.grad(g)) * v * ufl.ds]
        return b

    def mixed_dim_geometry():
        # codim-1 coupling (as test_jit_forms.test_mixed_dim_form) with one geometry quantity on BOTH cell types
        Vd = ufl.Mesh(basix.ufl.element("Lagrange", "triangle", 1, shape=(2,)))
        Wd = ufl.Mesh(basix.ufl.element("Lagrange", "interval", 1, shape=(2,)))
        V = ufl.FunctionSpace(Vd, basix.ufl.element("Lagrange", "triangle", 2))
        W = ufl.FunctionSpace(Wd, basix.ufl.element("Lagrange", "interval", 1))
        u, q = ufl.TrialFunction(V), ufl.TestFunction(W)
        f, g = ufl.Coefficient(V), ufl.Coefficient(W)
        ds = ufl.Measure("ds", domain=Vd)
        n = ufl.FacetNormal(Vd)
        return [ufl.CellVolume(Vd) * ufl.CellVolume(Wd) * ufl.inner(f * g * ufl.grad(u), n * q) * ds]

    def macro_iso():
        # macro (iso) element: the quadrature rule depends on the polyset type of the elements, not only on
        # (cell, degree, scheme) -- compiled after P1 forms of the same cell/degree in the `others-first` history
        m = corpus.mesh("triangle")
        V = ufl.FunctionSpace(m, basix.ufl.element("iso", "triangle", 1))
        u, v = ufl.TrialFunction(V), ufl.TestFunction(V)
        f = ufl.Coefficient(V)
        return [ufl.inner(u, v) * ufl.dx, f * v * ufl.dx + f("+") * v("-") * ufl.dS]

    _VARIANTS["c12_index_order"] = index_order(1)
    _VARIANTS["c12_coef_order"] = coef_order(1)
    return [
        corpus.Entry("c12_mixed3_coefs", mixed3, tags=("cell", "mixed")),
        corpus.Entry("c12_sumfact_hex", sumfact, tags=("cell", "sumfact"), options={"sum_factorization": True}),
        corpus.Entry("c12_mixed_dim_geometry", mixed_dim_geometry, tags=("facet", "mixed-dim")),
        corpus.Entry("c12_macro_iso", macro_iso, tags=("cell", "interior", "macro")),
        *[corpus.Entry(e.name.replace("c13_", "c12_"), e.build, kind="expression") for e in _multi_mesh_expressions()],
        corpus.Entry("c12_index_order", index_order(0), tags=("cell", "variant")),
        corpus.Entry("c12_coef_order", coef_order(0), tags=("cell", "facet", "variant")),
    ]


def _multi_mesh_expressions():
    from harness.props import c13
    return c13.local_entries()


_VARIANTS = {}   # entry name -> builder of an equal-signature variant (filled by _local_entries)


def _all_entries(gen_seed=0, gen_n=0):
    from harness import corpus
    es = corpus.fixed() + corpus.expressions() + _local_entries() + corpus.demos()
    if gen_n:
        es += corpus.generated(gen_seed, gen_n)
    for e in es:
        if e.name == "demo_ComplexPoisson":     # sesquilinear demo: only compiles in complex mode
            e.options = {**e.options, "scalar_type": "complex128"}
    return {e.name: e for e in es}


# --------------------------------------------------------------------------------------------
#                                             worker
# --------------------------------------------------------------------------------------------
def _unrelated_objects():
    """History prefix: create (and forget) unrelated UFL objects; nothing is compiled."""
    import basix.ufl
    import ufl
    from harness import corpus
    keep = []
    # nine meshes: the ids of the meshes created afterwards cross a power of ten (9 | 10)
    for cell, gdeg in (("triangle", 1), ("tetrahedron", 1), ("quadrilateral", 2), ("interval", 1), ("triangle", 2),
                       ("triangle", 1), ("hexahedron", 1), ("interval", 1), ("tetrahedron", 1)):
        m = corpus.mesh(cell, gdeg)
        V = ufl.FunctionSpace(m, basix.ufl.element("P", cell, 2))
        u, v = ufl.TrialFunction(V), ufl.TestFunction(V)
        f, g = ufl.Coefficient(V), ufl.Coefficient(V)
        c = ufl.Constant(m)
        k = ufl.Constant(m, shape=(2,))
        a = c * f * ufl.inner(ufl.grad(u), ufl.grad(v)) * ufl.dx + g * k[0] * u * v * ufl.ds
        i, j = ufl.indices(2)
        keep.append((a, a.signature(), ufl.grad(f)[i] * ufl.grad(g)[i]))
    return keep


def _apply_reverts():
    """Self-test only: put the pre-fix behaviour of the five repaired sites back, in THIS process (nothing in
    /repo is touched).  `dict.fromkeys` de-duplication -> set order; `sorted(cell_list)` -> set order;
    per-kernel domain number -> ufl_id()."""
    import builtins

    import ufl
    import ffcx.codegeneration.expression_generator as eg
    import ffcx.codegeneration.integral_generator as ig
    import ffcx.codegeneration.lnodes as L
    import ffcx.codegeneration.optimizer as opt
    import ffcx.codegeneration.symbols as sym
    import ffcx.ir.elementtables as et

    class _SetOrderDict(dict):
        @classmethod
        def fromkeys(cls, it, value=None):
            return dict.fromkeys(set(it), value)

    def _sorted(x, *a, **k):
        return list(x) if isinstance(x, (set, frozenset)) else builtins.sorted(x, *a, **k)

    opt.dict = ig.dict = et.dict = _SetOrderDict
    ig.sorted = eg.sorted = _sorted

    def J_component(self, mt):
        return L.Symbol(sym.format_mt_name(f"J{ufl.domain.extract_unique_domain(mt.expr).ufl_id()}", mt),
                        dtype=L.DataType.REAL)
    sym.FFCXBackendSymbols.J_component = J_component


def _text_of(code):
    return "\n/*=== file boundary ===*/\n".join(code)


def _compile(objs, opts):
    import ffcx.compiler
    import ffcx.options
    code, suffixes = ffcx.compiler.compile_ufl_objects(objs, options=ffcx.options.get_options(dict(opts)), namespace="x")
    return _text_of(code)


def worker(job):
    """Runs in a fresh interpreter. Builds the entry's objects and compiles them after a history prefix."""
    out = {"job": job, "results": []}
    outdir = Path(job["outdir"])
    # identical import order in every worker
    import ffcx.compiler  # noqa
    import ffcx.options  # noqa
    from harness import corpus  # noqa
    if job.get("revert"):
        _apply_reverts()
    entries = _all_entries(job.get("gen_seed", 0), job.get("gen_n", 0))
    e = entries[job["entry"]]
    hist = job["hist"]
    lang = job["lang"]
    opts = {"language": lang, **e.options, **job.get("options", {})}

    def emit(label, txt):
        sha = hashlib.sha256(txt.encode()).hexdigest()
        f = outdir / f"{sha}.txt"
        if not f.exists():
            tmp = outdir / f".{sha}.{os.getpid()}.tmp"
            tmp.write_text(txt)
            os.replace(tmp, f)
        out["results"].append({"label": label, "sha": sha, "lines": txt.count("\n") + 1})

    try:
        keep = None
        if hist == "unrelated":
            keep = _unrelated_objects()
        elif hist == "others-first":
            for nm in OTHER_FORMS_FIRST:
                if nm == job["entry"]:
                    continue
                o = entries[nm]
                _compile(o.build(), {"language": "C", **o.options})
        objs = _VARIANTS[job["entry"]]() if hist == "same-signature-variant" else e.build()
        if not objs:
            raise RuntimeError("entry builds no UFL objects (nothing to compile)")
        import ffcx.naming
        import ufl
        out["sig"] = ffcx.naming.compute_signature(objs, "")
        doms = []
        for o in objs:
            if isinstance(o, ufl.Form):
                for itg in o.integrals():
                    doms += [itg.ufl_domain(), *ufl.domain.extract_domains(itg.integrand())]
            else:
                doms += list(ufl.domain.extract_domains(o[0]))
        out["mesh_ids"] = sorted({d.ufl_id() for d in doms})
        if hist == "other-options-first":
            # the SAME objects, other options, first
            other_st = "complex64" if "complex" in str(e.options.get("scalar_type", "")) else "float32"
            first = {**e.options, "language": "numba" if lang == "C" else "C", "scalar_type": other_st}
            if e.options.get("sum_factorization"):
                first["sum_factorization"] = False
            _compile(objs, first)
            _compile(objs, {**e.options, "language": lang, "scalar_type": other_st})
        elif hist == "unrelated-after-build":
            keep = _unrelated_objects()
        emit(hist if hist != "fresh" else "fresh", _compile(objs, opts))
        if hist == "fresh":
            emit("twice", _compile(objs, opts))
        del keep
    except Exception as ex:  # noqa: BLE001 - a consistent failure is not a C12 matter; an inconsistent one is
        import traceback
        tb = traceback.extract_tb(ex.__traceback__)
        where = f"{Path(tb[-1].filename).name}:{tb[-1].name}" if tb else "?"
        out["error"] = f"{type(ex).__name__} at {where}: {str(ex)[:200]}"
    return out


# --------------------------------------------------------------------------------------------
#                                    difference classification
# --------------------------------------------------------------------------------------------
_IO = re.compile(r"^(\s*(?://|#) )(Inputs|Outputs): (.*?)\s*$")


def _norm_io(line, which):
    m = _IO.match(line)
    if m and m.group(2) == which:
        names = sorted(x.strip() for x in m.group(3).split(",") if x.strip())
        return f"{m.group(1)}{which}: {', '.join(names)}"
    return line


def _sym(a, b):
    """Multiset symmetric difference of lines (order-insensitive)."""
    ca, cb = Counter(a), Counter(b)
    return sum(((ca - cb) + (cb - ca)).values())


def _sort_io(line):
    return _norm_io(_norm_io(line, "Inputs"), "Outputs")


# renamings of generated identifiers; after each one the Inputs/Outputs comments are re-sorted, because a
# renamed symbol hashes differently and therefore also moves inside `list(set(...))` (a consequence, not a new kind)
_RENAMES = [
    ("J-symbol-ufl_id", lambda l: re.sub(r"\bJ\d+_", "J#_", l)),
    ("FE-table-numbering", lambda l: re.sub(r"\bFE\d+_", "FE#_", l)),
    ("temp-symbol-counter", lambda l: re.sub(r"\b(fw|temp_|sv_[0-9a-f]+_|sp_[0-9a-f]+_|sp_|sv_)\d+\b", r"\1#", l)),
    ("coefficient-symbol-numbering", lambda l: re.sub(r"\bw\d+(_|\b)", r"w#\1", l)),
    ("rule-id", lambda l: re.sub(r"(_Q|weights_|points_|sv_|sp_)[0-9a-f]{3,8}(?![0-9a-f])", r"\1###", l)),
    ("signature-hash-in-names", lambda l: re.sub(r"\b[0-9a-f]{40}\b", "<sha1>", l)),
]


def _skeleton(line):
    s = re.sub(r"[0-9a-f]{40}", "<sha1>", line.strip())
    s = re.sub(r"-?\d+\.\d+(e[-+]?\d+)?", "<f>", s)
    s = re.sub(r"\d+", "<n>", s)
    return s[:80]


def _where(lines, k):
    """Coarse location of line k: nearest preceding marker."""
    for i in range(min(k, len(lines) - 1), -1, -1):
        l = lines[i]
        if "Section:" in l:
            return "section " + l.split("Section:")[1].strip()
        if l.startswith("void tabulate_tensor") or l.startswith("def tabulate_tensor"):
            return "kernel body"
        if "form_integrals" in l or "ufcx_form" in l:
            return "form descriptor"
    return "file head"


def first_diff(a, b):
    for k, (x, y) in enumerate(zip(a, b)):
        if x != y:
            return k, x, y
    if len(a) != len(b):
        k = min(len(a), len(b))
        return k, (a[k] if k < len(a) else "<eof>"), (b[k] if k < len(b) else "<eof>")
    return None


_GEOM_DECL = re.compile(r"^\s*(static const \w+ |double |float )?\w+_(reference_cell_volume|reference_facet_volume|reference_normals"
                        r"|facet_edge_vertices|cell_facet_jacobian|cell_ridge_jacobian|reference_cell_edge_vectors"
                        r"|reference_facet_edge_vectors|facet_orientation|reference_facet_jacobian)\b[^=]*=")
_FE_DECL_START = re.compile(r"^\s*(static const \w+ FE[#\d]|FE[#\d]\w* = np\.array\()")


def _strip_fe_decls(lines):
    """Drop the (multi-line) element table declarations: they are emitted in sorted(name) order, so a
    renumbering legitimately moves them."""
    out, inside = [], False
    for l in lines:
        if not inside and _FE_DECL_START.match(l):
            inside = True
        if inside:
            if l.rstrip().endswith("};") or re.search(r"dtype=np\.\w+\)\s*$", l):
                inside = False
            continue
        out.append(l)
    return out


def _example(cur_a, cur_b, fn):
    """First pair of lines that `fn` reconciles: (1-based line in a, line a, line b)."""
    if len(cur_a) == len(cur_b):
        for code_only in (True, False):   # prefer a line of code over a comment as the example
            for k, (x, y) in enumerate(zip(cur_a, cur_b)):
                if x != y and fn(x) == fn(y) and not (code_only and _IO.match(x)):
                    return (k + 1, x, y)
    sa = Counter(cur_a) - Counter(cur_b)
    sb = Counter(cur_b) - Counter(cur_a)
    fb = defaultdict(list)
    for l in cur_b:
        if sb.get(l):
            fb[fn(l)].append(l)
    for k, x in enumerate(cur_a):
        if sa.get(x) and fb.get(fn(x)):
            return (k + 1, x, fb[fn(x)][0])
    x = next((l for l in cur_a if sa.get(l)), "")
    y = next((l for l in cur_b if sb.get(l)), "")
    return ((cur_a.index(x) + 1) if x in cur_a else 0, x, y)


def classify(ta, tb):
    """Kinds of difference between two texts: list of (kind, (lineno, line a, line b)) -- the example is the
    first line pair exhibiting that kind.  Every byte difference yields at least one kind."""
    a, b = ta.split("\n"), tb.split("\n")
    kinds = []
    if a == b:
        return kinds
    cur_a, cur_b = a, b
    d = _sym(cur_a, cur_b)
    steps = [("section-inputs-comment-order", lambda l: _norm_io(l, "Inputs")),
             ("section-outputs-comment-order", lambda l: _norm_io(l, "Outputs"))]
    steps += [(n, (lambda f: (lambda l: _sort_io(f(l))))(f)) for n, f in _RENAMES]
    for name, fn in steps:
        if d == 0:
            break
        na, nb = [fn(l) for l in cur_a], [fn(l) for l in cur_b]
        nd = _sym(na, nb)
        if nd < d:
            ex = _example(cur_a, cur_b, fn)
            secs = []
            if name.startswith("section-") and len(cur_a) == len(cur_b):
                secs = sorted({_where(cur_a, k) for k, (x, y) in enumerate(zip(cur_a, cur_b)) if x != y and fn(x) == fn(y)})
            kinds.append((name, ex + (secs,)))
            cur_a, cur_b, d = na, nb, nd
    if d > 0:
        fd = first_diff(cur_a, cur_b)
        k = fd[0]
        kinds.append((f"other[{_where(a, k)}|{_skeleton(a[k] if k < len(a) else '<eof>')}]", (k + 1, fd[1], fd[2], [])))
    else:
        ra, rb = cur_a, cur_b
        if any(n == "FE-table-numbering" for n, _ in kinds):
            ra, rb = _strip_fe_decls(ra), _strip_fe_decls(rb)
        if ra != rb:
            # same multiset of lines, different order
            fd = first_diff(ra, rb)
            k = fd[0]
            line = fd[1]
            if re.search(r"tabulate_tensor|ufcx_integral|\bintegral_", line):
                kinds.append(("kernel-order", (k + 1, fd[1], fd[2], [])))
            elif _GEOM_DECL.search(line):
                kinds.append(("geometry-table-order", (k + 1, fd[1], fd[2], [])))
            else:
                kinds.append((f"line-order[{_skeleton(line)}]", (k + 1, fd[1], fd[2], [])))
    return kinds


def exposure(txt):
    """How many order-sensitive fragments does this text contain (for the non-triviality measure)?"""
    multi_io = 0
    for l in txt.split("\n"):
        m = _IO.match(l)
        if m and m.group(3).count(",") >= 1:
            multi_io += 1
    fe = len(set(re.findall(r"\bFE(\d+)_", txt)))
    j = len(set(re.findall(r"\bJ(\d+)_", txt)))
    kern = len(re.findall(r"^(?:void|def) tabulate_tensor", txt, re.M))
    return {"multi_io_comments": multi_io, "fe_numbers": fe, "J_ids": j, "kernels": kern}


# --------------------------------------------------------------------------------------------
#                                             driver
# --------------------------------------------------------------------------------------------
def _run_job(job, seed, scratch, timeout=900):
    env = dict(os.environ)
    env["PYTHONHASHSEED"] = str(seed)
    env["PYTHONPATH"] = str(VERIF) + os.pathsep + env.get("PYTHONPATH", "")  # keep a shadow tree (seedcheck) first in the workers too
    env["PYTHONDONTWRITEBYTECODE"] = "1"
    env["XDG_CONFIG_HOME"] = str(scratch / "xdg")   # no user ffcx_options.json
    env["XDG_CACHE_HOME"] = str(scratch / "xdg")
    env["OMP_NUM_THREADS"] = env["OPENBLAS_NUM_THREADS"] = "1"
    t0 = time.time()
    res, err = None, ""
    for attempt in range(3):
        try:
            p = subprocess.run([PY, "-m", "harness.props.c12", "--worker", json.dumps(job)], cwd=str(scratch / "cwd"),
                               env=env, capture_output=True, text=True, timeout=timeout)
        except subprocess.TimeoutExpired:
            err = "timeout"
            continue
        for line in reversed(p.stdout.splitlines()):
            if line.startswith("C12RESULT "):
                res = json.loads(line[len("C12RESULT "):])
                break
        if res is not None:
            break
        # the interpreter died before the worker could report (import failure, OOM kill, ...): not an observation
        # about FFCx' determinism -> retry, and give up as an infrastructure error if it persists
        err = f"rc={p.returncode}: {p.stderr[-1200:]}"
        time.sleep(1.0 + attempt)
    if res is None:
        res = {"job": job, "results": [], "crash": err}
    res["seed"] = seed
    res["secs"] = time.time() - t0
    return res


def plan(tier, seed):
    """(entry names, jobs). A job = ({entry, lang, hist, ...}, PYTHONHASHSEED).

    quick:    QUICK_ENTRIES; C: fresh with seeds 0,1,2 and the histories unrelated / others-first /
              other-options-first with seed 0; numba: fresh with seeds 0,1 (+ 5 self-test jobs, see SELFTEST_JOBS).
    thorough: every corpus entry + 16 generated forms (VERIF_SEED); C: fresh with seeds 0..31 (demos 0..7), histories
              with seeds 0,1 (demos 0); numba: fresh 0..3 (demos 0,1), histories with seed 0 (not for demos).
    `twice` (compile the same objects a second time in the same process) rides on every fresh job.
    """
    jobs = []
    hists = ["unrelated", "others-first", "other-options-first", "unrelated-after-build"]
    if tier == "quick":
        names = list(QUICK_ENTRIES)
        gen = (0, 0)
        hists = hists[:3]

        def seeds(nm, lang, fresh):
            if lang == "C":
                return [0, 1, 2] if fresh else [0]
            return [0, 1] if fresh else []
    else:
        gen = (seed, 16)
        names = list(_all_entries(*gen).keys())

        def seeds(nm, lang, fresh):
            demo = nm.startswith("demo_")
            if lang == "C":
                return list(range(8 if demo else 32)) if fresh else ([0] if demo else [0, 1])
            return list(range(2 if demo else 4)) if fresh else ([] if demo else [0])
    for nm in names:
        for lang in ("C", "numba"):
            base = {"entry": nm, "lang": lang, "gen_seed": gen[0], "gen_n": gen[1]}
            for s in seeds(nm, lang, True):
                jobs.append(({**base, "hist": "fresh"}, s))
            for h in hists + (["same-signature-variant"] if nm in VARIANT_ENTRIES else []):
                for s in seeds(nm, lang, False):
                    jobs.append(({**base, "hist": h}, s))
    return names, jobs


def _tree_digest():
    """SHA-256 over the sources the workers import (the tree must not change while the differential runs)."""
    from harness.framework import REPO
    h = hashlib.sha256()
    for f in sorted((REPO / "ffcx").rglob("*.py")):
        h.update(str(f).encode())
        h.update(f.read_bytes())
    return h.hexdigest()


def differential(chk, tier, seed, only=None):
    scratch = Path(tempfile.mkdtemp(prefix=SCRATCH_PREFIX))
    tree0 = _tree_digest()
    try:
        (scratch / "cwd").mkdir()
        (scratch / "xdg").mkdir()
        (scratch / "out").mkdir()
        names, jobs = plan(tier, seed)
        if only:
            jobs = [(j, s) for j, s in jobs if j["entry"] in only]
            names = [n for n in names if n in only]
        st_jobs = [] if only else [({"entry": e_, "lang": l_, "hist": h_, "revert": True}, s_) for e_, l_, h_, s_ in SELFTEST_JOBS]
        jobs = jobs + st_jobs
        for j, _ in jobs:
            j["outdir"] = str(scratch / "out")
        # longest first (demos / mixed) so the pool drains evenly
        t0 = time.time()
        with ThreadPoolExecutor(max_workers=int(os.environ.get("VERIF_JOBS", "16"))) as ex:
            results = list(ex.map(lambda js: _run_job(js[0], js[1], scratch), jobs))
        chk.notes["differential_wall_s"] = round(time.time() - t0, 1)
        chk.notes["subprocesses"] = len(jobs)
        if _tree_digest() != tree0:
            raise RuntimeError("the working tree of /repo/ffcx changed while the subprocess differential was running: "
                               "runs before and after the change are not comparable (infrastructure, rerun the check)")
        crashed = [r for r in results if r.get("crash")]
        if crashed:
            raise RuntimeError(f"{len(crashed)} worker process(es) died before reporting, after 3 attempts "
                               f"(infrastructure, not a C12 observation); first: {crashed[0]['job']} seed {crashed[0]['seed']}: "
                               f"{crashed[0]['crash'][-800:]}")
        _selftest(chk, [r for r in results if r["job"].get("revert")], scratch / "out")
        _compare(chk, names, [r for r in results if not r["job"].get("revert")], scratch / "out")
    finally:
        shutil.rmtree(scratch, ignore_errors=True)


def _selftest(chk, results, outdir):
    """The five regression detectors must fire on the reverted code (otherwise a regression would go unseen)."""
    if not results:
        return
    by = {}
    for r in results:
        j = r["job"]
        for x in r["results"]:
            if x["label"] != "twice":
                by[(j["entry"], j["lang"], r["seed"], x["label"])] = x["sha"]
    seen = set()
    for (entry, lang, s, label), sha in sorted(by.items()):
        if (s, label) == (0, "fresh"):
            continue
        base = by.get((entry, lang, 0, "fresh")) if label == "fresh" else by.get((entry, lang, s, "fresh"))
        if base is None or base == sha:
            continue
        dim = "hashseed" if label == "fresh" else "history"
        for kind, _ex in classify((outdir / f"{base}.txt").read_text(), (outdir / f"{sha}.txt").read_text()):
            seen.add(f"{dim}:{kind}")
    chk.case(kind="selftest-reverted-fixes", key="|".join(sorted(seen)), n=len(results))
    chk.notes["selftest_detected_on_reverted_code"] = sorted(seen)
    missing = [k for k in ARMED_KEYS if k not in seen]
    if missing or set(seen) - set(ARMED_KEYS):
        chk.disagree("regression detectors on the worker with the F9 fixes reverted (monkeypatch)",
                     {"expected": ARMED_KEYS, "detected": sorted(seen), "not_detected": missing,
                      "errors": [r.get("error") for r in results if r.get("error")]})


def _compare(chk, names, results, outdir):
    texts = {}

    def text(sha):
        if sha not in texts:
            texts[sha] = (outdir / f"{sha}.txt").read_text()
        return texts[sha]

    # runs[(entry, lang)][(seed, label)] = sha | ("error", msg)
    runs = defaultdict(dict)
    sigs = defaultdict(dict)
    meshids = {}
    for r in results:
        j = r["job"]
        k = (j["entry"], j["lang"])
        if r.get("sig"):
            sigs[k][(r["seed"], j["hist"])] = r["sig"]
            meshids[(k, r["seed"], j["hist"])] = r.get("mesh_ids", [])
        if r.get("error") and not r["results"]:
            runs[k][(r["seed"], j["hist"])] = ("error", r["error"])
        for x in r["results"]:
            runs[k][(r["seed"], x["label"])] = x["sha"]
        if r.get("error") and r["results"]:
            runs[k][(r["seed"], "twice")] = ("error", r["error"])
    found = {}        # key -> payload of first occurrence + list of entries
    skipped = {}
    # corpus entries first, so that the example recorded for a kind of difference is a plain corpus form
    for (entry, lang), rr in sorted(runs.items(), key=lambda kv: (kv[0][0].startswith(("c12_", "demo_", "gen_")), kv[0])):
        ref_key = (0, "fresh")
        ref = rr.get(ref_key)
        vals = list(rr.values())
        if all(isinstance(v, tuple) for v in vals):
            # the entry cannot be compiled with these options at all: consistently -> not a C12 matter
            msgs = sorted({re.sub(r"0x[0-9a-f]+", "0x?", v[1]) for v in vals})
            skipped[f"{entry}/{lang}"] = msgs[0][:160]
            chk.case(kind="skipped-uncompilable", n=len(vals))
            continue
        # premise of the property: the objects of all runs have the same signature
        sg = sigs.get((entry, lang), {})
        if len(set(sg.values())) > 1:
            ref_sig = sg.get(ref_key)
            bad = sorted(f"seed{s_}/{h_}" for (s_, h_), v_ in sg.items() if v_ != ref_sig)
            if all(h_ == "same-signature-variant" for (s_, h_), v_ in sg.items() if v_ != ref_sig):
                chk.notes.setdefault("variants_not_same_signature", []).append(entry)
                for k_ in [k_ for k_ in rr if k_[1] == "same-signature-variant"]:
                    del rr[k_]
            else:
                chk.violation(key="premise:ufl-signature-not-reproducible",
                              what=f"ffcx.naming.compute_signature of {entry} differs between runs: {bad[:6]}",
                              payload={"entry": entry, "lang": lang, "runs": bad})
        expo = exposure(text(ref)) if isinstance(ref, str) else {}
        # model <-> code: the J symbols in the text are numbered 0..n-1 per kernel (n <= number of meshes)
        if isinstance(ref, str) and (((entry, lang), 0, "fresh") in meshids):
            jids = sorted({int(x) for x in re.findall(r"\bJ(\d+)_", text(ref))})
            nmesh = len(meshids[((entry, lang), 0, "fresh")])
            chk.case(kind="correspondence-J-symbol-in-text", key=f"{entry}/{lang}" if jids else None)
            if jids != list(range(len(jids))) or len(jids) > nmesh:
                chk.disagree("J<n> symbols in the text are numbered 0..n-1 with n <= number of meshes of the objects",
                             {"entry": entry, "model": f"0..{nmesh - 1}", "impl": jids})
        nontrivial = bool(expo) and (expo["multi_io_comments"] > 0 or expo["fe_numbers"] > 1 or expo["J_ids"] > 0)
        for (s, label), v in sorted(rr.items()):
            if (s, label) == ref_key:
                chk.case(kind="reference", key=f"{entry}/{lang}" if nontrivial else None,
                         sample={"entry": entry, "lang": lang, "sha": ref, **expo})
                continue
            # what to compare with: same seed & fresh for histories; seed 0 & fresh for seeds
            if label == "fresh":
                dim, base_key = "hashseed", ref_key
            else:
                dim = {"twice": "repeat", "same-signature-variant": "construction"}.get(label, "history")
                base_key = (s, "fresh")
                if base_key not in rr:
                    base_key = ref_key
            base = rr.get(base_key)
            chk.case(kind=f"compare-{dim}", key=f"{entry}/{lang}/{label}/seed{s}" if nontrivial else None)
            if base == v:
                continue
            if isinstance(base, tuple) or isinstance(v, tuple):
                kinds = [("error-vs-success", (0, str(base)[:200], str(v)[:200], []))]
            else:
                kinds = classify(text(base), text(v))
            for kind, (ln, la, lb, secs) in kinds:
                key = f"{dim}:{kind}"
                occ = {"entry": entry, "lang": lang, "base": {"PYTHONHASHSEED": base_key[0], "history": base_key[1]},
                       "other": {"PYTHONHASHSEED": s, "history": label}, "line": ln, "base_line": la[:400], "other_line": lb[:400]}
                if key not in found:
                    found[key] = {"first": occ, "entries": set(), "count": 0, "histories": set(), "sections": set()}
                found[key]["sections"].update(secs)
                found[key]["entries"].add(f"{entry}/{lang}")
                found[key]["histories"].add(label)
                found[key]["count"] += 1
    chk.programs = len(runs) - len(skipped)
    chk.notes["skipped_uncompilable"] = skipped
    chk.notes["difference_kinds"] = {k: {"count": v["count"], "entries": sorted(v["entries"]), "sections": sorted(v["sections"])}
                                     for k, v in sorted(found.items())}
    for key, v in sorted(found.items()):
        f = v["first"]
        what = (f"generated text differs ({key}): {f['entry']} [{f['lang']}] "
                f"seed {f['base']['PYTHONHASHSEED']}/{f['base']['history']} vs seed {f['other']['PYTHONHASHSEED']}/{f['other']['history']}, "
                f"line {f['line']}: {f['base_line'][:90]!r} vs {f['other_line'][:90]!r}")
        chk.violation(key=key, what=what, payload={
            "key": key, "first": f, "affected": sorted(v["entries"]), "histories": sorted(v["histories"]), "occurrences": v["count"],
            "sections": sorted(v["sections"]),
            "replay": (f"cd /verif && PYTHONPATH=/verif PYTHONHASHSEED=<seed> {PY} -m harness.props.c12 --show "
                       f"{f['entry']} {f['lang']} <history>   # prints the sha256 and writes the text to stdout with --text"),
        })


# --------------------------------------------------------------------------------------------
#                       correspondence: Lean model of the sites  <->  real functions
# --------------------------------------------------------------------------------------------
def _lean_list(xs):
    return "[" + ", ".join(str(x) for x in xs) + "]"


def _lean_strs(xs):
    return "[" + ", ".join('"' + x + '"' for x in xs) + "]"


def correspondence(chk):
    """Evaluate the model definitions (FfcxModel/Determinism/Sites.lean) with `#eval` on seeded inputs and
    compare with the real ufl/ffcx functions they transcribe."""
    import random

    import ufl
    import ufl.algorithms
    import ffcx.codegeneration.lnodes as L
    from ffcx.codegeneration.C.formatter import Formatter
    from ffcx.codegeneration.integral_generator import IntegralGenerator
    from ffcx.codegeneration.optimizer import fuse_sections
    from harness import lean as leanmod

    rng = random.Random(1000 + chk.seed)
    ncase = 40 if chk.tier == "quick" else 200
    lines = ["import FfcxModel.Determinism.Sites", "open Ffcx.Determinism"]
    expect = []   # (what, input, impl value as string)

    class E:
        def __init__(self, n):
            self.n, self.sub_elements = n, []

        def __repr__(self):
            return str(self.n)

    # (1) sort_elements on random element DAGs (closed under sub-elements), random set orders
    for _ in range(ncase):
        n = rng.randrange(1, 8)
        es = [E(i) for i in range(n)]
        for i in range(n):      # element i may contain some elements with smaller number
            if i and rng.random() < 0.55:
                k = rng.randrange(1, min(i, 3) + 1)
                es[i].sub_elements = [es[j] for j in rng.sample(range(i), k)]
                if rng.random() < 0.2:   # blocked/vector element: the same sub-element repeated
                    es[i].sub_elements = es[i].sub_elements + [es[i].sub_elements[0]]
        order = list(range(n))
        rng.shuffle(order)
        impl = [e.n for e in ufl.algorithms.sort_elements([es[i] for i in order])]
        subs = "fun e => match e with " + " ".join(
            f"| {e.n} => {_lean_list([x.n for x in e.sub_elements])}" for e in es if e.sub_elements) + " | _ => []"
        lines.append(f"#eval IO.println (toString (sortElements ({subs}) {_lean_list(order)}))")
        expect.append(("sort_elements", {"subs": {e.n: [x.n for x in e.sub_elements] for e in es}, "order": order},
                       "[" + ", ".join(map(str, impl)) + "]"))
    # (1b) build_optimized_tables' numbering pipeline: sort_elements(list(dict.fromkeys(extract_sub_elements(all))))
    import ufl.algorithms.analysis as ufl_analysis
    for _ in range(ncase // 2):
        n = rng.randrange(2, 8)
        es = [E(i) for i in range(n)]
        for i in range(n):
            if i and rng.random() < 0.5:
                es[i].sub_elements = [es[j] for j in rng.sample(range(i), rng.randrange(1, min(i, 3) + 1))]
        allel = [es[rng.randrange(n)] for _ in range(rng.randrange(1, 7))]      # elements of the modified terminals
        elems = list(ufl_analysis.extract_sub_elements(allel))
        impl = [e.n for e in ufl.algorithms.sort_elements(list(dict.fromkeys(elems)))]
        subs = "fun e => match e with " + " ".join(
            f"| {e.n} => {_lean_list([x.n for x in e.sub_elements])}" for e in es if e.sub_elements) + " | _ => []"
        lines.append(f"#eval IO.println (toString (sortElements ({subs}) (dedupFirst {_lean_list([e.n for e in elems])})))")
        expect.append(("table-numbering-pipeline", {"subs": {e.n: [x.n for x in e.sub_elements] for e in es},
                                                    "elems": [e.n for e in elems]},
                       "[" + ", ".join(map(str, impl)) + "]"))
    # (2) Section.__init__ output completion + the C formatter's Inputs/Outputs comments
    fmt = Formatter("float64")
    pool = ["w0", "w1_c0", "FE0_C0_Q39d", "FE3_C1_D01_Q39d", "J0_c0", "J0_c1", "fw0", "fw1", "coordinate_dofs", "x_c0", "A"]
    for _ in range(ncase // 2):
        out = rng.sample(pool, rng.randrange(0, 5))
        inp = rng.sample(pool, rng.randrange(0, 5))
        decls = [rng.choice(pool) for _ in range(rng.randrange(0, 5))]
        sec = L.Section("S", [], [L.VariableDecl(L.Symbol(d, L.DataType.SCALAR), 0) for d in decls],
                        [L.Symbol(x, L.DataType.SCALAR) for x in inp], [L.Symbol(x, L.DataType.SCALAR) for x in out])
        txt = fmt(sec).split("\n")
        impl_in = next(l for l in txt if l.startswith("// Inputs:")).rstrip()
        impl_out = next(l for l in txt if l.startswith("// Outputs:")).rstrip()
        lines.append(f"#eval IO.println (inputsComment {_lean_strs(inp)})")
        expect.append(("inputs-comment", {"input": inp}, impl_in))
        lines.append(f"#eval IO.println (outputsComment (sectionOutput {_lean_strs(out)} {_lean_strs(decls)}))")
        expect.append(("outputs-comment", {"output": out, "decls": decls}, impl_out))
    # (3) fuse_sections: the comments of the fused section are the model's function of the concatenated lists
    for _ in range(ncase // 2):
        secs = []
        allin, allout, alldecl = [], [], []
        for _k in range(rng.randrange(1, 4)):
            inp = [rng.choice(pool) for _ in range(rng.randrange(0, 4))]
            out = [rng.choice(pool) for _ in range(rng.randrange(0, 3))]
            dcl = [rng.choice(pool) for _ in range(rng.randrange(0, 2))]
            sec = L.Section("Coefficient", [], [L.VariableDecl(L.Symbol(d, L.DataType.SCALAR), 0) for d in dcl],
                            [L.Symbol(x, L.DataType.SCALAR) for x in inp], [L.Symbol(x, L.DataType.SCALAR) for x in out])
            allin += [x.name for x in sec.input]
            allout += [x.name for x in sec.output]      # Section.__init__ already appended its declared symbols
            alldecl += dcl
            secs.append(sec)
        fused = fuse_sections(list(secs), "Coefficient")[0]
        txt = fmt(fused).split("\n")
        lines.append(f"#eval IO.println (site_fuse_inputs {_lean_strs(allin)})")
        expect.append(("fuse_sections-inputs", {"inputs": allin}, next(l for l in txt if l.startswith("// Inputs:")).rstrip()))
        lines.append(f"#eval IO.println (site_fuse_outputs {_lean_strs(alldecl)} {_lean_strs(allout)})")
        expect.append(("fuse_sections-outputs", {"outputs": allout, "decls": alldecl},
                       next(l for l in txt if l.startswith("// Outputs:")).rstrip()))
    # (3b) sorted(cell names) -> geometry table names
    cells = ["interval", "triangle", "quadrilateral", "tetrahedron", "hexahedron", "prism", "pyramid", "point"]
    for _ in range(ncase // 4):
        it = rng.sample(cells, rng.randrange(1, 5))
        lines.append(f'#eval IO.println (toString (site_geometry_tables "reference_cell_volume" {_lean_strs(it)}))')
        expect.append(("geometry-tables", {"cells": it},
                       "[" + ", ".join(f"{c}_reference_cell_volume" for c in sorted(set(it))) + "]"))
    # (4) temp symbol counters of a fresh generator instance
    class _IR:
        class expression:
            integrand = {}
    for _ in range(ncase // 4):
        reqs = [rng.choice(["fw", "temp_", "sv"]) for _ in range(rng.randrange(1, 8))]
        g = IntegralGenerator(_IR, None)
        impl = [g.new_temp_symbol(b).name for b in reqs]
        lines.append(f"#eval IO.println (toString (genTemps GenState.fresh {_lean_strs(reqs)}))")
        expect.append(("temp-symbols", {"requests": reqs}, "[" + ", ".join(impl) + "]"))
    # (5) J symbol: the real FFCXBackendSymbols.J_component on meshes with arbitrary ufl_id()s, in arbitrary call order
    import types

    import basix.ufl
    from ffcx.codegeneration.symbols import FFCXBackendSymbols
    for _ in range(max(4, ncase // 8)):
        nm = rng.randrange(1, 4)
        meshes = [ufl.Mesh(basix.ufl.element("P", "triangle", 1, shape=(2,))) for _ in range(nm)]
        _skip = [ufl.Mesh(basix.ufl.element("P", "interval", 1, shape=(1,))) for _ in range(rng.randrange(0, 3))]
        sy = FFCXBackendSymbols({}, {}, {})
        uses = []
        for _c in range(rng.randrange(1, 6)):
            m = rng.choice(meshes)
            r = rng.choice([None, "+", "-"])
            comp = rng.randrange(0, 4)
            mt = types.SimpleNamespace(expr=ufl.Jacobian(m), terminal=ufl.Jacobian(m), averaged=None, restriction=r,
                                       global_derivatives=(), local_derivatives=(), component=(comp // 2, comp % 2),
                                       flat_component=comp)
            impl = sy.J_component(mt).name
            uses.append(m.ufl_id())
            rs = {None: "none", "+": "(some false)", "-": "(some true)"}[r]
            lines.append(f"#eval IO.println (site_jacobian_symbol {rs} {comp} {_lean_list(uses)} {m.ufl_id()})")
            expect.append(("J-symbol", {"uses": list(uses), "domain": m.ufl_id(), "restriction": r, "component": comp}, impl))

    src = leanmod.LEAN / f".c12_corr_{os.getpid()}.lean"
    src.write_text("\n".join(lines) + "\n")
    try:
        ok, log, _ = leanmod.build(["FfcxModel.Determinism.Sites"])
        rc, out = leanmod.lake("env", "lean", str(src), timeout=600)
    finally:
        src.unlink(missing_ok=True)
    got = [l.rstrip() for l in out.splitlines() if l.strip() and not l.startswith("warning")]
    if rc != 0 or len(got) != len(expect):
        chk.disagree("model evaluation failed", {"rc": rc, "lines": len(got), "expected": len(expect), "log": out[-1500:]})
        return
    for (what, inp, impl), model in zip(expect, got):
        nontriv = None
        if what == "sort_elements" and len(inp["order"]) > 2 and any(inp["subs"].values()):
            nontriv = json.dumps(inp, sort_keys=True)
        elif what != "sort_elements":
            nontriv = json.dumps(inp, sort_keys=True)
        chk.case(kind="correspondence-" + what, key=nontriv, sample={"what": what, "input": inp, "value": impl} if what == "sort_elements" else None)
        if model != impl:
            chk.disagree(f"model {what} vs real code", {"input": inp, "model": model, "impl": impl})


# --------------------------------------------------------------------------------------------
#                                  assumptions of the model, checked
# --------------------------------------------------------------------------------------------
def check_model_assumptions(chk):
    """The Lean model treats some sets as canonical because of what their elements hash to.  Check that on
    the real objects (a `disagree` here means the model's classification no longer mirrors the code)."""
    import basix
    import ffcx.codegeneration.lnodes as L
    # (1) basix.CellType hashes are small distinct ints independent of the hash seed -> set order is a
    #     function of the elements inserted (sites integral_domains / generate_code domain set)
    hs = {c.name: hash(c) for c in basix.CellType.__members__.values()} if hasattr(basix.CellType, "__members__") else {}
    ok = bool(hs) and all(isinstance(h, int) and 0 <= h < 64 for h in hs.values()) and len(set(hs.values())) == len(hs)
    chk.case(kind="assumption", key="celltype-hash-int", sample={"celltype_hashes": hs})
    if not ok:
        chk.disagree("basix.CellType hash is a small int (model: integral_domains order is seed independent)", {"impl": hs})
    # and the two cell types that do occur together (prism facets) iterate in the same order whatever the insertion order
    tq = [basix.CellType.triangle, basix.CellType.quadrilateral]
    o1, o2 = [c.name for c in set(tq)], [c.name for c in set(tq[::-1])]
    chk.case(kind="assumption", key="celltype-set-order")
    if o1 != o2:
        chk.disagree("set order of {triangle, quadrilateral} depends on insertion order", {"impl": [o1, o2]})
    # (2) L.Symbol hashes by NAME (a str: seed dependent) -- the leaking sites rest on this
    a, b = L.Symbol("abc", L.DataType.REAL), L.Symbol("abc", L.DataType.REAL)
    chk.case(kind="assumption", key="symbol-hash-by-name")
    if hash(a) != hash("abc") or not (a == b):
        chk.disagree("L.Symbol hashes/equates by name", {"impl": [hash(a) == hash("abc"), a == b]})
    # (3) small-int sets iterate ascending (model of `_argkeys`: CPython detail)
    import random
    rng = random.Random(chk.seed)
    bad = None
    for _ in range(300):
        xs = [rng.randrange(0, 8) for _ in range(rng.randrange(1, 7))]
        s = set()
        for x in xs:
            s = s | {x}
        if list(s) != sorted(set(xs)):
            bad = xs
            break
    chk.case(kind="assumption", key="small-int-set-ascending", n=300)
    if bad is not None:
        chk.disagree("set of small ints iterates ascending (model of _argkeys)", {"input": bad, "impl": list(set(bad))})
    # (4) a fresh generator instance starts its counters at 0 and owns its dicts (counters_fresh)
    from ffcx.codegeneration.expression_generator import ExpressionGenerator  # noqa: F401
    from ffcx.codegeneration.integral_generator import IntegralGenerator

    class _IR:
        class expression:
            integrand = {}
    g1, g2 = IntegralGenerator(_IR, None), IntegralGenerator(_IR, None)
    g1.new_temp_symbol("fw")
    s2 = g2.new_temp_symbol("fw")
    chk.case(kind="assumption", key="generator-counters-per-instance")
    if s2.name != "fw0" or g1.symbol_counters is g2.symbol_counters or g1.temp_symbols is g2.temp_symbols:
        chk.disagree("IntegralGenerator counters are per instance and start at 0", {"impl": s2.name})


# --------------------------------------------------------------------------------------------
def run(chk):
    from harness import extract_sites
    chk.rule = ("case = one subprocess compile compared byte-for-byte with its reference (same entry & language; "
                "hash seeds against seed 0, histories against the fresh run of the same seed); non-trivial iff the "
                "reference text exposes an order/identity-sensitive fragment: a Section Inputs/Outputs comment with "
                ">= 2 names, >= 2 distinct FE<n> table numbers, or a J<ufl_id> symbol")
    chk.trusted += [
        "harness/extract_sites.py: the syntactic, intra-procedural AST scanner that produces Generated/Sites.lean "
        "(a set that escapes into another function is followed by hand in Determinism/Sites.lean)",
        "the difference classifier of harness/props/c12.py (only names the kind of a difference; every byte difference is reported)",
        "PYTHONHASHSEED covers str/bytes hashing only; address-based hashes (id) are exercised by the repeat/twice runs, not enumerated",
    ]
    chk.assumptions += [
        "UFL and Basix are taken as given: Form.signature() renumbering, ufl_id counters, sort_elements' topological sort "
        "(ties keep the input order) and basix element/CellType hashes are modelled from their source, not verified",
        "CPython detail used by the model and checked at run time: sets of small ints (CellType values, argument indices) "
        "iterate in an order that depends only on the elements",
    ]
    # (a) translator + obligations
    sites, changed = extract_sites.regenerate()
    chk.notes["sites"] = len(sites)
    chk.notes["sites_regenerated"] = changed
    chk.notes["site_tags"] = dict(Counter(s["tag"] for s in sites))
    chk.notes["exhaustive_part"] = "the site inventory theorem is a decide over the complete scanned table; seeds and histories are sampled"
    chk.lean("FfcxProofs.C12", THEOREMS, extra_files=[
        VERIF / "lean/FfcxProofs/Lemmas/Sites.lean", VERIF / "lean/FfcxModel/Determinism/Sites.lean",
        VERIF / "lean/FfcxModel/Generated/Sites.lean"])
    # model assumptions on the real objects, model <-> real functions
    check_model_assumptions(chk)
    correspondence(chk)
    # (b) the search
    differential(chk, chk.tier, chk.seed)
    if chk.tier == "thorough":
        chk.leanchecker(["FfcxProofs.C12"])


def replay(chk, payload):
    """./check C12 --replay file: re-run the differential on the entries named by the recorded violations."""
    only = set()
    for v in payload.get("violations", []):
        p = v.get("payload") or {}
        for a in p.get("affected", [])[:6]:
            only.add(a.split("/")[0])
    chk.seed = int(payload.get("seed", 0))
    from harness import extract_sites
    extract_sites.regenerate()
    chk.lean("FfcxProofs.C12", THEOREMS)
    differential(chk, "quick" if not only else payload.get("tier", "quick"), chk.seed, only=only or None)


def _show(argv):
    """python -m harness.props.c12 --show ENTRY LANG HIST [--text]  (uses the caller's PYTHONHASHSEED)."""
    d = Path(tempfile.mkdtemp(prefix=SCRATCH_PREFIX))
    try:
        r = worker({"entry": argv[0], "lang": argv[1], "hist": argv[2] if len(argv) > 2 else "fresh", "outdir": str(d)})
        for x in r["results"]:
            print(x["label"], x["sha"], file=sys.stderr)
            if "--text" in argv:
                sys.stdout.write((d / f"{x['sha']}.txt").read_text())
        if r.get("error"):
            print("error:", r["error"], file=sys.stderr)
    finally:
        shutil.rmtree(d, ignore_errors=True)


if __name__ == "__main__":
    if len(sys.argv) >= 3 and sys.argv[1] == "--worker":
        res = worker(json.loads(sys.argv[2]))
        sys.stdout.write("\nC12RESULT " + json.dumps(res) + "\n")
    elif len(sys.argv) >= 4 and sys.argv[1] == "--show":
        _show(sys.argv[2:])
