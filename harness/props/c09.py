"""C09 — all four scalar types compute the same form; complex mode is sesquilinear."""
import numpy as np

import ffcx.codegeneration.C.formatter as cfmt
import ffcx.codegeneration.lnodes as L

from .. import cjit, corpus, kernels, lean, numeric

TYPES = ["float64", "float32", "complex128", "complex64"]


def math_table_check(chk):
    """Every math-function handler name the AST can carry has, for each scalar type, either a table entry
    or a bare name that is a C function of a suitable type (complete finite table, recomputed from source)."""
    names = set()
    import ufl
    for cls, fn in L._ufl_call_lookup.items():
        if fn is L._math_function and cls is not ufl.mathfunctions.MathFunction:  # abstract base
            names.add(cls._ufl_handler_name_)
    c99_real = {"sqrt", "fabs", "cos", "sin", "tan", "acos", "asin", "atan", "cosh", "sinh", "tanh", "acosh", "asinh",
                "atanh", "pow", "exp", "log", "erf", "atan2", "fmin", "fmax", "yn", "jn"}
    real_only = {"erf", "atan2", "atan_2", "min_value", "max_value", "bessel_y", "bessel_j", "bessel_i", "bessel_k"}
    table = cfmt.math_table
    rows = []
    for n in sorted(names):
        row = {"name": n}
        for t in ("float64", "float32", "complex128", "complex64"):
            row[t] = table[t].get(n, n)
        rows.append(row)
        chk.case("math_table", n)
        for t in ("float64", "float32"):
            fn = row[t]
            base = fn[:-1] if (t == "float32" and fn.endswith("f") and fn[:-1] in c99_real) else fn
            if n in ("conj", "real", "imag"):
                continue  # folded away on REAL operands by lnodes._math_function
            if base not in c99_real and n not in ("bessel_i", "bessel_k"):
                chk.violation(f"c09:mathtable:{n}:{t}", f"math function `{n}` is emitted as `{fn}` for {t}: not a C99 real function",
                              {"name": n, "type": t, "emitted": fn})
    chk.notes["math_table_rows"] = rows[:40]


def run(chk):
    chk.rule = ("each selected corpus form is compiled for float64/float32/complex128/complex64; on real data all four kernels are compared "
                "with the float64 oracle (tolerance of the narrower type), on complex data the complex kernels are compared with the oracle "
                "evaluated in complex arithmetic after UFL's complex-mode lowering (test function conjugated); distinct = form × scalar type.")
    chk.trusted += ["precision agreement is floating point: differential only", "harness/oracle.py complex mode"]
    chk.lean("FfcxProofs.C09", ["Ffcx.LNodes.mathfn_fold_sound", "Ffcx.LNodes.mergeDtypes_comm", "Ffcx.LNodes.mergeDtypes_scalar_absorbs",
                                "Ffcx.LNodes.mergeDtypes_real", "Ffcx.LNodes.real_literal_real", "Ffcx.LNodes.ratExtraC_real"])
    math_table_check(chk)
    # dtype discipline: no complex value flows into a double temporary or a real math function (certificate per kernel,
    # dtype_sound: truncating semantics = exact semantics), complete math-table signature scan, complex-argument probes
    from .. import dtype_checks
    chk.lean(dtype_checks.DTYPE_MODULE, dtype_checks.DTYPE_THEOREMS, extra_files=dtype_checks.DTYPE_FILES)
    with lean.Driver("driver") as d:
        dtype_checks.check_math_table(chk, d)
        dents = corpus.fixed() + corpus.expressions() + corpus.complex_forms()
        if chk.tier == "thorough":
            dents += corpus.generated(chk.seed, 30)
        dtype_checks.check_dtype_certificates(chk, d, dents, ("complex128", "float64") + (("complex64",) if chk.tier == "thorough" else ()))
        dtype_checks.check_dtype_probes(chk, d)
    names = ["mass_tri_p1", "laplace_coef_tri_p2", "rhs_tri_p2", "ext_facet_tri", "int_facet_tri", "math_tri", "conditional_tri",
             "tensor_constant", "nonaffine_quad", "expr_rank1", "expr_grad_tri"]
    ents = [e for e in corpus.fixed() + corpus.expressions() if e.name in names] + corpus.complex_forms()
    if chk.tier == "thorough":
        ents = corpus.fixed() + corpus.expressions() + corpus.complex_forms() + corpus.generated(chk.seed, 30)
    jobs = [(i, t, cd) for i in range(len(ents)) for t in TYPES for cd in ((False, True) if t.startswith("complex") else (False,))]

    def work(job):
        i, t, cd = job
        e = ents[i]
        if "complex" in e.tags and not t.startswith("complex"):
            return {"name": e.name, "skip": True}
        return numeric.compare_entry(e, {"scalar_type": t}, seed=chk.seed * 101 + i, reps=1, complex_data=cd)
    res = cjit.parallel_map(work, jobs)
    for job, (st, r) in sorted(res.items()):
        i, t, cd = job
        e = ents[i]
        if st != "ok":
            chk.notes.setdefault("errors", []).append(f"{e.name}/{t}: {st}: {str(r)[:200]}")
            continue
        if r.get("skip"):
            continue
        if "error" in r:
            chk.notes.setdefault("build_errors", []).append(f"{e.name}/{t}: {r['error'][:120]}")
            if "ArityMismatch" in r["error"] and t.startswith("complex"):
                chk.case("not_valid_in_complex_mode", None)   # UFL rejects forms without a conjugated test function
            elif "not supported for complex arguments" in r["error"] and t.startswith("complex"):
                # erf / atan2 / Bessel / fmin / fmax have no complex version: rejected before any C is emitted (fix c5f832c)
                chk.case("rejected_in_complex_mode", f"{e.name}:{t}")
            elif "real_only" not in r["error"]:
                chk.disagree("form compiles for float64 but not for another scalar type", {"entry": e.name, "type": t, "error": r["error"][:300]})
            continue
        chk.programs += r["cases"]
        chk.case("type_compare", f"{e.name}:{t}:{'c' if cd else 'r'}" if r["compared"] else None, n=max(1, r["compared"]),
                 sample={"entry": e.name, "scalar_type": t, "complex_data": cd, "max_rel_err": r["maxrel"]} if len(chk.samples) < 8 else None)
        for u in r["unsupported"][:2]:
            chk.notes.setdefault("oracle_unsupported", []).append(u)
        for b in r["bad"]:
            chk.violation(f"c09:{e.name}:{t}", f"{t} kernel differs from the oracle on {'complex' if cd else 'real'} data (rel {b.get('relerr')})",
                          {"entry": e.name, "scalar_type": t, "complex_data": cd, **b})
    if chk.tier == "thorough":
        chk.leanchecker(["FfcxProofs.C09"])
