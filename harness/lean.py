"""Build the Lean project and talk to the native line-protocol driver."""
import fcntl
import os
import re
import subprocess
import time
from pathlib import Path

from . import sexp

VERIF = Path(__file__).resolve().parent.parent
LEAN = VERIF / "lean"
DRIVER = LEAN / ".lake" / "build" / "bin" / "driver"


def lake(*args, timeout=3000):
    """Run lake serialised by a file lock. Returns (rc, output)."""
    lock = open(LEAN / ".build.lock", "w")
    fcntl.flock(lock, fcntl.LOCK_EX)
    try:
        p = subprocess.run(
            ["lake", *args], cwd=LEAN, capture_output=True, text=True, timeout=timeout
        )
        return p.returncode, p.stdout + p.stderr
    finally:
        fcntl.flock(lock, fcntl.LOCK_UN)
        lock.close()


def build(targets, timeout=3000):
    """lake build the given targets; returns (ok, log, seconds)."""
    t0 = time.time()
    rc, out = lake("build", *targets, timeout=timeout)
    return rc == 0, out, time.time() - t0


class Driver:
    """A running driver process; `ask(request_text)` -> parsed reply."""

    def __init__(self, exe="driver"):
        ok, log, _ = build([exe])
        if not ok:
            raise RuntimeError(f"{exe} build failed:\n" + log[-4000:])
        self.p = subprocess.Popen(
            [str(DRIVER.parent / exe)], stdin=subprocess.PIPE, stdout=subprocess.PIPE, text=True, bufsize=1
        )
        self.n = 0

    def ask_raw(self, req: str) -> str:
        assert "\n" not in req
        self.p.stdin.write(req + "\n")
        self.p.stdin.flush()
        # a request that never returns (e.g. a rational blow-up in exact execution) must not hang the check
        import select
        ready, _, _ = select.select([self.p.stdout], [], [], float(os.environ.get("VERIF_DRIVER_TIMEOUT", "900")))
        if not ready:
            self.p.kill()
            raise TimeoutError(f"driver did not answer within the time limit on request {req[:200]}")
        line = self.p.stdout.readline()
        if not line:
            raise RuntimeError(f"driver died on request {req[:200]}")
        self.n += 1
        return line.rstrip("\n")

    def ask(self, req: str):
        return sexp.loads(self.ask_raw(req))

    def close(self):
        try:
            self.p.stdin.close()
            self.p.wait(timeout=10)
        except Exception:
            self.p.kill()

    def __enter__(self):
        return self

    def __exit__(self, *a):
        self.close()


_BAD = re.compile(
    r"\bsorry\b|\badmit\b|^\s*axiom\s|native_decide|bv_decide|implemented_by|\bunsafe\s|maxHeartbeats\s+0"
)


def strip_comments(src: str) -> str:
    """Remove Lean block comments (nested) and line comments."""
    out = []
    i, n, depth = 0, len(src), 0
    while i < n:
        if src.startswith("/-", i):
            depth += 1
            i += 2
        elif depth and src.startswith("-/", i):
            depth -= 1
            i += 2
        elif depth:
            if src[i] == "\n":
                out.append("\n")
            i += 1
        elif src.startswith("--", i):
            while i < n and src[i] != "\n":
                i += 1
        else:
            out.append(src[i])
            i += 1
    return "".join(out)


def grep_forbidden(files):
    """Forbidden constructs outside comments: list of (file, line, text)."""
    hits = []
    for f in files:
        txt = strip_comments(Path(f).read_text())
        for k, line in enumerate(txt.split("\n"), 1):
            if _BAD.search(line):
                hits.append((str(f), k, line.strip()))
    return hits


ALLOWED_AXIOMS = {"propext", "Classical.choice", "Quot.sound"}


def print_axioms(module: str, theorems, timeout=900):
    """Run `#print axioms` for each theorem; returns {thm: set(axioms)} or raises."""
    src = f"import {module}\n" + "".join(f"#print axioms {t}\n" for t in theorems)
    tmp = LEAN / f".axioms_{os.getpid()}_{module.replace('.', '_')}.lean"
    tmp.write_text(src)
    try:
        rc, out = lake("env", "lean", str(tmp), timeout=timeout)
    finally:
        tmp.unlink(missing_ok=True)
    res = {}
    # outputs: "'Name' depends on axioms: [a, b]" or "'Name' does not depend on any axioms"
    for m in re.finditer(r"'([^']+)' depends on axioms: \[([^\]]*)\]", out, re.S):
        res[m.group(1)] = {a.strip() for a in m.group(2).replace("\n", " ").split(",") if a.strip()}
    for m in re.finditer(r"'([^']+)' does not depend on any axioms", out):
        res[m.group(1)] = set()
    missing = [t for t in theorems if not any(k == t or k.endswith("." + t) or t.endswith("." + k) for k in res)]
    return res, missing, out
