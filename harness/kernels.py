"""Kernel cases: AST + the UFCx contract extents computed from UFL/Basix (not from FFCx's IR)."""
import struct
from dataclasses import dataclass, field
from fractions import Fraction

import basix
import numpy as np
import ufl

from . import export, pipeline, sexp

_NFACETS = {"interval": 2, "triangle": 3, "quadrilateral": 4, "tetrahedron": 4, "hexahedron": 6, "prism": 5, "pyramid": 5}
_NVERTS = {"interval": 2, "triangle": 3, "quadrilateral": 4, "tetrahedron": 4, "hexahedron": 8, "prism": 6, "pyramid": 5}
_NEDGES = {"interval": 0, "triangle": 3, "quadrilateral": 4, "tetrahedron": 6, "hexahedron": 12, "prism": 9, "pyramid": 8}
_FACET_PERMS = {"point": 1, "interval": 2, "triangle": 6, "quadrilateral": 8}
_TDIM = {"interval": 1, "triangle": 2, "quadrilateral": 2, "tetrahedron": 3, "hexahedron": 3, "prism": 3, "pyramid": 3}
_FACET_TYPE = {"interval": "point", "triangle": "interval", "quadrilateral": "interval",
               "tetrahedron": "triangle", "hexahedron": "quadrilateral"}


@dataclass
class KernelCase:
    name: str
    kind: str  # integral | expression
    integral_type: str
    cell: str
    ast: object
    ast_sexp: str
    sizes: dict  # extents of A, w, c, coordinate_dofs, entity_local_index, quadrature_permutation
    n_entities: int  # valid entity indices are [0, n_entities)
    n_perms: int  # valid permutation codes are [0, n_perms)
    scalar_type: str = "float64"
    ir: object = None
    coef_blocks: list = field(default_factory=list)  # (position, offset, size) of each coefficient in w
    const_blocks: list = field(default_factory=list)
    extra: dict = field(default_factory=dict)


def _el_dim(e):
    return int(e.dim)


def _prod(s):
    p = 1
    for x in s:
        p *= int(x)
    return p


def prism_facets(domain_name):
    """Local facet indices of a prism of the given facet cell type."""
    return [0, 4] if domain_name == "triangle" else [1, 2, 3]


def cases_for_forms(name, forms, options=None):
    """All kernel cases (ASTs + contracts) of a list of forms compiled as one module."""
    options = options or pipeline.default_options()
    analysis, ir = pipeline.compute(forms, options)
    ks = pipeline.kernels(ir, options)
    # align IR integrals with UFL integral data
    itgs = []
    for fd in analysis.form_data:
        for itg in fd.integral_data:
            itgs.append((fd, itg))
    out = []
    ik = 0
    by_ir = {}
    for k in ks:
        by_ir.setdefault(id(k.ir), []).append(k)
    integral_irs = list(ir.integrals)
    assert len(integral_irs) == len(itgs), (len(integral_irs), len(itgs))
    fd_index = {id(fd): i for i, fd in enumerate(analysis.form_data)}
    for iir, (fd, itg) in zip(integral_irs, itgs):
        for k in by_ir.get(id(iir), []):
            cs = _integral_case(f"{name}:{k.name}", k, fd, itg, options)
            cs.extra["form_index"] = fd_index[id(fd)]
            cs.extra["itg_index"] = list(fd.integral_data).index(itg)
            cs.extra["subdomain_ids"] = [(-1 if sid == "otherwise" else int(sid)) for sid in itg.subdomain_id]
            cs.extra["domain_tag"] = int(k.domain)
            out.append(cs)
    return out, analysis, ir


def _integral_case(name, k, fd, itg, options):
    itype = itg.integral_type
    width = 2 if itype == "interior_facet" else 1
    cellname = itg.domain.ufl_cell().cellname
    args = sorted(fd.preprocessed_form.arguments(), key=lambda a: a.number())
    adims = [_el_dim(a.ufl_function_space().ufl_element()) for a in args]
    if options.get("part") == "diagonal" and len(adims) == 2:
        adims = adims[:1]
    coefs = list(fd.reduced_coefficients)
    cdims = [_el_dim(c.ufl_function_space().ufl_element()) for c in coefs]
    consts = list(fd.original_form.constants())
    ksizes = [_prod(c.ufl_shape) for c in consts]
    cel = itg.domain.ufl_coordinate_element()
    nodes = int(cel.basix_element.dim)
    sizes = {
        "A": _prod([width * d for d in adims]),
        "w": width * sum(cdims),
        "c": sum(ksizes),
        "coordinate_dofs": width * 3 * nodes,
    }
    off = 0
    cblocks = []
    for i, d in enumerate(cdims):
        cblocks.append((i, off, width * d))
        off += width * d
    off = 0
    kblocks = []
    for i, d in enumerate(ksizes):
        kblocks.append((i, off, d))
        off += d
    tdim = _TDIM[cellname]
    if itype == "cell":
        nent, nperm = 0, 0
    elif itype in ("exterior_facet", "interior_facet"):
        nent = _NFACETS[cellname]
        if cellname == "prism":
            ftype = k.domain.name
        else:
            ftype = _FACET_TYPE[cellname]
        nperm = _FACET_PERMS[ftype] if itype == "interior_facet" else 0
    elif itype == "vertex":
        nent, nperm = _NVERTS[cellname], 0
    elif itype == "ridge":
        nent, nperm = (_NEDGES[cellname] if tdim == 3 else _NVERTS[cellname]), 0
    else:
        raise NotImplementedError(itype)
    sizes["entity_local_index"] = 0 if itype == "cell" else width
    sizes["quadrature_permutation"] = 2 if itype == "interior_facet" else 0
    extra = {}
    if cellname == "prism" and itype != "cell":
        extra["entities"] = prism_facets(k.domain.name)
    return KernelCase(
        name=name, kind="integral", integral_type=itype, cell=cellname, ast=k.ast,
        ast_sexp=export.stmt(k.ast), sizes=sizes, n_entities=nent, n_perms=nperm,
        scalar_type=str(options["scalar_type"]), ir=k.ir, coef_blocks=cblocks, const_blocks=kblocks,
        extra=extra,
    )


def cases_for_expressions(name, exprs, options=None):
    options = options or pipeline.default_options()
    analysis, ir = pipeline.compute(exprs, options)
    ks = pipeline.kernels(ir, options)
    out = []
    for ei, (k, (e, pts)) in enumerate(zip(ks, exprs)):
        pts = np.asarray(pts)
        args = sorted(ufl.algorithms.extract_arguments(e), key=lambda a: a.number())
        adims = [_el_dim(a.ufl_function_space().ufl_element()) for a in args]
        # contract: w holds the coefficients that survive UFL's own differentiation (a coefficient that vanishes,
        # e.g. in derivative(q + u**2, u, du), is not packed), in UFL's count order; constants: all of the original
        from ufl.algorithms.apply_algebra_lowering import apply_algebra_lowering
        from ufl.algorithms.apply_derivatives import apply_derivatives
        coefs = ufl.algorithms.extract_coefficients(apply_derivatives(apply_algebra_lowering(e)))
        cdims = [_el_dim(c.ufl_function_space().ufl_element()) for c in coefs]
        consts = ufl.algorithms.analysis.extract_constants(e)
        ksizes = [_prod(c.ufl_shape) for c in consts]
        dom = ufl.domain.extract_unique_domain(e)
        cellname = dom.ufl_cell().cellname
        nodes = int(dom.ufl_coordinate_element().basix_element.dim)
        tdim = _TDIM[cellname]
        pdim = pts.shape[1] if pts.ndim == 2 else 0
        sizes = {
            "A": pts.shape[0] * _prod(e.ufl_shape) * _prod(adims),
            "w": sum(cdims), "c": sum(ksizes), "coordinate_dofs": 3 * nodes,
        }
        if pdim == tdim:
            itype, nent = "cell", 0
        elif pdim == tdim - 1:
            itype, nent = "exterior_facet", _NFACETS[cellname]
        else:
            itype, nent = "vertex", _NVERTS[cellname]
        sizes["entity_local_index"] = 0 if itype == "cell" else 1
        # facet expressions take one permutation code (ufcx.h / test_expression_facet_perm)
        sizes["quadrature_permutation"] = 1 if itype == "exterior_facet" else 0
        nperm = _FACET_PERMS[_FACET_TYPE[cellname]] if (itype == "exterior_facet" and cellname in _FACET_TYPE) else 0
        off = 0
        cblocks = []
        for i, d in enumerate(cdims):
            cblocks.append((i, off, d))
            off += d
        off = 0
        kblocks = []
        for i, d in enumerate(ksizes):
            kblocks.append((i, off, d))
            off += d
        out.append(KernelCase(
            name=f"{name}:{k.name}", kind="expression", integral_type=itype, cell=cellname, ast=k.ast,
            ast_sexp=export.stmt(k.ast), sizes=sizes, n_entities=nent, n_perms=nperm,
            scalar_type=str(options["scalar_type"]), ir=k.ir, coef_blocks=cblocks, const_blocks=kblocks,
            extra={"expr_index": ei},
        ))
    return out, analysis, ir


def cases_for_entry(entry, options=None):
    if getattr(entry, "options", None) and options is None:
        from . import pipeline
        options = pipeline.default_options(**entry.options)   # e.g. the sesquilinear demo only exists in complex mode
    objs = entry.build()
    if entry.kind == "expression":
        return cases_for_expressions(entry.name, objs, options)
    return cases_for_forms(entry.name, objs, options)


# ------------------------------------------------------------------------------ inputs
def random_inputs(case, rng, A0="zeros", entity=None, perm=None, dyadic=True):
    """Random exact (dyadic) inputs of exactly the contract extents."""
    def vec(n, lo=-2.0, hi=2.0):
        if dyadic:
            return rng.integers(-64, 65, size=n) / 32.0
        return rng.uniform(lo, hi, size=n)
    s = case.sizes
    A = np.zeros(s["A"]) if A0 == "zeros" else vec(s["A"])
    w = vec(s["w"])
    c = vec(s["c"])
    x = random_geometry(case, rng)
    ne = s["entity_local_index"]
    ents = list(entity) if entity is not None else [int(rng.integers(0, max(case.n_entities, 1))) for _ in range(ne)]
    if case.extra.get("entities") and entity is None:
        ents = [int(rng.choice(case.extra["entities"])) for _ in range(ne)]
    npm = s["quadrature_permutation"]
    perms = list(perm) if perm is not None else [int(rng.integers(0, max(case.n_perms, 1))) for _ in range(npm)]
    return {"A": A, "w": w, "c": c, "coordinate_dofs": x, "entity_local_index": ents, "quadrature_permutation": perms}


_REF = {
    "interval": [[0], [1]],
    "triangle": [[0, 0], [1, 0], [0, 1]],
    "quadrilateral": [[0, 0], [1, 0], [0, 1], [1, 1]],
    "tetrahedron": [[0, 0, 0], [1, 0, 0], [0, 1, 0], [0, 0, 1]],
    "hexahedron": [[0, 0, 0], [1, 0, 0], [0, 1, 0], [1, 1, 0], [0, 0, 1], [1, 0, 1], [0, 1, 1], [1, 1, 1]],
    "prism": [[0, 0, 0], [1, 0, 0], [0, 1, 0], [0, 0, 1], [1, 0, 1], [0, 1, 1]],
}


def random_geometry(case, rng):
    """Perturbed reference geometry (non-degenerate), dyadic coordinates, padded to 3 columns."""
    n = case.sizes["coordinate_dofs"] // 3
    width = 2 if case.integral_type == "interior_facet" else 1
    nodes = n // width
    cell = case.cell
    # reference node positions of the coordinate element via basix
    ct = getattr(basix.CellType, cell)
    tdim = _TDIM[cell]
    # find degree giving `nodes` dofs
    pts = None
    for deg in (1, 2, 3):
        el = basix.create_element(basix.ElementFamily.P, ct, deg, basix.LagrangeVariant.equispaced if deg > 2 else basix.LagrangeVariant.unset)
        if el.dim == nodes:
            pts = el.points
            break
    if pts is None:
        pts = rng.uniform(0, 1, size=(nodes, tdim))
    out = np.zeros((width, nodes, 3))
    for r in range(width):
        p = np.array(pts, dtype=float)
        pert = rng.integers(-8, 9, size=p.shape) / 64.0
        out[r, :, :tdim] = p + pert
        if r == 1:
            out[r, :, 0] += 1.0
    # manifolds: put something in the remaining columns (ignored by kernels with gdim == tdim)
    gd = case.extra.get("gdim", None)
    if gd is None:
        try:
            gd = case.ir.expression.coordinate_element and None
        except Exception:
            gd = None
    extra_cols = rng.integers(-8, 9, size=(width, nodes, 3 - tdim)) / 32.0 if tdim < 3 else None
    if extra_cols is not None:
        out[:, :, tdim:] = extra_cols
    return out.reshape(-1)


def inputs_sexp(inp):
    def arr(name, a):
        return f"(sarr {name} ({len(a)}) " + " ".join(sexp.rat(v) for v in a) + ")"
    parts = [arr("A", inp["A"]), arr("w", inp["w"]), arr("c", inp["c"]), arr("coordinate_dofs", inp["coordinate_dofs"])]
    parts.append("(iarr entity_local_index " + " ".join(str(int(v)) for v in inp["entity_local_index"]) + ")")
    parts.append("(iarr quadrature_permutation " + " ".join(str(int(v)) for v in inp["quadrature_permutation"]) + ")")
    return "(" + " ".join(parts) + ")"


def lean_exec(driver, case, inp, mode="rat"):
    """Run the kernel AST in the Lean semantics. Returns ('ok', np.array A) or ('err', reply)."""
    r = driver.ask(f"(exec {mode} {case.ast_sexp} {inputs_sexp(inp)} (A))")
    if r[0] != "ok":
        return "err", r
    vals = r[1][1:]
    if mode == "rat":
        return "ok", [Fraction(v) for v in vals]
    return "ok", np.array([struct.unpack("<d", struct.pack("<Q", int(v)))[0] for v in vals])


_UFCX_TYPES = ("cell", "exterior_facet", "interior_facet", "vertex", "ridge")


def compiled_kernel(comp, case):
    """The compiled kernel object for a case, found the way an assembler finds it: through the form
    descriptor (type group, subdomain id, cell-type tag).  Expressions: the compiled expression."""
    if case.kind == "expression":
        return comp[case.extra["expr_index"]]
    form = comp[case.extra["form_index"]]
    t = _UFCX_TYPES.index(case.integral_type)
    lo, hi = form.form_integral_offsets[t], form.form_integral_offsets[t + 1]
    sid = case.extra["subdomain_ids"][0]
    dom = case.extra["domain_tag"]
    cands = [i for i in range(lo, hi) if form.form_integral_ids[i] == sid and int(form.form_integrals[i].domain) == dom]
    if len(cands) != 1:
        raise LookupError(f"{case.name}: {len(cands)} kernels listed under type={case.integral_type} id={sid} domain={dom}")
    return form.form_integrals[cands[0]]
