"""Confirm a seeded change independently: demo passes without / fails with the patch, test suite unchanged.

usage: python -m harness.seedconfirm <seed dir> <dest id>      → writes /verif/seeded/<dest id>/{patch.diff,demo.py,meta.json}
"""
import json
import os
import re
import shutil
import subprocess
import sys
import time
from pathlib import Path

VERIF = Path(__file__).resolve().parent.parent


def run(cmd, cwd, env, timeout=3000):
    p = subprocess.run(cmd, cwd=cwd, env=env, capture_output=True, text=True, timeout=timeout)
    return p.returncode, (p.stdout + p.stderr)


def main():
    seed = Path(sys.argv[1]).resolve()
    dest = VERIF / "seeded" / sys.argv[2]
    wt = Path(f"/tmp/mutval/confirm_{sys.argv[2]}_{os.getpid()}")
    wt.parent.mkdir(parents=True, exist_ok=True)
    subprocess.run(["git", "-C", "/repo", "worktree", "add", "--detach", str(wt), "HEAD"], check=True, capture_output=True)
    env = dict(os.environ)
    env["PYTHONPATH"] = str(wt)
    env.pop("FFCX_REPO", None)
    out = {}
    try:
        # same relative layout the demos were written in: <tree>/_seed/<k>/demo.py (some derive the tree root from it)
        (wt / "_seed" / seed.name).mkdir(parents=True, exist_ok=True)
        demo = wt / "_seed" / seed.name / "demo.py"
        txt = (seed / "demo.py").read_text()
        # demos were written against another scratch path
        txt = re.sub(r"/tmp/mut[23]?/C\d\d", str(wt), txt)
        demo.write_text(txt)
        rc0, o0 = run(["/venv/bin/python", str(demo)], wt, env, 1800)
        out["demo_without_patch"] = {"exit": rc0, "tail": o0[-300:]}
        r = subprocess.run(["git", "-C", str(wt), "apply", str(seed / "patch.diff")], capture_output=True, text=True)
        out["patch_applies"] = r.returncode == 0
        if r.returncode != 0:
            out["apply_error"] = r.stderr[-300:]
        else:
            rc1, o1 = run(["/venv/bin/python", str(demo)], wt, env, 1800)
            out["demo_with_patch"] = {"exit": rc1, "tail": o1[-400:]}
            t0 = time.time()
            rct, ot = run(["/venv/bin/python", "-m", "pytest", "test", "-q", "-p", "no:cacheprovider", "-n", "8", "--timeout=900"], wt, env, 3000)
            summ = [l for l in ot.splitlines() if " passed" in l or " failed" in l][-1:] or [ot[-200:]]
            failed = sorted(set(re.findall(r"FAILED (\S+)", ot)))
            out["tests_with_patch"] = {"summary": summ[0], "failed": failed, "wall_s": round(time.time() - t0)}
        ok = (out.get("demo_without_patch", {}).get("exit") == 0 and out.get("patch_applies")
              and out.get("demo_with_patch", {}).get("exit", 0) != 0
              and out.get("tests_with_patch", {}).get("failed") == ["test/test_cmdline.py::test_cmdline_simple"])
        out["confirmed"] = bool(ok)
        if ok:
            dest.mkdir(parents=True, exist_ok=True)
            shutil.copy(seed / "patch.diff", dest / "patch.diff")
            (dest / "demo.py").write_text((seed / "demo.py").read_text())
            meta = {}
            try:
                meta = json.loads((seed / "meta.json").read_text())
            except Exception:
                pass
            meta["confirmation"] = {"ran": "harness/seedconfirm.py in a scratch worktree of /repo HEAD", **out}
            (dest / "meta.json").write_text(json.dumps(meta, indent=1))
        print(json.dumps(out, indent=1))
    finally:
        subprocess.run(["git", "-C", "/repo", "worktree", "remove", "--force", str(wt)], capture_output=True)
        shutil.rmtree(wt, ignore_errors=True)
    return 0


if __name__ == "__main__":
    sys.exit(main())
