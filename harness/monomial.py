"""Exact integrals of monomials over affinely mapped reference cells (Fractions; no Basix, no FFCx)."""
from fractions import Fraction
from math import factorial


def ref_monomial(cell, exps):
    """∫_ref X^exps dX for the FFCx/Basix reference cells."""
    if cell == "interval":
        (a,) = exps
        return Fraction(1, a + 1)
    if cell == "triangle":
        a, b = exps
        return Fraction(factorial(a) * factorial(b), factorial(a + b + 2))
    if cell == "tetrahedron":
        a, b, c = exps
        return Fraction(factorial(a) * factorial(b) * factorial(c), factorial(a + b + c + 3))
    if cell == "quadrilateral":
        a, b = exps
        return Fraction(1, (a + 1) * (b + 1))
    if cell == "hexahedron":
        a, b, c = exps
        return Fraction(1, (a + 1) * (b + 1) * (c + 1))
    if cell == "prism":  # triangle × interval
        a, b, c = exps
        return Fraction(factorial(a) * factorial(b), factorial(a + b + 2)) * Fraction(1, c + 1)
    raise NotImplementedError(cell)


def _poly_mul(p, q):
    out = {}
    for e1, c1 in p.items():
        for e2, c2 in q.items():
            e = tuple(x + y for x, y in zip(e1, e2))
            out[e] = out.get(e, 0) + c1 * c2
    return out


def _poly_pow(p, n, dim):
    out = {tuple([0] * dim): Fraction(1)}
    for _ in range(n):
        out = _poly_mul(out, p)
    return out


def affine_monomial(cell, origin, J, exps):
    """∫_K x^exps dx over K = origin + J·ref (J: gdim×tdim Fractions, square), |det J| included."""
    dim = len(origin)
    comps = []
    for i in range(dim):
        p = {tuple([0] * dim): Fraction(origin[i])}
        for j in range(dim):
            e = tuple(1 if k == j else 0 for k in range(dim))
            p[e] = p.get(e, 0) + Fraction(J[i][j])
        comps.append(p)
    poly = {tuple([0] * dim): Fraction(1)}
    for i, a in enumerate(exps):
        poly = _poly_mul(poly, _poly_pow(comps[i], a, dim))
    tot = Fraction(0)
    for e, c in poly.items():
        if c != 0:
            tot += c * ref_monomial(cell, e)
    return tot * abs(det(J))


def det(J):
    n = len(J)
    if n == 1:
        return Fraction(J[0][0])
    if n == 2:
        return Fraction(J[0][0]) * J[1][1] - Fraction(J[0][1]) * J[1][0]
    if n == 3:
        return (Fraction(J[0][0]) * (Fraction(J[1][1]) * J[2][2] - Fraction(J[1][2]) * J[2][1])
                - Fraction(J[0][1]) * (Fraction(J[1][0]) * J[2][2] - Fraction(J[1][2]) * J[2][0])
                + Fraction(J[0][2]) * (Fraction(J[1][0]) * J[2][1] - Fraction(J[1][1]) * J[2][0]))
    raise NotImplementedError
