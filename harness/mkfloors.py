"""Write coverage_floors.json from the evidence files of a clean run: per check and tier, half of the observed
number of explored cases of every kind (kinds with fewer than 4 cases get no floor).

usage: python -m harness.mkfloors            (merges the tier found in each evidence file)
"""
import json
from pathlib import Path

VERIF = Path(__file__).resolve().parent.parent


def main():
    f = VERIF / "coverage_floors.json"
    floors = json.loads(f.read_text()) if f.exists() else {}
    for ev in sorted((VERIF / "evidence").glob("C*.json")):
        d = json.loads(ev.read_text())
        if d.get("violations"):
            continue
        hist = d["coverage"].get("histogram", {})
        floors.setdefault(d["property_id"], {})[d["tier"]] = {k: int(v // 2) for k, v in sorted(hist.items()) if v >= 4}
    f.write_text(json.dumps(floors, indent=1, sort_keys=True) + "\n")
    print({p: {t: len(k) for t, k in v.items()} for p, v in floors.items()})


if __name__ == "__main__":
    main()
