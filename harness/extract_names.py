"""Translator part of the names cluster (C13, C20): /repo -> lean/FfcxModel/Generated/{Options,Templates}.lean.

Only Lean *data* is written.  Files are rewritten only when their content changes (tmp + os.replace),
so an unchanged tree does not trigger a Lean rebuild.

 * Options.lean   FFCX_DEFAULT_OPTIONS (name, type, default, choices) and the argparse actions of
                  ffcx.main.parser (dest, action class, default, suppressed, is-an-FFCx-option).
 * Templates.lean for a fixed set of probe objects and both backends: per generated block (integral,
                  form, expression, file pre/post) the identifiers DECLARED in the header text and
                  DEFINED in the source text (obtained by running FFCx's own generators and lexing the
                  two strings), the alias definitions, and the alias name expected from the UFL objects,
                  their names and the prefix of the probe (computed here, not read back from the IR).
                  (The template STRINGS themselves are translated by harness/extract_templates.py.)
                  SHA-1 digests inside names are replaced by role labels (F0, I1, E0 …) taken from the
                  IR so that the table does not depend on UFL signatures.
"""
import argparse
import ast
import os
import re
from pathlib import Path

import numpy as np

VERIF = Path(__file__).resolve().parent.parent
GEN = VERIF / "lean" / "FfcxModel" / "Generated"


# --------------------------------------------------------------------------- python value -> model
def float_digits(x: float):
    """Shortest round-trip digits of a finite float, found WITHOUT repr(): (neg, digits, decpt)
    with |x| = 0.d1d2… * 10**decpt."""
    import math

    neg = math.copysign(1.0, x) < 0
    ax = abs(x)
    if ax == 0.0:
        return neg, [0], 1
    for p in range(1, 18):
        s = "%.*e" % (p - 1, ax)
        if float(s) == ax:
            break
    mant, exp = s.split("e")
    digits = [int(c) for c in mant if c != "."]
    while len(digits) > 1 and digits[-1] == 0:
        digits.pop()
    return neg, digits, int(exp) + 1


def scalar(v):
    """Python value -> tagged tuple understood by lean_scalar / sexp_scalar."""
    import math

    if v is None:
        return ("none",)
    if isinstance(v, bool):
        return ("bool", v)
    if isinstance(v, int):
        return ("int", int(v))
    if isinstance(v, float):
        if math.isnan(v):
            return ("float", "nan")
        if math.isinf(v):
            return ("float", "inf", v < 0)
        return ("float", "fin", *float_digits(v))
    if isinstance(v, str):
        return ("str", v)
    return ("raw", repr(v))


def lean_chars(s: str) -> str:
    """A Lean `List Char` literal (explicit, so that no String function must reduce)."""
    if s == "":
        return "([] : List Char)"

    def ch(c):
        o = ord(c)
        if c == "'":
            return "'\\''"
        if c == "\\":
            return "'\\\\'"
        if c == "\n":
            return "'\\n'"
        if c == "\t":
            return "'\\t'"
        if c == "\r":
            return "'\\r'"
        if 32 <= o < 127:
            return f"'{c}'"
        return f"(Char.ofNat {o})"

    return "[" + ", ".join(ch(c) for c in s) + "]"


def lean_string(s: str) -> str:
    out = []
    for c in s:
        o = ord(c)
        if c == '"':
            out.append('\\"')
        elif c == "\\":
            out.append("\\\\")
        elif c == "\n":
            out.append("\\n")
        elif c == "\t":
            out.append("\\t")
        elif c == "\r":
            out.append("\\r")
        elif 32 <= o < 127:
            out.append(c)
        else:
            out.append("\\u{%x}" % o)
    return '"' + "".join(out) + '"'


def lean_bool(b):
    return "true" if b else "false"


def lean_scalar(t) -> str:
    k = t[0]
    if k == "none":
        return "Scalar.none"
    if k == "bool":
        return f"Scalar.bool {lean_bool(t[1])}"
    if k == "int":
        return f"Scalar.int ({t[1]})"
    if k == "float":
        if t[1] == "nan":
            return "Scalar.float Flt.nan"
        if t[1] == "inf":
            return f"Scalar.float (Flt.inf {lean_bool(t[2])})"
        _, _, neg, digits, decpt = t
        return f"Scalar.float (Flt.fin {lean_bool(neg)} [{', '.join(map(str, digits))}] ({decpt}))"
    if k == "str":
        return f"Scalar.str {lean_chars(t[1])}"
    return f"Scalar.raw {lean_chars(t[1])}"


def sexp_scalar(t) -> str:
    k = t[0]
    if k == "none":
        return "(none)"
    if k == "bool":
        return f"(bool {'true' if t[1] else 'false'})"
    if k == "int":
        return f"(int {t[1]})"
    if k == "float":
        if t[1] == "nan":
            return "(float nan)"
        if t[1] == "inf":
            return f"(float inf {'true' if t[2] else 'false'})"
        _, _, neg, digits, decpt = t
        return f"(float fin {'true' if neg else 'false'} ({' '.join(map(str, digits))}) {decpt})"
    if k == "str":
        return f"(str {sexp_str(t[1])})"
    return f"(raw {sexp_str(t[1])})"


def sexp_str(s: str) -> str:
    """A string as a code-point list `(u 97 98 …)` (safe for every character on the line protocol)."""
    return "(u" + "".join(f" {ord(c)}" for c in s) + ")"


def sexp_unstr(r) -> str:
    """Inverse of sexp_str on a parsed reply."""
    if not (isinstance(r, list) and r and r[0] == "u"):
        raise ValueError(f"not a string reply: {str(r)[:200]}")
    return "".join(chr(int(x)) for x in r[1:])


# --------------------------------------------------------------------------- options / argparse
def options_table():
    from ffcx.options import FFCX_DEFAULT_OPTIONS

    out = []
    for name, (typ, default, _desc, choices) in FFCX_DEFAULT_OPTIONS.items():
        out.append(
            {
                "name": name,
                "type": getattr(typ, "__name__", str(typ)),
                "default": scalar(default),
                "choices": list(choices) if choices else [],
            }
        )
    return out


_KINDS = {
    "_StoreAction": "store",
    "_StoreTrueAction": "storeTrue",
    "_StoreFalseAction": "storeFalse",
    "_HelpAction": "help",
    "_VersionAction": "version",
}


def actions_table():
    import ffcx.main
    from ffcx.options import FFCX_DEFAULT_OPTIONS

    out = []
    for a in ffcx.main.parser._actions:
        suppressed = a.default is argparse.SUPPRESS or a.dest is argparse.SUPPRESS
        out.append(
            {
                "dest": a.dest,
                "kind": _KINDS.get(type(a).__name__, "other"),
                "default": ("none",) if suppressed else scalar(a.default),
                "suppressed": bool(suppressed),
                "ffcx": a.dest in FFCX_DEFAULT_OPTIONS,
                "flags": list(a.option_strings),
                "nargs": a.nargs,
            }
        )
    return out


def render_options(opts, acts) -> str:
    L = [
        "/- GENERATED by harness/extract_names.py from /repo (ffcx/options.py, ffcx/main.py). DO NOT EDIT. -/",
        "import FfcxModel.Cli.Options",
        "",
        "namespace Ffcx.Generated.Options",
        "open Ffcx.Naming Ffcx.Cli",
        "",
        "structure OptionSpec where",
        "  name : String",
        "  type : String",
        "  default : Scalar",
        "  choices : List String",
        "  deriving Repr, DecidableEq",
        "",
        "/-- FFCX_DEFAULT_OPTIONS, in dict order. -/",
        "def defaults : List OptionSpec := [",
    ]
    L.append(
        ",\n".join(
            f"  ⟨{lean_string(o['name'])}, {lean_string(o['type'])}, {lean_scalar(o['default'])}, "
            f"[{', '.join(lean_string(c) for c in o['choices'])}]⟩"
            for o in opts
        )
    )
    L += [
        "]",
        "",
        "/-- The defaults as the item list `get_options` starts from. -/",
        "def defaultDict : Dict String Scalar := defaults.map fun o => (o.name, o.default)",
        "",
        "/-- ffcx.main.parser._actions, in order. -/",
        "def actions : List Action := [",
    ]
    L.append(
        ",\n".join(
            f"  ⟨{lean_string(a['dest'])}, ActionKind.{a['kind']}, {lean_scalar(a['default'])}, "
            f"{lean_bool(a['suppressed'])}, {lean_bool(a['ffcx'])}⟩"
            for a in acts
        )
    )
    L += ["]", "", "end Ffcx.Generated.Options", ""]
    return "\n".join(L)


# --------------------------------------------------------------------------- templates
def _strip_c(text: str) -> str:
    """Remove comments, string/char literals and preprocessor lines from C text."""
    text = re.sub(r"/\*.*?\*/", " ", text, flags=re.S)
    text = re.sub(r"//[^\n]*", " ", text)
    text = re.sub(r'"(\\.|[^"\\])*"', '""', text)
    text = re.sub(r"'(\\.|[^'\\])*'", "''", text)
    text = "\n".join(l for l in text.split("\n") if not l.lstrip().startswith("#"))
    return text


_ID = r"[A-Za-z_][A-Za-z0-9_]*"


def c_declared(header_text: str):
    """Names declared `extern T name;` / `extern T* name;` in a header fragment."""
    t = _strip_c(header_text)
    return [m.group(1) for m in re.finditer(r"\bextern\b[^;{}\"]*?(" + _ID + r")\s*;", t)]


def c_defined(source_text: str):
    """Top-level definitions of a C source fragment: list of (name, is_static, alias_target|None)."""
    t = _strip_c(source_text)
    items, depth_b, depth_p, cur = [], 0, 0, []
    saw_assign = False
    for ch in t:
        cur.append(ch)
        if ch == "{":
            depth_b += 1
        elif ch == "}":
            depth_b -= 1
            if depth_b == 0 and depth_p == 0 and not saw_assign:
                items.append("".join(cur))  # function body closed
                cur = []
        elif ch == "(":
            depth_p += 1
        elif ch == ")":
            depth_p -= 1
        elif ch == "=" and depth_b == 0 and depth_p == 0:
            saw_assign = True
        elif ch == ";" and depth_b == 0 and depth_p == 0:
            items.append("".join(cur))
            cur = []
            saw_assign = False
    out = []
    for it in items:
        s = it.strip()
        if not s or s == ";":
            continue
        m = re.search(r"[=({]", s)
        head = s[: m.start()] if m else s.rstrip(";")
        is_def = bool(m)  # has initialiser or body
        if m and m.group(0) == "(":
            # function: definition iff a body follows the parameter list
            is_def = "{" in s
        head = re.sub(r"\[[^\]]*\]", " ", head)
        ids = re.findall(_ID, head)
        if not ids or not is_def or "extern" in ids:
            continue
        name = ids[-1]
        target = None
        ma = re.match(r"^[^=]*=\s*&\s*(" + _ID + r")\s*;$", s, flags=re.S)
        if ma:
            target = ma.group(1)
        out.append((name, "static" in ids[:-1], target))
    return out


def py_defined(text: str):
    """Top-level names of a Python fragment: list of (name, False, alias_target|None)."""
    out = []
    tree = ast.parse(text)
    for node in tree.body:
        if isinstance(node, (ast.FunctionDef, ast.ClassDef)):
            out.append((node.name, False, None))
        elif isinstance(node, ast.Assign):
            for tg in node.targets:
                if isinstance(tg, ast.Name):
                    tgt = node.value.id if isinstance(node.value, ast.Name) else None
                    out.append((tg.id, False, tgt))
    return out


def probes():
    """(probe name, objects, object_names, prefix). Deterministic, small, cover every template branch."""
    import basix.ufl
    import ufl

    out = []

    def tri():
        m = ufl.Mesh(basix.ufl.element("P", "triangle", 1, shape=(2,)))
        V = ufl.FunctionSpace(m, basix.ufl.element("P", "triangle", 1))
        return m, V

    # two named forms, coefficient, scalar + tensor constants, cell + exterior facet + subdomain
    m, V = tri()
    u, v, f = ufl.TrialFunction(V), ufl.TestFunction(V), ufl.Coefficient(V)
    c = ufl.Constant(m)
    K = ufl.Constant(m, shape=(2, 2))
    a = ufl.inner(K * ufl.grad(u), ufl.grad(v)) * ufl.dx + c * f * u * v * ufl.ds + u * v * ufl.dx(1)
    L = f * v * ufl.dx
    out.append(("forms2", [a, L], {id(a): "a", id(L): "L", id(f): "f", id(c): "c", id(K): "K"}, "pfx"))
    # unnamed form without coefficients (NULL branches); alias falls back to the index
    m, V = tri()
    u, v = ufl.TrialFunction(V), ufl.TestFunction(V)
    out.append(("plain", [u * v * ufl.dx], {}, "q_2"))
    # prism exterior facets: two kernels (triangle, quadrilateral) for one integral
    m = ufl.Mesh(basix.ufl.element("P", "prism", 1, shape=(3,)))
    V = ufl.FunctionSpace(m, basix.ufl.element("P", "prism", 1))
    u, v = ufl.TrialFunction(V), ufl.TestFunction(V)
    b = u * v * ufl.ds
    out.append(("prism", [b], {id(b): "b"}, "pfx"))
    # expressions: named with coefficient+constant, unnamed without
    m, V = tri()
    f = ufl.Coefficient(V)
    c = ufl.Constant(m)
    pts = np.array([[0.25, 0.25], [0.5, 0.25]])
    e = c * ufl.grad(f)
    x = ufl.SpatialCoordinate(m)
    e2 = x[0] * x[1]
    out.append(("exprs", [(e, pts), (e2, pts)], {id(e): "e", id(f): "f", id(c): "c"}, "pfx"))
    return out


def _labels(ir):
    """sha1 digest -> role label, from the IR's own names."""
    lab = {}
    for i, f in enumerate(ir.forms):
        lab.setdefault(f.name.split("_")[-1], f"F{i}")
    for j, it in enumerate(ir.integrals):
        lab.setdefault(it.expression.name.split("_")[-1], f"I{j}")
    for k, e in enumerate(ir.expressions):
        lab.setdefault(e.expression.name.split("_")[-1], f"E{k}")
    return lab


def template_blocks(problems=None):
    """Run the real generators on the probes; return list of block dicts (sorted, canonical).

    The name of the generated object of a block is the recorded filling of the `factory_name` hole
    of the template that produced the block's implementation text (extract_templates.Recorder);
    if no recorded instantiation matches, the comment `Code for <kind> <name>` is tried; if that
    fails too the block gets no factory name and a message is appended to `problems` (reported by
    the check as a broken correspondence, not as a broken build).  The expected alias is computed
    from the UFL objects, their names and the prefix of the probe — not read back from the IR."""
    from . import extract_templates as _T

    problems = problems if problems is not None else []
    from ffcx.analysis import analyze_ufl_objects
    from ffcx.codegeneration.codegeneration import generate_code
    from ffcx.ir.representation import compute_ir
    from ffcx.options import FFCX_DEFAULT_OPTIONS

    blocks = []
    for lang in ("C", "numba"):
        for pname, objs, onames, prefix in probes():
            opts = {k: v[1] for k, v in FFCX_DEFAULT_OPTIONS.items()}
            opts["language"] = lang
            with _T.Recorder() as tlog:
                analysis = analyze_ufl_objects(objs, opts["scalar_type"])
                ir = compute_ir(analysis, onames, prefix, opts, False)
                code, suffixes = generate_code(ir, opts)
            lab = _labels(ir)
            by_text = {r["text"]: r["filling"].get("factory_name", "") for r in tlog if r["text"]}

            def canon(name):
                return re.sub(r"[0-9a-f]{40}", lambda m: lab.get(m.group(0), "H"), name)

            # expected alias of the i-th form / expression block, from the UFL side only:
            # <kind>_<prefix>_<name given in the UFL file, else the index among the objects of the kind>
            import ufl as _ufl

            uforms = [o for o in objs if isinstance(o, _ufl.Form)]
            uexprs = [o[0] for o in objs if isinstance(o, tuple)]
            expected_by_pos = {
                "form": [f"form_{prefix}_{onames.get(id(o), i)}" for i, o in enumerate(uforms)],
                "expression": [f"expression_{prefix}_{onames.get(id(o), i)}" for i, o in enumerate(uexprs)],
            }
            groups = [
                ("file_pre", code.file_pre),
                ("integral", code.integrals),
                ("form", code.forms),
                ("expression", code.expressions),
                ("file_post", code.file_post),
            ]
            for kind, blist in groups:
                for pos, tup in enumerate(blist):
                    if lang == "C":
                        decl_text, impl_text = tup[0], tup[1]
                        declared = c_declared(decl_text)
                        defs = c_defined(impl_text)
                    else:
                        decl_text, impl_text = "", tup[0]
                        declared = []
                        defs = py_defined(impl_text) if impl_text.strip() else []
                    factory = ""
                    if kind in ("integral", "form", "expression"):
                        factory = by_text.get(impl_text, "")
                        if not factory:
                            m = re.search(r"Code for " + kind + r" (\w+)", impl_text)
                            factory = m.group(1) if m else ""
                        if not factory:
                            problems.append(
                                f"{lang}/{pname}/{kind}[{pos}]: the name of the generated object could not be determined "
                                "(no recorded template instantiation produced this text and the comment "
                                f"'Code for {kind} <name>' is absent); the block is left out of Generated/Templates.lean")
                            continue
                    exp_alias = expected_by_pos.get(kind, [])
                    exp_alias = exp_alias[pos] if pos < len(exp_alias) else ""
                    blocks.append(
                        {
                            "lang": lang,
                            "probe": pname,
                            "pfx": prefix,
                            "kind": kind,
                            "factory": canon(factory),
                            "declared": [canon(n) for n in declared],
                            "defined": [canon(n) for n, st, _ in defs if not st],
                            "statics": [canon(n) for n, st, _ in defs if st],
                            "aliases": [(canon(n), canon(t)) for n, _, t in defs if t is not None],
                            "expected_alias": exp_alias,
                        }
                    )
    blocks.sort(key=lambda b: (b["lang"], b["probe"], b["kind"], b["factory"]))
    return blocks


def render_templates(blocks) -> str:
    def sl(xs):
        return "[" + ", ".join(lean_string(x) for x in xs) + "]"

    L = [
        "/- GENERATED by harness/extract_names.py by running /repo's generators on probe objects and",
        "   lexing the declaration / implementation strings. DO NOT EDIT. -/",
        "",
        "namespace Ffcx.Generated.Templates",
        "",
        "structure Block where",
        "  lang : String",
        "  probe : String",
        "  /-- the prefix (namespace) the probe was compiled with -/",
        "  pfx : String",
        "  kind : String",
        "  /-- name of the generated object (\"\" for file blocks) -/",
        "  factory : String",
        "  /-- identifiers declared `extern` in the header text of the block -/",
        "  declared : List String",
        "  /-- identifiers with external linkage defined at top level of the source text -/",
        "  defined : List String",
        "  /-- file-local (`static`) top-level definitions -/",
        "  statics : List String",
        "  /-- `T* alias = &target;` (C) / `alias = target` (numba) -/",
        "  aliases : List (String × String)",
        "  /-- `name_from_uflfile` of the IR (\"\" if the block has none) -/",
        "  expectedAlias : String",
        "  deriving Repr, DecidableEq",
        "",
        "def blocks : List Block := [",
    ]
    L.append(
        ",\n".join(
            "  { lang := %s, probe := %s, pfx := %s, kind := %s, factory := %s,\n    declared := %s,\n    defined := %s,\n"
            "    statics := %s,\n    aliases := [%s],\n    expectedAlias := %s }"
            % (
                lean_string(b["lang"]),
                lean_string(b["probe"]),
                lean_string(b["pfx"]),
                lean_string(b["kind"]),
                lean_string(b["factory"]),
                sl(b["declared"]),
                sl(b["defined"]),
                sl(b["statics"]),
                ", ".join(f"({lean_string(a)}, {lean_string(t)})" for a, t in b["aliases"]),
                lean_string(b["expected_alias"]),
            )
            for b in blocks
        )
    )
    L += ["]", "", "end Ffcx.Generated.Templates", ""]
    return "\n".join(L)


# --------------------------------------------------------------------------- driver
def write_if_changed(path: Path, text: str) -> bool:
    path.parent.mkdir(parents=True, exist_ok=True)
    if path.exists() and path.read_text() == text:
        return False
    tmp = path.with_name(f".{path.name}.tmp{os.getpid()}")
    tmp.write_text(text)
    os.replace(tmp, path)
    return True


def regenerate(which=("options", "templates")):
    """Regenerate the Generated/*.lean files of this cluster. Returns the extracted data."""
    import logging

    data = {"changed": []}
    lg = logging.getLogger("ffcx")
    lvl = lg.level
    try:
        if "options" in which:
            opts, acts = options_table(), actions_table()
            data["options"], data["actions"] = opts, acts
            if write_if_changed(GEN / "Options.lean", render_options(opts, acts)):
                data["changed"].append("Options.lean")
        if "templates" in which:
            blocks = template_blocks(data.setdefault("problems", []))
            data["blocks"] = blocks
            if write_if_changed(GEN / "Templates.lean", render_templates(blocks)):
                data["changed"].append("Templates.lean")
    finally:
        lg.setLevel(lvl)
    return data


if __name__ == "__main__":
    d = regenerate()
    print("changed:", d["changed"])


# =========================================================================== shared helpers
# (used by harness/props/c13.py and c20.py)
import contextlib
import hashlib as _hashlib


@contextlib.contextmanager
def hermetic_options(user_json=None, pwd_json=None):
    """Run with a private XDG_CONFIG_HOME and cwd (optionally holding ffcx_options.json files).

    Yields (xdg_dir, cwd_dir). Restores cwd, environment, the `_load_options` cache, the ffcx logger
    level and the warnings->logging redirection on exit, and removes the directories.
    """
    import json
    import logging
    import shutil
    import tempfile
    import warnings

    import ffcx.options

    root = Path(tempfile.mkdtemp(prefix="ffcxverif_names_"))
    xdg, cwd = root / "xdg", root / "cwd"
    (xdg / "ffcx").mkdir(parents=True)
    cwd.mkdir()
    if user_json is not None:
        (xdg / "ffcx" / "ffcx_options.json").write_text(json.dumps(user_json))
    if pwd_json is not None:
        (cwd / "ffcx_options.json").write_text(json.dumps(pwd_json))
    old_cwd = os.getcwd()
    old_xdg = os.environ.get("XDG_CONFIG_HOME")
    lg = logging.getLogger("ffcx")
    old_level = lg.level
    old_show = warnings.showwarning
    old_capture = logging._warnings_showwarning
    try:
        os.environ["XDG_CONFIG_HOME"] = str(xdg)
        os.chdir(cwd)
        ffcx.options._load_options.cache_clear()
        yield xdg, cwd
    finally:
        os.chdir(old_cwd)
        if old_xdg is None:
            os.environ.pop("XDG_CONFIG_HOME", None)
        else:
            os.environ["XDG_CONFIG_HOME"] = old_xdg
        ffcx.options._load_options.cache_clear()
        lg.setLevel(old_level)
        warnings.showwarning = old_show
        logging._warnings_showwarning = old_capture
        shutil.rmtree(root, ignore_errors=True)


class CaptureError(RuntimeError):
    """The harness cannot observe what it is meant to observe on this tree (a hook point moved):
    reported by the checks as a broken tie (`chk.disagree`), never as an infrastructure error."""


class CaptureSha1:
    """Record everything handed to `hashlib.sha1` *as seen from ffcx.naming*: `.strings` the
    pre-hash strings of compute_signature, `.blobs` the byte strings of evaluation points.

    Hooks both spellings naming.py could use: the module attribute `hashlib` (`hashlib.sha1(…)`) and a
    name `sha1` imported with `from hashlib import sha1`. If neither exists a CaptureError is raised."""

    def __enter__(self):
        import ffcx.naming

        self.strings = []
        self.blobs = []
        self._saved = {}
        outer = self

        def sha1(data=b"", **kw):
            raw = bytes(data)
            try:
                txt = raw.decode("utf-8")
            except UnicodeDecodeError:
                txt = None
            if txt is not None and (";form;" in txt or ";expression;" in txt):
                outer.strings.append(txt)  # a pre-hash string of compute_signature
            else:
                outer.blobs.append(raw)  # the bytes of an evaluation-point array
            return _hashlib.sha1(data, **kw)

        class _Shim:
            def __getattr__(self, name):
                return getattr(_hashlib, name)

        shim = _Shim()
        shim.sha1 = sha1
        if hasattr(ffcx.naming, "hashlib"):
            self._saved["hashlib"] = ffcx.naming.hashlib
            ffcx.naming.hashlib = shim
        if callable(getattr(ffcx.naming, "sha1", None)):
            self._saved["sha1"] = ffcx.naming.sha1
            ffcx.naming.sha1 = sha1
        if not self._saved:
            raise CaptureError("cannot capture pre-hash strings: ffcx.naming has neither a `hashlib` nor a `sha1` "
                               "attribute to hook")
        return self

    def __exit__(self, *a):
        import ffcx.naming

        for k, v in self._saved.items():
            setattr(ffcx.naming, k, v)

    def require(self, n, what):
        """At least `n` pre-hash strings must have been seen (else the hook is not where sha1 is called)."""
        if len(self.strings) < n:
            raise CaptureError(f"cannot capture pre-hash strings: {what} computed its names but only {len(self.strings)} of "
                               f"{n} expected strings reached the sha1 hook of ffcx.naming (is sha1 reached under another name?)")


class _NamesOnly(Exception):
    pass


def jit_names(objs, kind="form", options=None, **kw):
    """Run the REAL jit.compile_forms / compile_expressions up to the cache lookup (no code
    generation, no C compiler): returns (module_name, object_names, [pre-hash strings], objs_after).
    """
    import ffcx.codegeneration.jit as jit

    def stop(module_name, object_names, cache_dir, timeout):
        raise _NamesOnly(module_name, list(object_names))

    if not hasattr(jit, "get_cached_module"):
        raise CaptureError("cannot stop jit at the cache lookup: ffcx.codegeneration.jit.get_cached_module is gone")
    orig = jit.get_cached_module
    jit.get_cached_module = stop
    lst = list(objs)
    try:
        with CaptureSha1() as cap:
            try:
                fn = jit.compile_forms if kind == "form" else jit.compile_expressions
                fn(lst, options=dict(options or {}), cache_dir="/nonexistent/ffcx-verif-names", **kw)
            except _NamesOnly as e:
                cap.require(1 + len(lst), "jit." + fn.__name__)
                return e.args[0], e.args[1], list(cap.strings), lst
        raise RuntimeError("jit did not reach the cache lookup")
    finally:
        jit.get_cached_module = orig


# --------------------------------------------------------------------------- renumbering (naming.py:41-64)
class Unsupported(Exception):
    """An expression outside the renumbering model (a terminal over several meshes / no ufl.Mesh)."""


_CODES = {}


def _code(*key):
    """Process-wide injective coding of static data (element reprs, shapes, class names) by naturals."""
    k = repr(key)
    if k not in _CODES:
        _CODES[k] = len(_CODES)
    return _CODES[k]


def _mesh_key(m):
    import ufl

    if not isinstance(m, ufl.Mesh):
        raise Unsupported(f"domain {type(m).__name__}")
    return (int(m.ufl_id()), _code("cel", repr(m.ufl_coordinate_element())))


def term_of(t):
    """UFL terminal -> model term tuple (see DriverNames.lean `renumber`)."""
    from ufl.argument import BaseArgument
    from ufl.classes import Constant, GeometricQuantity
    from ufl.coefficient import BaseCoefficient

    if isinstance(t, BaseCoefficient):
        fs = t.ufl_function_space()
        return ("coeff", int(t.count()), _code("space", type(fs).__name__, repr(fs.ufl_element()), repr(fs.label())),
                *_mesh_key(fs.ufl_domain()))
    if isinstance(t, Constant):
        return ("const", int(t.count()), _code("shape", repr(t.ufl_shape)), *_mesh_key(t.ufl_domain()))
    if isinstance(t, BaseArgument):
        fs = t.ufl_function_space()
        part = 0 if t.part() is None else int(t.part()) + 1
        return ("arg", int(t.number()), part, _code("space", type(fs).__name__, repr(fs.ufl_element()), repr(fs.label())),
                *_mesh_key(fs.ufl_domain()))
    if isinstance(t, GeometricQuantity):
        return ("geo", _code("geo", type(t).__name__), *_mesh_key(t._domain))
    return ("other", _code("other", type(t).__name__, repr(t)))


def sexp_term(t):
    return "(" + " ".join(str(x) for x in t) + ")"


def expression_terms(expr):
    """The terminals of `expr` in UFL's unique pre-order traversal, as (objects, model terms)."""
    from ufl.corealg.traversal import traverse_unique_terminals

    objs = list(traverse_unique_terminals(expr))
    return objs, [term_of(t) for t in objs]


_SET_KINDS = ("coeffs", "consts", "args")


def _set_kind(ufl_types):
    from ufl.argument import BaseArgument
    from ufl.classes import Constant, GeometricQuantity
    from ufl.coefficient import BaseCoefficient

    ts = ufl_types if isinstance(ufl_types, (list, tuple)) else (ufl_types,)
    for kind, cls in zip(_SET_KINDS + ("geos",), (BaseCoefficient, Constant, BaseArgument, GeometricQuantity)):
        if len(ts) == 1 and ts[0] is cls:
            return kind
    return None


def set_orders(expr):
    """Iteration orders of the three sets `extract_type(expr, T)` builds in THIS process (harness's own calls)."""
    import ufl
    from ufl.argument import BaseArgument
    from ufl.classes import Constant
    from ufl.coefficient import BaseCoefficient

    return {kind: list(ufl.algorithms.analysis.extract_type(expr, cls))
            for kind, cls in zip(_SET_KINDS, (BaseCoefficient, Constant, BaseArgument))}


class CaptureRenumbering:
    """Observe ONE run of the expression branch of ffcx.naming.compute_signature: the iteration order of every
    set `ufl.algorithms.analysis.extract_type` returned (the very set objects the code then iterates) and the dict
    `rn` handed to `ufl.algorithms.signature.compute_expression_signature`."""

    def __enter__(self):
        import ufl

        an, sg = ufl.algorithms.analysis, ufl.algorithms.signature
        for mod, name in ((an, "extract_type"), (sg, "compute_expression_signature")):
            if not hasattr(mod, name):
                raise CaptureError(f"cannot capture the renumbering: {mod.__name__}.{name} is gone")
        self._an, self._sg = an, sg
        self._orig_et, self._orig_ces = an.extract_type, sg.compute_expression_signature
        self.sets, self.calls = [], []
        outer = self

        def extract_type(a, ufl_types, *args, **kw):
            res = outer._orig_et(a, ufl_types, *args, **kw)
            kind = _set_kind(ufl_types)
            if kind is not None:
                outer.sets.append((kind, a, list(res)))
            return res

        def compute_expression_signature(expr, renumbering):
            outer.calls.append((expr, dict(renumbering)))
            return outer._orig_ces(expr, renumbering)

        an.extract_type = extract_type
        sg.compute_expression_signature = compute_expression_signature
        return self

    def __exit__(self, *a):
        self._an.extract_type = self._orig_et
        self._sg.compute_expression_signature = self._orig_ces

    def orders_for(self, expr):
        """The captured set orders of the top-level extract_type calls on `expr` (last call per kind)."""
        out = {}
        for kind, a, items in self.sets:
            if a is expr:
                out[kind] = items
        self.geo_set_iterated = "geos" in out  # the pre-61cd434 shape: a SET of geometric quantities is iterated
        missing = [k for k in _SET_KINDS if k not in out]
        if missing:
            raise CaptureError(f"cannot capture the renumbering: compute_signature did not call extract_type(expr, …) for {missing} "
                               "(naming.py:41-43 changed shape)")
        return out


def model_renumber(d, terms, orders):
    """Ask the Lean model (`renumber`, `leafData`) — terms (in traversal order) / orders are model term tuples."""
    req = ("(renumber (terms " + " ".join(map(sexp_term, terms)) + ") "
           + " ".join("(" + k + " " + " ".join(map(sexp_term, orders[k])) + ")" for k in _SET_KINDS) + ")")
    r = d.ask(req)
    out = {}
    for item in r:
        out[item[0]] = item[1:]
    res = {"valid": out["valid"][0] == "true", "distinctkeys": out["distinctkeys"][0] == "true", "geonew": int(out["geonew"][0])}
    for k in ("coeffs", "consts", "args", "data"):
        res[k] = [tuple([x[0]] + [int(v) for v in x[1:]]) for x in out[k]]
    res["domains"] = [tuple(int(v) for v in x) for x in out["domains"]]
    return res


def model_rn_dict(expr, res):
    """The dict `rn` the MODEL prescribes, over the real objects of `expr` (object -> number)."""
    import ufl

    objs, _terms = expression_terms(expr)
    rn = {}
    num = {}
    for k in ("coeffs", "consts", "args"):
        for i, t in enumerate(res[k]):
            num[t] = i
    dnum = {m: i for i, m in enumerate(res["domains"])}
    for o in objs:
        t = term_of(o)
        if t in num:
            rn[o] = num[t]
        for dom in o.ufl_domains():
            if isinstance(dom, ufl.Mesh) and _mesh_key(dom) in dnum:
                rn[dom] = dnum[_mesh_key(dom)]
    return rn


def expression_signature(expr, d):
    """UFL signature of an expression under the renumbering computed by the LEAN model (`renumber` of
    FfcxModel/Jit/Renumber.lean, asked through driver session `d`) from the terminals of `expr` and the set
    iteration orders of this process. Nothing of naming.py:41-64 is re-implemented in Python."""
    import ufl

    _objs, terms = expression_terms(expr)
    so = set_orders(expr)
    res = model_renumber(d, terms, {k: [term_of(t) for t in so[k]] for k in _SET_KINDS})
    return ufl.algorithms.signature.compute_expression_signature(expr, model_rn_dict(expr, res))


def model_env():
    """(version, ufcx.h hash) computed by the harness itself."""
    import ffcx
    import ffcx.codegeneration

    p = Path(ffcx.codegeneration.__file__).resolve().parent / "ufcx.h"
    with open(p) as f:
        h = _hashlib.sha1(f.read().encode("utf-8")).hexdigest()
    return str(ffcx.__version__), h


def sexp_env():
    v, h = model_env()
    return f"(env {sexp_str(v)} {sexp_str(h)})"


def sexp_points(a) -> str:
    """ndarray -> model points `(pts dtype.str (shape…) sha1-hex-of-bytes)`; the digest of the bytes
    is computed here, independently of ffcx.naming (it is a parameter of the model)."""
    c = np.ascontiguousarray(a)
    dig = _hashlib.sha1(c.tobytes()).hexdigest()
    return f"(pts {sexp_str(c.dtype.str)} ({' '.join(str(int(n)) for n in c.shape)}) {dig})"


def sexp_items(d: dict) -> str:
    return " ".join(f"({sexp_str(str(k))} {sexp_scalar(scalar(v))})" for k, v in d.items())


def sexp_compile(args, debug) -> str:
    import sysconfig

    return (
        "(" + " ".join(sexp_str(a) for a in args) + ") "
        + sexp_scalar(scalar(debug)) + " "
        + sexp_scalar(scalar(sysconfig.get_config_var("CFLAGS"))) + " "
        + sexp_scalar(scalar(sysconfig.get_config_var("SOABI")))
    )


C_IDENT = re.compile(r"^[A-Za-z_][A-Za-z0-9_]*$")
